/-
The successor of a legal move on a well-formed board passes `Board::validate` again: one king per
side, at most 16 men per side, a consistent e.p. marker, castling rights only with king and rook at
home, and the side that just moved not in check.
-/
import ChessVerif.Proofs.Legal.MoveFields
import ChessVerif.Proofs.Legal.Final

namespace Chess.Legal
open Chess Chess.Spec Chess.Rays

/-- a member of `attackersOf` is an own piece attacking the square -/
theorem attacks_of_mem_attackersOf (b : Board) (hp : b.raw.partitionOk = true) (k' x : Sq) (c : Color)
    (hm : BB.mem (Board.attackersOf b.raw k' c b.raw.all) x = true) :
    ∃ pc, (abs b).pieceAt x = some (c, pc) ∧ (abs b).attacksFrom x c pc k' = true := by
  have hc : BB.mem (b.raw.color c) x = true := by
    unfold Board.attackersOf at hm
    rw [BB.mem_and', Bool.and_eq_true] at hm
    exact hm.2
  rw [AbsL.mem_color b hp, Position.colorAt] at hc
  rcases hx : (abs b).pieceAt x with _ | ⟨c', pc⟩
  · rw [hx] at hc; cases hc
  rw [hx] at hc
  have : c' = c := by simpa using hc
  subst this
  refine ⟨pc, rfl, ?_⟩
  obtain ⟨h1, h2⟩ := mem_of_at b hp x c' pc hx
  have hb : BB.mem b.raw.bishop x = (pc == .bishop) := h2 .bishop
  have hr : BB.mem b.raw.rook x = (pc == .rook) := h2 .rook
  have hq : BB.mem b.raw.queen x = (pc == .queen) := h2 .queen
  have hn : BB.mem b.raw.knight x = (pc == .knight) := h2 .knight
  have hk : BB.mem b.raw.king x = (pc == .king) := h2 .king
  have hpw : BB.mem b.raw.pawn x = (pc == .pawn) := h2 .pawn
  unfold Board.attackersOf at hm
  simp only [BB.mem_and', BB.mem_or', Props.C08.mem_bishopMoves, Props.C08.mem_rookMoves,
    Props.C09.mem_knightMoves, Props.C09.mem_kingMoves, Props.C09.mem_pawnAttacksMoves,
    hb, hr, hq, hn, hk, hpw, h1 c'] at hm
  rw [← AbsL.occupied_eq b hp, rookReach_symm _ k' x, bishopReach_symm _ k' x, knightAtt_symm k' x,
    kingAtt_symm k' x, pawnAtt_symm c'.flip k' x, Color.flip_flip] at hm
  cases pc <;> simp [Position.attacksFrom] at hm ⊢ <;> first | exact hm | exact hm.symm

theorem attacked_false_iff (b : Board) (hp : b.raw.partitionOk = true) (k' : Sq) (c : Color) :
    (abs b).attacked k' c = false ↔ BB.any (Board.attackersOf b.raw k' c b.raw.all) = false := by
  rw [← Bool.not_eq_true, ← Bool.not_eq_true (BB.any _), BB.any_iff]
  apply not_congr
  unfold Position.attacked
  rw [List.any_eq_true]
  constructor
  · rintro ⟨x, _, hx⟩
    rcases hP : (abs b).pieceAt x with _ | ⟨c', pc⟩
    · rw [hP] at hx; cases hx
    · rw [hP] at hx
      simp only [Bool.and_eq_true, beq_iff_eq] at hx
      obtain ⟨rfl, hx⟩ := hx
      exact ⟨x, mem_attackersOf b hp _ x _ pc hP hx⟩
  · rintro ⟨x, hx⟩
    obtain ⟨pc, h1, h2⟩ := attacks_of_mem_attackersOf b hp k' x c hx
    refine ⟨x, List.mem_finRange x, ?_⟩
    rw [h1]
    simp [h2]

set_option linter.unusedVariables false in
/-- the validation clause "opponent not in check" is the specification's: nothing of the side to
move attacks the other king -/
theorem validateOpp_iff (b : Board) (hp : b.raw.partitionOk = true) (hk : b.raw.hasKings = true) :
    b.validateOpponentNotInCheck = .ok () ↔ (abs b).attacked (b.kingSq b.turn.flip) b.turn = false := by
  rw [attacked_false_iff b hp]
  unfold Board.validateOpponentNotInCheck
  cases BB.any (Board.attackersOf b.raw (b.kingSq b.turn.flip) b.turn b.raw.all) <;> simp

theorem move_castle_lt (b : Board) (h : b.WF = true) (m : Move) : (b.moveUnchecked m).castle < 16 := by
  rw [Props.C02.move_castle]
  exact removeForSq_lt _ (removeForSq_lt _ (AbsL.wf_castle b h) _ _) _ _


/-! ### the shape of a pseudo-legal move -/

theorem promo_ne_king (pr : Promo) : pr.toPiece ≠ .king := by cases pr <;> exact fun h => by cases h

/-- everything pseudo-legality says about the shape of a move -/
theorem pseudo_shape (p : Position) (m : Move) (κ : Position.Kind) (h : p.pseudo m = some κ) :
    ∃ pc pc', p.pieceAt m.source = some (p.turn, pc) ∧ destOk p p.turn m.dest = true ∧
      arriving p m = some (p.turn, pc') ∧ (pc' = .king → pc = .king) ∧ (pc ≠ .pawn → pc' = pc) ∧
      (κ = .double → pc = .pawn ∧ pc' = .pawn ∧ some m.dest = step m.source 0 (2 * fwd p.turn) ∧
          rankI m.source = Position.secondRank p.turn ∧
          (∃ o, step m.source 0 (fwd p.turn) = some o ∧ p.occupied o = false) ∧ p.occupied m.dest = false) ∧
      (κ = .enPassant → pc = .pawn ∧ ∃ v, Position.sqAt (fileI m.dest) (rankI m.source) = some v ∧
          p.pieceAt v = some (p.turn.flip, .pawn)) ∧
      (∀ sd, κ = .castle sd → pc = .king ∧ m.source = King.kHome p.turn ∧ m.dest = King.cDest sd p.turn ∧
          p.castleOk sd = true) := by
  obtain ⟨pc, hsrc, hd, hk⟩ := pseudo_info p m κ h
  by_cases hpawn : pc = .pawn
  · subst hpawn
    have harr : ∃ pc', arriving p m = some (p.turn, pc') ∧ pc' ≠ .king ∧ (m.piece = none → pc' = .pawn) := by
      unfold arriving
      rw [hsrc]
      rcases m.piece with _ | pr
      · exact ⟨.pawn, rfl, (fun h => by cases h), fun _ => rfl⟩
      · exact ⟨pr.toPiece, rfl, promo_ne_king pr, (fun h => by cases h)⟩
    obtain ⟨pc', harr, hnk, hnone⟩ := harr
    refine ⟨.pawn, pc', hsrc, hd, harr, fun h => absurd h hnk, fun h => absurd rfl h, ?_, ?_, ?_⟩
    · intro hκ
      subst hκ
      have hm := ((pawn_double_iff p m _ hsrc h).1 rfl).1
      rw [pseudo_pawn p m hsrc] at h
      rcases ite_cases h with ⟨-, h⟩ | ⟨-, h⟩
      · cases h
      rcases ite_cases h with ⟨-, h⟩ | ⟨-, h⟩
      · cases h
      rcases ite_cases h with ⟨-, h⟩ | ⟨-, h⟩
      · cases h
      rcases ite_cases h with ⟨h2, h⟩ | ⟨-, h⟩
      · simp only [Bool.and_eq_true, beq_iff_eq, Bool.not_eq_true'] at h2
        obtain ⟨⟨⟨hr, hst⟩, ho⟩, hdo⟩ := h2
        refine ⟨rfl, hnone hm, hst, hr, ?_, hdo⟩
        rcases hs1 : step m.source 0 (fwd p.turn) with _ | o
        · rw [hs1] at ho; cases ho
        · rw [hs1] at ho
          exact ⟨o, rfl, by simpa using ho⟩
      rcases ite_cases h with ⟨-, h⟩ | ⟨-, h⟩
      · rcases ite_cases h with ⟨-, h⟩ | ⟨-, h⟩
        · cases h
        rcases ite_cases h with ⟨-, h⟩ | ⟨-, h⟩
        · cases h
        · cases h
      · cases h
    · intro hκ
      subst hκ
      refine ⟨rfl, ?_⟩
      rw [pseudo_pawn p m hsrc] at h
      rcases ite_cases h with ⟨-, h⟩ | ⟨-, h⟩
      · cases h
      rcases ite_cases h with ⟨-, h⟩ | ⟨-, h⟩
      · cases h
      rcases ite_cases h with ⟨-, h⟩ | ⟨-, h⟩
      · cases h
      rcases ite_cases h with ⟨-, h⟩ | ⟨-, h⟩
      · cases h
      rcases ite_cases h with ⟨-, h⟩ | ⟨-, h⟩
      · rcases ite_cases h with ⟨-, h⟩ | ⟨-, h⟩
        · cases h
        rcases ite_cases h with ⟨h3, h⟩ | ⟨-, h⟩
        · simp only [Bool.and_eq_true, beq_iff_eq] at h3
          rcases hv : Position.sqAt (fileI m.dest) (rankI m.source) with _ | v
          · rw [hv] at h3; cases h3.2
          · rw [hv] at h3
            exact ⟨v, rfl, by simpa using h3.2⟩
        · cases h
      · cases h
    · intro sd hκ
      subst hκ
      rw [pseudo_pawn p m hsrc] at h
      (repeat' split at h) <;> cases h
  · have hnd := (hk hpawn).2
    have hne := (hk hpawn).1
    by_cases hking : pc = .king
    · subst hking
      rw [King.pseudo_king p m hsrc] at h
      rcases ite_cases h with ⟨-, h⟩ | ⟨-, h⟩
      · cases h
      rcases ite_cases h with ⟨-, h⟩ | ⟨hpn, h⟩
      · cases h
      have hm : m.piece = none := by simpa using hpn
      have harr : arriving p m = some (p.turn, .king) := by unfold arriving; rw [hsrc, hm]
      refine ⟨.king, .king, hsrc, hd, harr, fun _ => rfl, fun _ => rfl, fun h => absurd h hnd,
        fun h => absurd h hne, ?_⟩
      intro sd hκ
      subst hκ
      rcases ite_cases h with ⟨-, h⟩ | ⟨-, h⟩
      · cases h
      rcases hcs : p.castleSide m with _ | sd'
      · rw [hcs] at h; cases h
      · rw [hcs] at h
        simp only at h
        rcases ite_cases h with ⟨hco, h⟩ | ⟨-, h⟩
        · cases h
          obtain ⟨h1, h2⟩ := King.castleSide_some p m sd hcs
          rw [King.kingHome_eq] at h1
          rw [King.destSq_eq] at h2
          exact ⟨rfl, (Option.some.inj h1).symm, (Option.some.inj h2).symm, hco⟩
        · cases h
    · rw [pseudo_piece p m pc hsrc ⟨hpawn, hking⟩] at h
      rcases ite_cases h with ⟨-, h⟩ | ⟨-, h⟩
      · cases h
      rcases ite_cases h with ⟨-, h⟩ | ⟨hpn, h⟩
      · cases h
      have hm : m.piece = none := by simpa using hpn
      have harr : arriving p m = some (p.turn, pc) := by unfold arriving; rw [hsrc, hm]
      refine ⟨pc, pc, hsrc, hd, harr, fun h => h, fun _ => rfl, fun h => absurd h hnd,
        fun h => absurd h hne, ?_⟩
      intro sd hκ
      subst hκ
      rcases ite_cases h with ⟨-, h⟩ | ⟨-, h⟩ <;> cases h


/-! ### the successor mailbox, square by square -/

theorem apply_dest (p : Position) (m : Move) (κ : Position.Kind) :
    (p.applyKind m κ).pieceAt m.dest = arriving p m := by
  rw [applyKind_pieceAt, if_pos (by simp)]

theorem apply_source (p : Position) (m : Move) (κ : Position.Kind) (hne : m.source ≠ m.dest) :
    (p.applyKind m κ).pieceAt m.source = none := by
  rw [applyKind_pieceAt, if_neg (by simpa using hne), if_pos (by simp)]

def epV (m : Move) (k : Position.Kind) (s : Sq) : Bool :=
  some s == (if k == .enPassant then Position.sqAt (fileI m.dest) (rankI m.source) else none)
def rookF (c : Color) (k : Position.Kind) (s : Sq) : Bool :=
  some s == (match k with | .castle sd => Position.rookHome sd c | _ => none)
def rookT (c : Color) (k : Position.Kind) (s : Sq) : Bool :=
  some s == (match k with
        | .castle .king => Position.sqAt 5 (Position.homeRank c)
        | .castle .queen => Position.sqAt 3 (Position.homeRank c)
        | _ => none)

theorem applyKind_pieceAt' (p : Position) (m : Move) (k : Position.Kind) (s : Sq) :
    (p.applyKind m k).pieceAt s =
      if s == m.dest then arriving p m
      else if s == m.source then none
      else if epV m k s then none
      else if rookF p.turn k s then none
      else if rookT p.turn k s then some (p.turn, .rook)
      else p.pieceAt s := rfl

theorem rookT_iff (c : Color) (k : Position.Kind) (s : Sq) :
    rookT c k s = true ↔ ∃ sd, k = .castle sd ∧ s = King.rTo sd c := by
  unfold rookT
  cases k with
  | castle sd =>
    have := King.rookTo_eq sd c
    cases sd <;> simp only at this ⊢ <;> rw [this] <;> simp
  | _ => simp

theorem rookF_iff (c : Color) (k : Position.Kind) (s : Sq) :
    rookF c k s = true ↔ ∃ sd, k = .castle sd ∧ s = King.rHome sd c := by
  unfold rookF
  cases k with
  | castle sd => simp [King.rookHome_eq]
  | _ => simp

theorem epV_iff (m : Move) (k : Position.Kind) (s : Sq) :
    epV m k s = true ↔ (k = .enPassant ∧ Position.sqAt (fileI m.dest) (rankI m.source) = some s) := by
  unfold epV
  by_cases hk : k = .enPassant
  · subst hk
    simp only [BEq.rfl, if_true, beq_iff_eq, true_and]
    exact ⟨fun h => h.symm, fun h => h.symm⟩
  · have : (k == Position.Kind.enPassant) = false := by simpa using hk
    rw [this]
    simp [hk]

theorem apply_cases (p : Position) (m : Move) (κ : Position.Kind) (x : Sq) :
    (x = m.dest ∧ (p.applyKind m κ).pieceAt x = arriving p m) ∨
    (x ≠ m.dest ∧ x = m.source ∧ (p.applyKind m κ).pieceAt x = none) ∨
    (x ≠ m.dest ∧ x ≠ m.source ∧ epV m κ x = true ∧ (p.applyKind m κ).pieceAt x = none) ∨
    (x ≠ m.dest ∧ x ≠ m.source ∧ epV m κ x = false ∧ rookF p.turn κ x = true ∧
      (p.applyKind m κ).pieceAt x = none) ∨
    (x ≠ m.dest ∧ x ≠ m.source ∧ epV m κ x = false ∧ rookF p.turn κ x = false ∧ rookT p.turn κ x = true ∧
      (p.applyKind m κ).pieceAt x = some (p.turn, .rook)) ∨
    (x ≠ m.dest ∧ x ≠ m.source ∧ epV m κ x = false ∧ rookF p.turn κ x = false ∧ rookT p.turn κ x = false ∧
      (p.applyKind m κ).pieceAt x = p.pieceAt x) := by
  rw [applyKind_pieceAt']
  by_cases h1 : x = m.dest
  · left; exact ⟨h1, by rw [if_pos (by simpa using h1)]⟩
  rw [if_neg (by simpa using h1)]
  by_cases h2 : x = m.source
  · right; left; exact ⟨h1, h2, by rw [if_pos (by simpa using h2)]⟩
  rw [if_neg (by simpa using h2)]
  by_cases h3 : epV m κ x = true
  · right; right; left; exact ⟨h1, h2, h3, by rw [if_pos h3]⟩
  rw [if_neg h3]
  by_cases h4 : rookF p.turn κ x = true
  · right; right; right; left; exact ⟨h1, h2, by simpa using h3, h4, by rw [if_pos h4]⟩
  rw [if_neg h4]
  by_cases h5 : rookT p.turn κ x = true
  · right; right; right; right; left
    exact ⟨h1, h2, by simpa using h3, by simpa using h4, h5, by rw [if_pos h5]⟩
  · right; right; right; right; right
    exact ⟨h1, h2, by simpa using h3, by simpa using h4, by simpa using h5, by rw [if_neg h5]⟩

theorem apply_unchanged (p : Position) (m : Move) (κ : Position.Kind) (x : Sq)
    (h1 : x ≠ m.dest) (h2 : x ≠ m.source)
    (h3 : κ = .enPassant → Position.sqAt (fileI m.dest) (rankI m.source) ≠ some x)
    (h4 : ∀ sd, κ = .castle sd → x ≠ King.rHome sd p.turn ∧ x ≠ King.rTo sd p.turn) :
    (p.applyKind m κ).pieceAt x = p.pieceAt x := by
  rw [applyKind_pieceAt', if_neg (by simpa using h1), if_neg (by simpa using h2)]
  have e3 : ¬ epV m κ x = true := by
    rw [epV_iff]; rintro ⟨a, b⟩; exact h3 a b
  have e4 : ¬ rookF p.turn κ x = true := by
    rw [rookF_iff]; rintro ⟨sd, a, b⟩; exact (h4 sd a).1 b
  have e5 : ¬ rookT p.turn κ x = true := by
    rw [rookT_iff]; rintro ⟨sd, a, b⟩; exact (h4 sd a).2 b
  rw [if_neg e3, if_neg e4, if_neg e5]

/-- nothing of the opponent's appears -/
theorem apply_opp_sub (p : Position) (m : Move) (κ : Position.Kind) (pc' : Piece)
    (harr : arriving p m = some (p.turn, pc')) (x : Sq) (pcx : Piece)
    (hx : (p.applyKind m κ).pieceAt x = some (p.turn.flip, pcx)) :
    p.pieceAt x = some (p.turn.flip, pcx) := by
  have hne := Color.flip_ne p.turn
  rcases apply_cases p m κ x with ⟨_, h⟩ | ⟨_, _, h⟩ | ⟨_, _, _, h⟩ | ⟨_, _, _, _, h⟩ | ⟨_, _, _, _, _, h⟩ |
    ⟨_, _, _, _, _, h⟩
  · rw [h, harr] at hx; exact absurd (Prod.mk.inj (Option.some.inj hx)).1.symm hne
  · rw [h] at hx; cases hx
  · rw [h] at hx; cases hx
  · rw [h] at hx; cases hx
  · rw [h] at hx; exact absurd (Prod.mk.inj (Option.some.inj hx)).1.symm hne
  · rw [← h]; exact hx

/-- an own king in the successor is the arriving king or the old one -/
theorem apply_king_sub (p : Position) (m : Move) (κ : Position.Kind) (pc' : Piece)
    (harr : arriving p m = some (p.turn, pc')) (x : Sq)
    (hx : (p.applyKind m κ).pieceAt x = some (p.turn, .king)) :
    (x = m.dest ∧ pc' = .king) ∨ (x ≠ m.dest ∧ x ≠ m.source ∧ p.pieceAt x = some (p.turn, .king)) := by
  rcases apply_cases p m κ x with ⟨h0, h⟩ | ⟨_, _, h⟩ | ⟨_, _, _, h⟩ | ⟨_, _, _, _, h⟩ | ⟨_, _, _, _, _, h⟩ |
    ⟨h1, h2, _, _, _, h⟩
  · rw [h, harr] at hx; cases hx; exact Or.inl ⟨h0, rfl⟩
  · rw [h] at hx; cases hx
  · rw [h] at hx; cases hx
  · rw [h] at hx; cases hx
  · rw [h] at hx; cases hx
  · rw [h] at hx; exact Or.inr ⟨h1, h2, hx⟩

/-! ### the facts a well-formed board adds -/

theorem rTo_mem (sd : Side) (c : Color) : King.rTo sd c ∈ King.cBetween sd c := by
  cases sd <;> cases c <;> decide

theorem castle_geo (sd : Side) (c : Color) :
    King.rHome sd c ≠ King.cDest sd c ∧ King.rHome sd c ≠ King.kHome c ∧ King.rTo sd c ≠ King.cDest sd c ∧
    King.rTo sd c ≠ King.kHome c ∧ King.rHome sd c ≠ King.rTo sd c := by
  cases sd <;> cases c <;> decide

/-- castling: king and rook are at home, the squares they move to are empty -/
theorem castle_facts (b : Board) (h : b.WF = true) (sd : Side) (hco : (abs b).castleOk sd = true) :
    (abs b).pieceAt (King.kHome b.turn) = some (b.turn, .king) ∧
    (abs b).pieceAt (King.rHome sd b.turn) = some (b.turn, .rook) ∧
    (abs b).pieceAt (King.rTo sd b.turn) = none ∧ (abs b).pieceAt (King.cDest sd b.turn) = none := by
  have hp := AbsL.wf_partition b h
  rw [King.castleOk_iff] at hco
  simp only [Bool.and_eq_true, List.all_eq_true, Bool.not_eq_true'] at hco
  obtain ⟨⟨⟨hr, hb⟩, -⟩, -⟩ := hco
  have hsq := King.castle_squares b (King.validate_castle b (AbsL.wf_validate b h)) sd b.turn hr
  rw [AbsL.get_eq b hp, AbsL.get_eq b hp] at hsq
  exact ⟨hsq.1, hsq.2, (occupied_false_iff _ _).1 (hb _ (rTo_mem sd b.turn)),
    (occupied_false_iff _ _).1 (hb _ (King.cDest_mem sd b.turn))⟩

/-- the special squares of a pseudo-legal move on a well-formed board -/
theorem succ_facts (b : Board) (h : b.WF = true) (m : Move) (κ : Position.Kind)
    (hps : (abs b).pseudo m = some κ) :
    m.source ≠ m.dest ∧
    (∀ x, rookF b.turn κ x = true → x ≠ m.dest ∧ x ≠ m.source ∧ (abs b).pieceAt x = some (b.turn, .rook) ∧
      rookT b.turn κ x = false) ∧
    (∀ x, rookT b.turn κ x = true → x ≠ m.dest ∧ x ≠ m.source ∧ (abs b).pieceAt x = none ∧
      rookF b.turn κ x = false) ∧
    (∀ x, epV m κ x = true → (abs b).pieceAt x = some (b.turn.flip, .pawn) ∧ rookF b.turn κ x = false ∧
      rookT b.turn κ x = false) := by
  obtain ⟨pc, pc', hsrc, hdo, harr, hk1, hk2, hdb, hep, hcs⟩ := pseudo_shape _ m κ hps
  have hne : m.source ≠ m.dest := by
    intro he
    unfold destOk at hdo
    rw [← he, hsrc] at hdo
    simp at hdo
  refine ⟨hne, ?_, ?_, ?_⟩
  · intro x hx
    obtain ⟨sd, hκ, rfl⟩ := (rookF_iff _ _ _).1 hx
    obtain ⟨-, hs, hd, hco⟩ := hcs sd hκ
    have hg := castle_geo sd b.turn
    have hf := castle_facts b h sd hco
    refine ⟨hd ▸ hg.1, hs ▸ hg.2.1, hf.2.1, ?_⟩
    rw [Bool.eq_false_iff]
    intro hh
    obtain ⟨sd', hκ', e⟩ := (rookT_iff _ _ _).1 hh
    rw [hκ] at hκ'; cases hκ'
    exact hg.2.2.2.2 e
  · intro x hx
    obtain ⟨sd, hκ, rfl⟩ := (rookT_iff _ _ _).1 hx
    obtain ⟨-, hs, hd, hco⟩ := hcs sd hκ
    have hg := castle_geo sd b.turn
    have hf := castle_facts b h sd hco
    refine ⟨hd ▸ hg.2.2.1, hs ▸ hg.2.2.2.1, hf.2.2.1, ?_⟩
    rw [Bool.eq_false_iff]
    intro hh
    obtain ⟨sd', hκ', e⟩ := (rookF_iff _ _ _).1 hh
    rw [hκ] at hκ'; cases hκ'
    exact hg.2.2.2.2 e.symm
  · intro x hx
    obtain ⟨hκ, hv⟩ := (epV_iff _ _ _).1 hx
    obtain ⟨-, v, hv1, hv2⟩ := hep hκ
    rw [hv] at hv1; cases hv1
    refine ⟨hv2, ?_, ?_⟩
    · rw [Bool.eq_false_iff]; intro hh
      obtain ⟨sd, hκ', -⟩ := (rookF_iff _ _ _).1 hh; rw [hκ] at hκ'; cases hκ'
    · rw [Bool.eq_false_iff]; intro hh
      obtain ⟨sd, hκ', -⟩ := (rookT_iff _ _ _).1 hh; rw [hκ] at hκ'; cases hκ'

/-- an occupied square other than source, destination, the e.p. victim and the castling rook keeps its man -/
theorem succ_unchanged' (b : Board) (h : b.WF = true) (m : Move) (κ : Position.Kind)
    (hps : (abs b).pseudo m = some κ) (x : Sq) (hd : x ≠ m.dest) (hs : x ≠ m.source)
    (hocc : (abs b).pieceAt x ≠ none) (hv : (abs b).pieceAt x ≠ some (b.turn.flip, .pawn))
    (hr : rookF b.turn κ x = false) :
    ((abs b).applyKind m κ).pieceAt x = (abs b).pieceAt x := by
  obtain ⟨-, hF, hT, hV⟩ := succ_facts b h m κ hps
  rcases apply_cases (abs b) m κ x with ⟨h0, _⟩ | ⟨_, h0, _⟩ | ⟨_, _, h0, _⟩ | ⟨_, _, _, h0, _⟩ |
    ⟨_, _, _, _, h0, _⟩ | ⟨_, _, _, _, _, h0⟩
  · exact absurd h0 hd
  · exact absurd h0 hs
  · exact absurd (hV x h0).1 hv
  · rw [show (abs b).turn = b.turn from rfl, hr] at h0; cases h0
  · exact absurd (hT x h0).2.2.1 hocc
  · exact h0

theorem succ_unchanged (b : Board) (h : b.WF = true) (m : Move) (κ : Position.Kind)
    (hps : (abs b).pseudo m = some κ) (x : Sq) (hd : x ≠ m.dest) (hs : x ≠ m.source)
    (hocc : (abs b).pieceAt x ≠ none) (hv : (abs b).pieceAt x ≠ some (b.turn.flip, .pawn))
    (hr : (abs b).pieceAt x ≠ some (b.turn, .rook)) :
    ((abs b).applyKind m κ).pieceAt x = (abs b).pieceAt x := by
  apply succ_unchanged' b h m κ hps x hd hs hocc hv
  rw [Bool.eq_false_iff]
  intro hh
  exact hr ((succ_facts b h m κ hps).2.1 x hh).2.2.1

/-! ### the kings of the successor mailbox -/

theorem succ_kings_opp (b : Board) (h : b.WF = true) (m : Move) (κ : Position.Kind)
    (hps : (abs b).pseudo m = some κ) :
    ((abs b).applyKind m κ).kings b.turn.flip = [b.kingSq b.turn.flip] := by
  have hp := AbsL.wf_partition b h
  have hk := AbsL.wf_hasKings b h
  obtain ⟨pc, pc', hsrc, hdo, harr, -⟩ := pseudo_shape _ m κ hps
  have hka := AbsL.king_at b hp hk b.turn.flip
  rw [kings_iff]
  constructor
  · rw [succ_unchanged b h m κ hps _ ?_ ?_ ?_ ?_ ?_]
    · exact hka
    · intro e; unfold destOk at hdo; rw [← e, hka] at hdo; simp at hdo
    · intro e; rw [e, hsrc] at hka
      exact Color.flip_ne _ (Prod.mk.inj (Option.some.inj hka)).1.symm
    · rw [hka]; exact fun e => by cases e
    · rw [hka]; intro e; cases (Prod.mk.inj (Option.some.inj e)).2
    · rw [hka]; intro e; cases (Prod.mk.inj (Option.some.inj e)).2
  · intro x hx
    exact AbsL.king_unique b hp hk _ x (apply_opp_sub (abs b) m κ pc' harr x .king hx)

theorem succ_kings_own (b : Board) (h : b.WF = true) (m : Move) (κ : Position.Kind)
    (hps : (abs b).pseudo m = some κ) (pc : Piece) (hsrc : (abs b).pieceAt m.source = some (b.turn, pc)) :
    ((abs b).applyKind m κ).kings b.turn = [if pc = .king then m.dest else b.kingSq b.turn] := by
  have hp := AbsL.wf_partition b h
  have hk := AbsL.wf_hasKings b h
  obtain ⟨pc0, pc', hsrc0, hdo, harr, hk1, hk2, -⟩ := pseudo_shape _ m κ hps
  have : pc0 = pc := by
    rw [hsrc] at hsrc0; exact (Prod.mk.inj (Option.some.inj hsrc0)).2.symm
  subst this
  have hka := AbsL.king_at b hp hk b.turn
  rw [kings_iff]
  by_cases hpk : pc0 = .king
  · rw [if_pos hpk]
    subst hpk
    have hsk : m.source = b.kingSq b.turn := AbsL.king_unique b hp hk _ _ hsrc
    constructor
    · rw [apply_dest, harr, hk2 (by decide)]; rfl
    · intro x hx
      rcases apply_king_sub _ m κ pc' harr x hx with ⟨h0, _⟩ | ⟨_, h2, h3⟩
      · exact h0
      · exact absurd ((AbsL.king_unique b hp hk _ x h3).trans hsk.symm) h2
  · rw [if_neg hpk]
    constructor
    · rw [succ_unchanged b h m κ hps _ ?_ ?_ ?_ ?_ ?_]
      · exact hka
      · exact (destOk_ne_king _ _ _ _ hdo hka).symm
      · intro e; rw [e, hsrc] at hka
        exact hpk (Prod.mk.inj (Option.some.inj hka)).2
      · rw [hka]; exact fun e => by cases e
      · rw [hka]; intro e
        exact Color.flip_ne _ (Prod.mk.inj (Option.some.inj e)).1.symm
      · rw [hka]; intro e; cases (Prod.mk.inj (Option.some.inj e)).2
    · intro x hx
      rcases apply_king_sub _ m κ pc' harr x hx with ⟨_, h1⟩ | ⟨_, _, h3⟩
      · exact absurd (hk1 h1) hpk
      · exact AbsL.king_unique b hp hk _ x h3

/-! ### from the mailbox back to the bitboards -/

theorem count_king_color (b : Board) (hp : b.raw.partitionOk = true) (c : Color) :
    BB.count (b.raw.king &&& b.raw.color c) = ((abs b).kings c).length := by
  rw [BB.count_eq_length_toList, BB.toList, Position.kings]
  congr 1
  apply List.filter_congr
  intro x _
  have := AbsL.mem_piece_color b hp x c .king
  rw [show b.raw.king = b.raw.piece .king from rfl, this, Bool.eq_iff_iff]
  simp

/-- exactly one king of either colour on the mailbox: `has_kings` -/
theorem hasKings_of_kings (b : Board) (hp : b.raw.partitionOk = true) (kw kb : Sq)
    (hw : (abs b).kings .white = [kw]) (hb : (abs b).kings .black = [kb]) : b.raw.hasKings = true := by
  have h1 := count_king_color b hp .white
  have h2 := count_king_color b hp .black
  rw [hw] at h1; rw [hb] at h2
  have h3 : BB.count (b.raw.king &&& b.raw.white) + BB.count (b.raw.king &&& b.raw.black) = BB.count b.raw.king := by
    simp only [Entries.count_eq_countP]
    apply Entries.countP_add_of_pointwise
    intro s
    simp only [BB.mem_and']
    have e1 := AbsL.mem_piece b hp s .king
    have e2 := AbsL.mem_color b hp s .white
    have e3 := AbsL.mem_color b hp s .black
    rw [show b.raw.piece .king = b.raw.king from rfl] at e1
    rw [show b.raw.color .white = b.raw.white from rfl] at e2
    rw [show b.raw.color .black = b.raw.black from rfl] at e3
    rw [e1, e2, e3, Position.colorAt]
    rcases (abs b).pieceAt s with _ | ⟨c', p'⟩
    · rfl
    · cases c' <;> cases p' <;> rfl
  change BB.count (b.raw.king &&& b.raw.white) = 1 at h1
  change BB.count (b.raw.king &&& b.raw.black) = 1 at h2
  unfold RawBoard.hasKings
  rw [h1, h2, ← h3, h1, h2]
  rfl

theorem count_color (b : Board) (hp : b.raw.partitionOk = true) (c : Color) :
    BB.count (b.raw.color c) = (List.finRange 64).countP (fun s => (abs b).colorAt s == some c) := by
  rw [Entries.count_eq_countP]
  congr 1
  funext s
  exact AbsL.mem_color b hp s c

theorem countP_balance {α} (a1 a2 a3 b1 b2 b3 : α → Bool) (l : List α)
    (h : ∀ x, (if a1 x = true then 1 else 0) + (if a2 x = true then 1 else 0) + (if a3 x = true then 1 else 0) =
      (if b1 x = true then 1 else 0) + (if b2 x = true then 1 else 0) + (if b3 x = true then 1 else 0)) :
    l.countP a1 + l.countP a2 + l.countP a3 = l.countP b1 + l.countP b2 + l.countP b3 := by
  induction l with
  | nil => rfl
  | cons a l ih =>
    simp only [List.countP_cons]
    have := h a
    omega

theorem countP_eq_sq (t : Sq) : (List.finRange 64).countP (fun s => s == t) = 1 := by
  rw [List.countP_eq_length_filter,
    (filter_finRange_eq_singleton _ t).2 ⟨by simp, fun x hx => by simpa using hx⟩]
  rfl

theorem countP_rook (c : Color) (κ : Position.Kind) :
    (List.finRange 64).countP (rookF c κ) = (List.finRange 64).countP (rookT c κ) := by
  cases κ with
  | castle sd =>
    rw [List.countP_congr (q := fun s => s == King.rHome sd c) (fun x _ => by rw [rookF_iff]; simp),
      List.countP_congr (p := rookT c (.castle sd)) (q := fun s => s == King.rTo sd c)
        (fun x _ => by rw [rookT_iff]; simp),
      countP_eq_sq, countP_eq_sq]
  | _ =>
    rw [List.countP_eq_zero.2 (fun x _ hh => by obtain ⟨sd, e, -⟩ := (rookF_iff _ _ _).1 hh; cases e),
      List.countP_eq_zero.2 (fun x _ hh => by obtain ⟨sd, e, -⟩ := (rookT_iff _ _ _).1 hh; cases e)]

theorem destOk_not_own (p : Position) (c : Color) (d : Sq) (h : destOk p c d = true) :
    (p.colorAt d == some c) = false := by
  unfold destOk at h
  unfold Position.colorAt
  rcases hpd : p.pieceAt d with _ | ⟨c', pc⟩
  · rfl
  · rw [hpd] at h
    simp only [Bool.and_eq_true, bne_iff_ne] at h
    simpa using h.1

/-- the mover keeps the number of its men -/
theorem succ_count_own (b : Board) (h : b.WF = true) (m : Move) (κ : Position.Kind)
    (hps : (abs b).pseudo m = some κ) :
    (List.finRange 64).countP (fun s => ((abs b).applyKind m κ).colorAt s == some b.turn) =
      (List.finRange 64).countP (fun s => (abs b).colorAt s == some b.turn) := by
  obtain ⟨pc, pc', hsrc, hdo, harr, -⟩ := pseudo_shape _ m κ hps
  obtain ⟨hne, hF, hT, hV⟩ := succ_facts b h m κ hps
  have hbal := countP_balance (fun s => ((abs b).applyKind m κ).colorAt s == some b.turn)
    (fun s => s == m.source) (rookF b.turn κ) (fun s => (abs b).colorAt s == some b.turn)
    (fun s => s == m.dest) (rookT b.turn κ) (List.finRange 64) ?_
  · rw [countP_eq_sq, countP_eq_sq, countP_rook] at hbal
    omega
  intro x
  have hsrc : (abs b).pieceAt m.source = some (b.turn, pc) := hsrc
  have hdo : destOk (abs b) b.turn m.dest = true := hdo
  have harr : arriving (abs b) m = some (b.turn, pc') := harr
  have hFf : ∀ y, (y = m.dest ∨ y = m.source) → rookF b.turn κ y = false := by
    intro y hy
    rw [Bool.eq_false_iff]; intro hh
    rcases hy with e | e
    · exact (hF y hh).1 e
    · exact (hF y hh).2.1 e
  have hTf : ∀ y, (y = m.dest ∨ y = m.source) → rookT b.turn κ y = false := by
    intro y hy
    rw [Bool.eq_false_iff]; intro hh
    rcases hy with e | e
    · exact (hT y hh).1 e
    · exact (hT y hh).2.1 e
  have hcol : ∀ (P : Position) y c' pcy, P.pieceAt y = some (c', pcy) → (P.colorAt y == some b.turn) = (c' == b.turn) := by
    intro P y c' pcy e
    unfold Position.colorAt
    rw [e]
    cases c' <;> cases b.turn <;> rfl
  have hcoln : ∀ (P : Position) y, P.pieceAt y = none → (P.colorAt y == some b.turn) = false := by
    intro P y e
    unfold Position.colorAt
    rw [e]; rfl
  have hcases := apply_cases (abs b) m κ x
  rw [show (abs b).turn = b.turn from rfl] at hcases
  rcases hcases with ⟨h0, hq⟩ | ⟨h1, h0, hq⟩ | ⟨h1, h2, h0, hq⟩ | ⟨h1, h2, _, h0, hq⟩ |
    ⟨h1, h2, _, h4, h0, hq⟩ | ⟨h1, h2, _, h4, h5, hq⟩
  · subst h0
    rw [hcol _ _ _ _ (hq.trans harr), hFf _ (Or.inl rfl), hTf _ (Or.inl rfl), destOk_not_own _ _ _ hdo]
    have : (m.dest == m.source) = false := by simpa using Ne.symm hne
    rw [this]
    simp
  · subst h0
    rw [hcoln _ _ hq, hFf _ (Or.inr rfl), hTf _ (Or.inr rfl), hcol _ _ _ _ hsrc]
    have : (m.source == m.dest) = false := by simpa using hne
    rw [this]
    simp
  · have e1 : (x == m.source) = false := by simpa using h2
    have e2 : (x == m.dest) = false := by simpa using h1
    rw [hcoln _ _ hq, (hV x h0).2.1, (hV x h0).2.2, hcol _ _ _ _ (hV x h0).1, e1, e2]
    have : (b.turn.flip == b.turn) = false := by simpa using Color.flip_ne b.turn
    rw [this]
  · have e1 : (x == m.source) = false := by simpa using h2
    have e2 : (x == m.dest) = false := by simpa using h1
    rw [hcoln _ _ hq, h0, (hF x h0).2.2.2, hcol _ _ _ _ (hF x h0).2.2.1, e1, e2]
    simp
  · have e1 : (x == m.source) = false := by simpa using h2
    have e2 : (x == m.dest) = false := by simpa using h1
    rw [hcol _ _ _ _ hq, h0, h4, hcoln _ _ (hT x h0).2.2.1, e1, e2]
    simp
  · have e1 : (x == m.source) = false := by simpa using h2
    have e2 : (x == m.dest) = false := by simpa using h1
    have : (((abs b).applyKind m κ).colorAt x == some b.turn) = ((abs b).colorAt x == some b.turn) := by
      unfold Position.colorAt; rw [hq]
    rw [this, h4, h5, e1, e2]

/-- the opponent's men do not become more -/
theorem succ_count_opp (b : Board) (m : Move) (κ : Position.Kind)
    (hps : (abs b).pseudo m = some κ) :
    (List.finRange 64).countP (fun s => ((abs b).applyKind m κ).colorAt s == some b.turn.flip) ≤
      (List.finRange 64).countP (fun s => (abs b).colorAt s == some b.turn.flip) := by
  obtain ⟨pc, pc', hsrc, hdo, harr, -⟩ := pseudo_shape _ m κ hps
  apply List.countP_mono_left
  intro x _ hx
  unfold Position.colorAt at hx
  rcases hq : ((abs b).applyKind m κ).pieceAt x with _ | ⟨c', pcx⟩
  · rw [hq] at hx; cases hx
  · rw [hq] at hx
    have : c' = b.turn.flip := by simpa using hx
    subst this
    have := apply_opp_sub (abs b) m κ pc' harr x pcx hq
    unfold Position.colorAt
    rw [this]
    show (some b.turn.flip == some b.turn.flip) = true
    exact beq_self_eq_true _

/-! ### the clauses of `validate` on the successor -/

theorem legal_pseudo (p : Position) (m : Move) (hl : p.legal m = true) :
    ∃ κ, p.pseudo m = some κ ∧ (p.applyKind m κ).inCheck p.turn = false := by
  unfold Position.legal at hl
  rcases hps : p.pseudo m with _ | κ
  · rw [hps] at hl; cases hl
  · rw [hps] at hl; exact ⟨κ, rfl, by simpa using hl⟩

theorem succ_abs_pieceAt (b : Board) (h : b.WF = true) (m : Move) (κ : Position.Kind)
    (hps : (abs b).pseudo m = some κ) :
    (abs (b.moveUnchecked m)).pieceAt = ((abs b).applyKind m κ).pieceAt :=
  funext (move_placement b h m κ hps)

theorem kings_congr (p q : Position) (h : p.pieceAt = q.pieceAt) (c : Color) : p.kings c = q.kings c := by
  unfold Position.kings; rw [h]

theorem colorAt_congr (p q : Position) (h : p.pieceAt = q.pieceAt) : p.colorAt = q.colorAt := by
  funext s; unfold Position.colorAt; rw [h]

theorem move_hasKings_of_pseudo (b : Board) (h : b.WF = true) (m : Move) (κ : Position.Kind)
    (hps : (abs b).pseudo m = some κ) : (b.moveUnchecked m).raw.hasKings = true := by
  have hp' := move_partition b h m κ hps
  have hpl := succ_abs_pieceAt b h m κ hps
  obtain ⟨pc, -, hsrc, -⟩ := pseudo_shape _ m κ hps
  have hown := succ_kings_own b h m κ hps pc hsrc
  have hopp := succ_kings_opp b h m κ hps
  rw [← kings_congr _ _ hpl] at hown hopp
  rcases hc : b.turn with _ | _ <;> rw [hc] at hown hopp
  · exact hasKings_of_kings _ hp' _ _ hown hopp
  · exact hasKings_of_kings _ hp' _ _ hopp hown

theorem move_hasKings (b : Board) (h : b.WF = true) (m : Move) (hl : (abs b).legal m = true) :
    (b.moveUnchecked m).raw.hasKings = true := by
  obtain ⟨κ, hps, -⟩ := legal_pseudo _ m hl
  exact move_hasKings_of_pseudo b h m κ hps

theorem move_counts_of_pseudo (b : Board) (h : b.WF = true) (m : Move) (κ : Position.Kind)
    (hps : (abs b).pseudo m = some κ) (c : Color) : BB.count ((b.moveUnchecked m).raw.color c) ≤ 16 := by
  have hp := AbsL.wf_partition b h
  have hp' := move_partition b h m κ hps
  have hpl := succ_abs_pieceAt b h m κ hps
  have hold : ∀ c, BB.count (b.raw.color c) ≤ 16 := by
    intro c; cases c
    · exact (AbsL.wf_counts b h).1
    · exact (AbsL.wf_counts b h).2
  rw [count_color _ hp', colorAt_congr _ _ hpl]
  by_cases hc : c = b.turn
  · subst hc
    rw [succ_count_own b h m κ hps, ← count_color b hp]
    exact hold _
  · have hc' : c = b.turn.flip := King.color_ne_flip _ _ hc
    subst hc'
    have := succ_count_opp b m κ hps
    rw [← count_color b hp] at this
    exact Nat.le_trans this (hold _)

theorem move_counts (b : Board) (h : b.WF = true) (m : Move) (hl : (abs b).legal m = true) :
    BB.count (b.moveUnchecked m).raw.white ≤ 16 ∧ BB.count (b.moveUnchecked m).raw.black ≤ 16 := by
  obtain ⟨κ, hps, -⟩ := legal_pseudo _ m hl
  exact ⟨move_counts_of_pseudo b h m κ hps .white, move_counts_of_pseudo b h m κ hps .black⟩

theorem destOk_ne_own (p : Position) (c : Color) (d x : Sq) (pcx : Piece) (hd : destOk p c d = true)
    (hx : p.pieceAt x = some (c, pcx)) : x ≠ d := by
  intro e
  subst e
  unfold destOk at hd
  rw [hx] at hd
  simp at hd

theorem destOk_ne_king' (p : Position) (c c' : Color) (d x : Sq) (hd : destOk p c d = true)
    (hx : p.pieceAt x = some (c', .king)) : x ≠ d := by
  intro e
  subst e
  unfold destOk at hd
  rw [hx] at hd
  simp at hd

/-- a castling right of the successor: king and rook stand at home -/
theorem succ_castle (b : Board) (h : b.WF = true) (m : Move) (κ : Position.Kind)
    (hps : (abs b).pseudo m = some κ) (sd : Side) (col : Color)
    (hr : ((abs b).applyKind m κ).rights sd col = true) :
    ((abs b).applyKind m κ).pieceAt (King.kHome col) = some (col, .king) ∧
    ((abs b).applyKind m κ).pieceAt (King.rHome sd col) = some (col, .rook) := by
  have hp := AbsL.wf_partition b h
  obtain ⟨pc, pc', hsrc, hdo, harr, hk1, hk2, hdb, hep, hcs⟩ := pseudo_shape _ m κ hps
  have hsrc : (abs b).pieceAt m.source = some (b.turn, pc) := hsrc
  have hdo : destOk (abs b) b.turn m.dest = true := hdo
  have hr' : (Castle.contains b.castle sd col &&
      (if col == b.turn then
        !(some m.source == Position.kingHome b.turn) && !(some m.source == Position.rookHome sd b.turn)
       else !(some m.dest == Position.rookHome sd col))) = true := hr
  rw [King.kingHome_eq, King.rookHome_eq, King.rookHome_eq, Bool.and_eq_true] at hr'
  obtain ⟨hcon, hcond⟩ := hr'
  obtain ⟨hK, hR⟩ := King.castle_squares b (King.validate_castle b (AbsL.wf_validate b h)) sd col hcon
  rw [AbsL.get_eq b hp] at hK hR
  by_cases hc : col = b.turn
  · subst hc
    simp only [BEq.rfl, if_true, Bool.and_eq_true, Bool.not_eq_true', beq_eq_false_iff_ne, ne_eq,
      Option.some.injEq] at hcond
    obtain ⟨hs1, hs2⟩ := hcond
    have hF : ∀ x, rookF b.turn κ x = false := by
      intro x
      rw [Bool.eq_false_iff]; intro hh
      obtain ⟨sd', hκ, -⟩ := (rookF_iff _ _ _).1 hh
      exact hs1 (hcs sd' hκ).2.1
    constructor
    · rw [succ_unchanged' b h m κ hps _ (destOk_ne_own _ _ _ _ _ hdo hK) (Ne.symm hs1) ?_ ?_ (hF _)]
      · exact hK
      · rw [hK]; exact fun e => by cases e
      · rw [hK]; intro e; cases (Prod.mk.inj (Option.some.inj e)).2
    · rw [succ_unchanged' b h m κ hps _ (destOk_ne_own _ _ _ _ _ hdo hR) (Ne.symm hs2) ?_ ?_ (hF _)]
      · exact hR
      · rw [hR]; exact fun e => by cases e
      · rw [hR]; intro e; cases (Prod.mk.inj (Option.some.inj e)).2
  · have hcb : (col == b.turn) = false := by simpa using hc
    rw [hcb] at hcond
    simp only [Bool.false_eq_true, if_false, Bool.not_eq_true', beq_eq_false_iff_ne, ne_eq,
      Option.some.injEq] at hcond
    have hsc : ∀ x pcx, (abs b).pieceAt x = some (col, pcx) → x ≠ m.source := by
      intro x pcx hx e
      rw [e, hsrc] at hx
      exact hc (Prod.mk.inj (Option.some.inj hx)).1.symm
    have hnr : ∀ x pcx, (abs b).pieceAt x = some (col, pcx) → (abs b).pieceAt x ≠ some (b.turn, .rook) := by
      intro x pcx hx e
      rw [hx] at e
      exact hc (Prod.mk.inj (Option.some.inj e)).1
    constructor
    · rw [succ_unchanged b h m κ hps _ (destOk_ne_king' _ _ _ _ _ hdo hK) (hsc _ _ hK) ?_ ?_ (hnr _ _ hK)]
      · exact hK
      · rw [hK]; exact fun e => by cases e
      · rw [hK]; intro e; cases (Prod.mk.inj (Option.some.inj e)).2
    · rw [succ_unchanged b h m κ hps _ (Ne.symm hcond) (hsc _ _ hR) ?_ ?_ (hnr _ _ hR)]
      · exact hR
      · rw [hR]; exact fun e => by cases e
      · rw [hR]; intro e; cases (Prod.mk.inj (Option.some.inj e)).2

theorem validateCastle_of (b' : Board)
    (H : ∀ sd col, Castle.contains b'.castle sd col = true →
      b'.raw.get (King.kHome col) = some (col, .king) ∧ b'.raw.get (King.rHome sd col) = some (col, .rook)) :
    b'.validateCastleRights = .ok () := by
  have h1 := H .queen .white
  have h2 := H .king .white
  have h3 := H .king .black
  have h4 := H .queen .black
  simp only [King.kHome, King.rHome] at h1 h2 h3 h4
  unfold Board.validateCastleRights
  simp only [Castle.containsColor]
  rcases Bool.eq_false_or_eq_true (Castle.contains b'.castle .queen .white) with hc1 | hc1 <;>
  rcases Bool.eq_false_or_eq_true (Castle.contains b'.castle .king .white) with hc2 | hc2 <;>
  rcases Bool.eq_false_or_eq_true (Castle.contains b'.castle .king .black) with hc3 | hc3 <;>
  rcases Bool.eq_false_or_eq_true (Castle.contains b'.castle .queen .black) with hc4 | hc4 <;>
  simp_all

theorem move_castle_ok (b : Board) (h : b.WF = true) (m : Move) (κ : Position.Kind)
    (hps : (abs b).pseudo m = some κ) : (b.moveUnchecked m).validateCastleRights = .ok () := by
  have hp' := move_partition b h m κ hps
  have hpl := succ_abs_pieceAt b h m κ hps
  apply validateCastle_of
  intro sd col hc
  rw [move_rights b h m κ hps] at hc
  rw [AbsL.get_eq _ hp', AbsL.get_eq _ hp', hpl]
  exact succ_castle b h m κ hps sd col hc

theorem move_ep_ok (b : Board) (h : b.WF = true) (m : Move) (κ : Position.Kind)
    (hps : (abs b).pseudo m = some κ) : (b.moveUnchecked m).validateEnPassant = .ok () := by
  have hp' := move_partition b h m κ hps
  have hpl := succ_abs_pieceAt b h m κ hps
  obtain ⟨pc, pc', hsrc, hdo, harr, hk1, hk2, hdb, hep, hcs⟩ := pseudo_shape _ m κ hps
  obtain ⟨hne, -⟩ := succ_facts b h m κ hps
  have hepq : (b.moveUnchecked m).ep = if κ == .double then some m.dest.file else none :=
    move_ep_spec b h m κ hps
  unfold Board.validateEnPassant
  rw [hepq]
  by_cases hκ : κ = .double
  · subst hκ
    obtain ⟨-, hpc', hst, hr, ⟨o, ho, hoe⟩, hde⟩ := hdb rfl
    simp only [BEq.rfl, if_true]
    rw [AbsL.get_eq _ hp', AbsL.get_eq _ hp', hpl, Props.C02.move_turn]
    have hd2 := (RaysAux.step_eq_some _ _ _ _).1 hst.symm
    have ho2 := (RaysAux.step_eq_some _ _ _ _).1 ho
    have hfile : ((m.dest.file).val : Int) = fileI m.dest := rfl
    have hr : rankI m.source = Position.secondRank b.turn := hr
    have hd2 : fileI m.dest = fileI m.source + 0 ∧ rankI m.dest = rankI m.source + 2 * fwd b.turn := hd2
    have ho2 : fileI o = fileI m.source + 0 ∧ rankI o = rankI m.source + fwd b.turn := ho2
    have hmid : Sq.mk m.dest.file b.turn.flip.epCaptureRank = o := by
      rw [RaysAux.sq_eq_iff, PawnAux.fileI_mk, PawnAux.rankI_mk, hfile]
      revert hd2 ho2 hr
      cases b.turn <;> simp only [Color.flip, Color.epCaptureRank, fwd, Position.secondRank] <;>
        intros <;> constructor <;> first | trivial | omega | (show ((_ : Nat) : Int) = _; omega)
    have hdst : Sq.mk m.dest.file b.turn.flip.epPawnRank = m.dest := by
      rw [RaysAux.sq_eq_iff, PawnAux.fileI_mk, PawnAux.rankI_mk, hfile]
      revert hd2 ho2 hr
      cases b.turn <;> simp only [Color.flip, Color.epPawnRank, fwd, Position.secondRank] <;>
        intros <;> constructor <;> first | trivial | omega | (show ((_ : Nat) : Int) = _; omega)
    rw [hmid, hdst, apply_dest, harr, hpc']
    have hoq : ((abs b).applyKind m .double).pieceAt o = none := by
      rw [apply_unchanged _ _ _ o ?_ ?_ (fun e => by cases e) (fun sd e => by cases e)]
      · exact (occupied_false_iff _ _).1 hoe
      · intro e; rw [RaysAux.sq_eq_iff] at e
        revert e hd2 ho2; cases b.turn <;> simp only [fwd] <;> omega
      · intro e; rw [RaysAux.sq_eq_iff] at e
        revert e hd2 ho2; cases b.turn <;> simp only [fwd] <;> omega
    rw [hoq]
    have : ¬ (abs b).turn = b.turn.flip := fun e => Color.flip_ne _ e.symm
    simp [this]
  · have : (κ == Position.Kind.double) = false := by simpa using hκ
    rw [this]
    rfl

/-- **the successor validates** -/
theorem move_validate (b : Board) (h : b.WF = true) (m : Move) (hl : (abs b).legal m = true) :
    (b.moveUnchecked m).validate = .ok () := by
  obtain ⟨κ, hps, hnc⟩ := legal_pseudo _ m hl
  have hp' := move_partition b h m κ hps
  have hpl := succ_abs_pieceAt b h m κ hps
  have hk' := move_hasKings b h m hl
  have hcnt := move_counts b h m hl
  obtain ⟨pc, -, hsrc, -⟩ := pseudo_shape _ m κ hps
  have hown := succ_kings_own b h m κ hps pc hsrc
  have hopp : (b.moveUnchecked m).validateOpponentNotInCheck = .ok () := by
    rw [validateOpp_iff _ hp' hk', Props.C02.move_turn, Color.flip_flip]
    have hkq : (abs (b.moveUnchecked m)).kings b.turn = [(b.moveUnchecked m).kingSq b.turn] :=
      AbsL.kings_eq _ hp' hk' b.turn
    rw [kings_congr _ _ hpl, hown] at hkq
    have hkq' := List.head_eq_of_cons_eq hkq
    rw [← hkq', attacked_congr _ _ hpl, ← inCheck_single _ _ _ hown]
    exact hnc
  unfold Board.validate
  rw [hk', move_ep_ok b h m κ hps, move_castle_ok b h m κ hps]
  have : (decide (BB.count (b.moveUnchecked m).raw.white > 16) || decide (BB.count (b.moveUnchecked m).raw.black > 16)) = false := by
    simp only [Bool.or_eq_false_iff, decide_eq_false_iff_not]
    omega
  simp only [Bool.not_true, Bool.false_eq_true, if_false, this]
  exact hopp

end Chess.Legal
