/-
C01, pawns: the entries `Pawn::legals` pushes (pushes, captures, promotion flag, en passant after
the `fix:` commit) denote exactly the legal pawn moves.
-/
import ChessVerif.Proofs.Legal.Generic

namespace Chess.Legal
open Chess Chess.Spec Chess.Rays

/-- the entry list `collect_moves` builds for the pawns -/
def pawnList (b : Board) : List Entry :=
  if BB.none b.checkers then b.pawnLegals false (ownMask b)
  else if BB.count b.checkers == 1 then b.pawnLegals true (ownMask b)
  else []

end Chess.Legal

/-! Auxiliary lemmas live in their own namespace so that they cannot clash with the helper lemmas of
the sibling files. -/
namespace Chess.Legal.PawnAux
open Chess Chess.Spec Chess.Rays Chess.RaysAux

theorem abs_turn (b : Board) : (abs b).turn = b.turn := rfl

theorem fileI_mk (f : File) (r : Rank) : fileI (Sq.mk f r) = (f.val : Int) := by
  have := f.isLt; have := r.isLt
  simp only [fileI, Sq.mk]; omega

theorem rankI_mk (f : File) (r : Rank) : rankI (Sq.mk f r) = (r.val : Int) := by
  have := f.isLt; have := r.isLt
  simp only [rankI, Sq.mk]; omega

theorem rank_eq_iff (s : Sq) (r : Rank) : s.rank = r ↔ rankI s = (r.val : Int) := by
  unfold Sq.rank rankI; rw [Fin.ext_iff]; simp only []; omega

theorem epCap_val (c : Color) : ((c.epCaptureRank).val : Int) = Position.epTargetRank c := by cases c <;> rfl
theorem epPawn_val (c : Color) : ((c.epPawnRank).val : Int) = Position.epTargetRank c - fwd c := by cases c <;> rfl

theorem sqAt_exists (a c : Sq) : ∃ v, Position.sqAt (fileI a) (rankI c) = some v := by
  have := fileI_bounds a; have := rankI_bounds c
  unfold Position.sqAt
  rw [if_pos (by omega)]
  have hlt : (rankI c).toNat * 8 + (fileI a).toNat < 64 := by omega
  exact ⟨⟨_, hlt⟩, by simp [Sq.ofNat?, hlt]⟩

theorem epSquare_mk : ∀ (f : File) (c : Color),
    Position.sqAt (f.val : Int) (Position.epTargetRank c) = some (Sq.mk f c.epCaptureRank) := by
  intro f c; cases c <;> revert f <;> decide

theorem validateEnPassant_ok (b : Board) (h : b.WF = true) : b.validateEnPassant = .ok () := by
  have hv := AbsL.wf_validate b h
  unfold Board.validate at hv
  split at hv
  · cases hv
  · split at hv
    · cases hv
    · split at hv
      · cases hv
      · assumption

end Chess.Legal.PawnAux

namespace Chess.Legal
open Chess Chess.Spec Chess.Rays

/-- the e.p. marker of a well-formed board: target square empty, enemy pawn in front of it -/
theorem wf_ep (b : Board) (h : b.WF = true) (f : File) (hf : b.ep = some f) :
    (abs b).occupied (Sq.mk f b.turn.epCaptureRank) = false ∧
    (abs b).pieceAt (Sq.mk f b.turn.epPawnRank) = some (b.turn.flip, .pawn) ∧
    (abs b).epSquare = some (Sq.mk f b.turn.epCaptureRank) := by
  have hp := AbsL.wf_partition b h
  have hv := PawnAux.validateEnPassant_ok b h
  unfold Board.validateEnPassant at hv
  simp only [hf] at hv
  rw [AbsL.get_eq b hp, AbsL.get_eq b hp] at hv
  refine ⟨?_, ?_, ?_⟩
  · split at hv
    · cases hv
    · rename_i h1
      simpa [Position.occupied] using h1
  · split at hv
    · cases hv
    · split at hv
      · rename_i c' pc hg
        split at hv
        · cases hv
        · split at hv
          · cases hv
          · rename_i h2 h3
            rw [hg]
            have : pc = .pawn := Classical.not_not.1 h3
            subst this
            have : c' = b.turn.flip := by
              revert h2; cases c' <;> cases b.turn <;> simp [Color.flip]
            rw [this]
      · cases hv
  · show (match b.ep with | some f => Position.sqAt f.val (Position.epTargetRank b.turn) | none => none) = _
    rw [hf]
    exact PawnAux.epSquare_mk f b.turn

end Chess.Legal

namespace Chess.Legal.PawnAux
open Chess Chess.Spec Chess.Rays Chess.RaysAux

/-! ### entry lists -/

theorem inEntries_append (a c : List Entry) (m : Move) :
    InEntries (a ++ c) m ↔ (InEntries a m ∨ InEntries c m) := by
  unfold InEntries
  constructor
  · rintro ⟨e, he, h⟩
    rcases List.mem_append.1 he with h' | h'
    · exact Or.inl ⟨e, h', h⟩
    · exact Or.inr ⟨e, h', h⟩
  · rintro (⟨e, he, h⟩ | ⟨e, he, h⟩)
    · exact ⟨e, List.mem_append.2 (Or.inl he), h⟩
    · exact ⟨e, List.mem_append.2 (Or.inr he), h⟩

theorem inEntries_nil (m : Move) : ¬ InEntries [] m := by
  rintro ⟨e, he, _⟩
  cases he

theorem promo_all (pr : Promo) : pr ∈ MoveGen.promoPieces := by cases pr <;> decide

theorem promo_cond (flag : Bool) (x : Option Promo) :
    (if flag = true then ∃ p ∈ MoveGen.promoPieces, x = some p else x = none) ↔ x.isSome = flag := by
  cases flag <;> cases x <;> simp [promo_all]

theorem inEntries_push (srcs : List Sq) (f : Sq → BB) (promo : Sq → Bool) (m : Move) :
    InEntries (Board.pushEntries srcs f promo) m ↔
      (m.source ∈ srcs ∧ BB.mem (f m.source) m.dest = true ∧ m.piece.isSome = promo m.source) := by
  unfold InEntries
  constructor
  · rintro ⟨e, he, h1, h2, h3⟩
    obtain ⟨s, hs, _, rfl⟩ := (mem_pushEntries _ _ _ _).1 he
    simp only at h1 h2 h3
    rw [h1]
    exact ⟨hs, h2, (promo_cond _ _).1 h3⟩
  · rintro ⟨h1, h2, h3⟩
    refine ⟨⟨m.source, f m.source, promo m.source⟩,
      (mem_pushEntries _ _ _ _).2 ⟨m.source, h1, ?_, rfl⟩, rfl, h2, (promo_cond _ _).2 h3⟩
    cases hn : BB.none (f m.source) with
    | false => rfl
    | true => rw [(BB.none_iff _).1 hn] at h2; cases h2

/-- the promotion flag of the pawn entries -/
def promoF (b : Board) : Sq → Bool :=
  fun src => decide (src.rank = (match b.turn with | .white => (6 : Rank) | .black => 1))

def unpinnedL (b : Board) (ic : Bool) (mask : BB) : List Entry :=
  Board.pushEntries (BB.toList (b.raw.pawn &&& b.raw.color b.turn &&& ~~~b.pinned))
    (fun src => Board.pseudoLegals .pawn src b.turn b.raw.all mask &&& b.checkMask ic (b.kingSq b.turn)) (promoF b)

def pinnedL (b : Board) (ic : Bool) (mask : BB) : List Entry :=
  if ic then [] else
    Board.pushEntries (BB.toList (b.raw.pawn &&& b.raw.color b.turn &&& b.pinned))
      (fun src => Board.pseudoLegals .pawn src b.turn b.raw.all mask &&& Lookup.line (b.kingSq b.turn) src) (promoF b)

def epL (b : Board) (mask : BB) : List Entry :=
  match b.ep with
  | none => []
  | some f =>
    if BB.any (BB.ofSq (Sq.mk f b.turn.epCaptureRank) &&& mask) then
      (BB.toList (BB.ofRank b.turn.epPawnRank &&& Lookup.adjacentFiles f &&& (b.raw.pawn &&& b.raw.color b.turn))).filterMap fun src =>
        if b.isSafeAfterEnpassant (b.kingSq b.turn) (BB.ofSq src) (BB.ofSq (Sq.mk f b.turn.epCaptureRank))
            (BB.ofSq (Sq.mk f b.turn.epPawnRank)) then
          some ⟨src, BB.ofSq (Sq.mk f b.turn.epCaptureRank), false⟩ else none
    else []

theorem pawnLegals_eq (b : Board) (ic : Bool) (mask : BB) :
    b.pawnLegals ic mask = unpinnedL b ic mask ++ pinnedL b ic mask ++ epL b mask := rfl

theorem promoF_eq (b : Board) (s : Sq) : promoF b s = (rankI s == Position.seventhRank b.turn) := by
  unfold promoF
  rw [Bool.eq_iff_iff, decide_eq_true_eq, beq_iff_eq, rank_eq_iff]
  cases b.turn <;> exact Iff.rfl

theorem inEntries_ep (b : Board) (mask : BB) (f : File) (hf : b.ep = some f) (m : Move) :
    InEntries (epL b mask) m ↔
      (BB.any (BB.ofSq (Sq.mk f b.turn.epCaptureRank) &&& mask) = true ∧
       BB.mem (BB.ofRank b.turn.epPawnRank &&& Lookup.adjacentFiles f &&& (b.raw.pawn &&& b.raw.color b.turn)) m.source = true ∧
       b.isSafeAfterEnpassant (b.kingSq b.turn) (BB.ofSq m.source) (BB.ofSq (Sq.mk f b.turn.epCaptureRank))
            (BB.ofSq (Sq.mk f b.turn.epPawnRank)) = true ∧
       m.dest = Sq.mk f b.turn.epCaptureRank ∧ m.piece = none) := by
  unfold epL InEntries
  simp only [hf]
  by_cases hany : BB.any (BB.ofSq (Sq.mk f b.turn.epCaptureRank) &&& mask) = true
  · rw [if_pos hany]
    constructor
    · rintro ⟨e, he, h1, h2, h3⟩
      rw [List.mem_filterMap] at he
      obtain ⟨s, hs, hse⟩ := he
      split at hse
      · rename_i hsafe
        injection hse with hse
        subst hse
        simp only at h1 h2 h3
        rw [BB.mem_ofSq, beq_iff_eq] at h2
        rw [BB.mem_toList] at hs
        rw [h1]
        exact ⟨hany, hs, hsafe, h2, by simpa using h3⟩
      · cases hse
    · rintro ⟨_, hs, hsafe, hd, hp⟩
      refine ⟨⟨m.source, BB.ofSq (Sq.mk f b.turn.epCaptureRank), false⟩, ?_, rfl, ?_, ?_⟩
      · rw [List.mem_filterMap]
        exact ⟨m.source, (BB.mem_toList _ _).2 hs, by rw [if_pos hsafe]⟩
      · simp only [BB.mem_ofSq, beq_iff_eq]; exact hd
      · simpa using hp
  · rw [if_neg hany]
    constructor
    · rintro ⟨e, he, _⟩; cases he
    · rintro ⟨h, _⟩; exact absurd h hany

theorem inEntries_ep_none (b : Board) (mask : BB) (hf : b.ep = none) (m : Move) :
    ¬ InEntries (epL b mask) m := by
  unfold epL
  simp only [hf]
  exact inEntries_nil m

/-! ### normal pawn moves -/

/-- the three kinds of non-e.p. pawn move, as in `legal_pawn_normal_iff` -/
def NormalMove (p : Position) (c : Color) (s d : Sq) : Prop :=
  (some d = step s 0 (fwd c) ∧ p.occupied d = false) ∨
  (rankI s = Position.secondRank c ∧ some d = step s 0 (2 * fwd c) ∧
    (match step s 0 (fwd c) with | some o => p.occupied o = false | none => False) ∧
    p.occupied d = false) ∨
  (pawnAtt c s d = true ∧ p.occupied d = true)

theorem some_eq_step (s t : Sq) (df dr : Int) :
    some t = step s df dr ↔ (fileI t = fileI s + df ∧ rankI t = rankI s + dr) := by
  rw [eq_comm]; exact step_eq_some s t df dr

theorem pushTbl_iff (c : Color) (s t : Sq) :
    pawnPushTbl c s t = true ↔
      (some t = step s 0 (fwd c) ∨ (rankI s = Position.secondRank c ∧ some t = step s 0 (2 * fwd c))) := by
  rw [some_eq_step, some_eq_step]
  cases c <;>
    simp only [pawnPushTbl, dF, dR, fwd, Position.secondRank, Bool.and_eq_true, Bool.or_eq_true, beq_iff_eq] <;>
    omega

theorem quiet_iff (b : Board) (hp : b.raw.partitionOk = true) (c : Color) (s d : Sq) :
    Props.C09.quietRes (Props.C09.front c s) (pawnPushTbl c s) b.raw.all d = true ↔
      ((some d = step s 0 (fwd c) ∧ (abs b).occupied d = false) ∨
       (rankI s = Position.secondRank c ∧ some d = step s 0 (2 * fwd c) ∧
        (match step s 0 (fwd c) with | some o => (abs b).occupied o = false | none => False) ∧
        (abs b).occupied d = false)) := by
  have hpt := pushTbl_iff c s d
  unfold Props.C09.quietRes Props.C09.front
  cases hst : step s 0 (fwd c) with
  | none =>
    rw [hst] at hpt
    simp
  | some u =>
    rw [hst] at hpt
    simp only [Bool.and_eq_true, Bool.not_eq_true', ← AbsL.occupied_iff b hp, hpt]
    constructor
    · rintro ⟨⟨hu, h | ⟨hr, h2⟩⟩, hd⟩
      · exact Or.inl ⟨h, hd⟩
      · exact Or.inr ⟨hr, h2, hu, hd⟩
    · rintro (⟨h, hd⟩ | ⟨hr, h2, hu, hd⟩)
      · injection h with h
        subst h
        exact ⟨⟨hd, Or.inl rfl⟩, hd⟩
      · exact ⟨⟨hu, Or.inr ⟨hr, h2⟩⟩, hd⟩

theorem mem_pseudo_pawn_iff (b : Board) (hp : b.raw.partitionOk = true) (s d : Sq) (mask : BB) :
    BB.mem (Board.pseudoLegals .pawn s b.turn b.raw.all mask) d = true ↔
      (NormalMove (abs b) b.turn s d ∧ BB.mem mask d = true) := by
  rw [AbsL.mem_pseudo_pawn, Bool.and_eq_true, Bool.or_eq_true, Bool.and_eq_true, ← AbsL.occupied_iff b hp,
    quiet_iff b hp]
  unfold NormalMove
  constructor
  · rintro ⟨(h | h) | h, hm⟩
    · exact ⟨Or.inl h, hm⟩
    · exact ⟨Or.inr (Or.inl h), hm⟩
    · exact ⟨Or.inr (Or.inr h), hm⟩
  · rintro ⟨h | h | h, hm⟩
    · exact ⟨Or.inl (Or.inl h), hm⟩
    · exact ⟨Or.inl (Or.inr h), hm⟩
    · exact ⟨Or.inr h, hm⟩

/-- a normal move is not of en-passant shape -/
theorem normal_not_ep {p : Position} {c : Color} {s d : Sq} (hn : NormalMove p c s d) :
    ¬ (pawnAtt c s d = true ∧ p.occupied d = false) := by
  rintro ⟨ha, ho⟩
  simp only [pawnAtt, absI, dF, dR, Bool.and_eq_true, beq_iff_eq] at ha
  rcases hn with ⟨h, _⟩ | ⟨_, h, _⟩ | ⟨_, h⟩
  · have := (some_eq_step _ _ _ _).1 h
    have := ha.2
    split at this <;> omega
  · have := (some_eq_step _ _ _ _).1 h
    have := ha.2
    split at this <;> omega
  · rw [ho] at h; cases h

theorem destOk_normal (b : Board) (h : b.WF = true) (s d : Sq)
    (hs : (abs b).pieceAt s = some (b.turn, .pawn)) (hn : NormalMove (abs b) b.turn s d) :
    destOk (abs b) b.turn d = !((abs b).colorAt d == some b.turn) := by
  have hpush : (abs b).occupied d = false → destOk (abs b) b.turn d = !((abs b).colorAt d == some b.turn) := by
    intro ho
    have := (occupied_false_iff _ _).1 ho
    simp only [destOk, Position.colorAt, this]
    rfl
  rcases hn with ⟨_, ho⟩ | ⟨_, _, _, ho⟩ | ⟨ha, _⟩
  · exact hpush ho
  · exact hpush ho
  · exact destOk_of_attacks b h s d .pawn hs ha

/-- the hypothesis shape of `line_iff_pawn` -/
theorem normal_line_shape {p : Position} {c : Color} {s d : Sq} (hn : NormalMove p c s d) :
    (some d = step s 0 (fwd c) ∧ p.occupied d = false) ∨
    (some d = step s 0 (2 * fwd c) ∧ p.occupied d = false ∧
      (match step s 0 (fwd c) with | some o => p.occupied o = false | none => False)) ∨
    (pawnAtt c s d = true ∧ p.occupied d = true) := by
  rcases hn with h | ⟨_, h1, h2, h3⟩ | h
  · exact Or.inl h
  · exact Or.inr (Or.inl ⟨h1, h3, h2⟩)
  · exact Or.inr (Or.inr h)

/-! ### king safety after a normal pawn move -/

/-- the king of the side to move is not attacked after moving `s → d` with `mv` arriving -/
def SafeAfter (b : Board) (s d : Sq) (mv : Option (Color × Piece)) : Prop :=
  ∀ q : Position, q.pieceAt = moveAt (abs b).pieceAt s d mv →
    q.attacked (b.kingSq b.turn) b.turn.flip = false

/-- a position with a given mailbox -/
def posOf (mb : Sq → Option (Color × Piece)) : Position :=
  { pieceAt := mb, turn := .white, rights := fun _ _ => false, ep := none, half := 0, full := 0 }

theorem forall_pos_iff (mb : Sq → Option (Color × Piece)) (k : Sq) (c : Color) (P : Prop)
    (h : ∀ q : Position, q.pieceAt = mb → (q.attacked k c = false ↔ P)) :
    (∀ q : Position, q.pieceAt = mb → q.attacked k c = false) ↔ P := by
  constructor
  · intro hall
    exact (h (posOf mb) rfl).1 (hall (posOf mb) rfl)
  · intro hP q hq
    exact (h q hq).2 hP

theorem arriving_of_pawn (p : Position) (m : Move) (c : Color)
    (hs : p.pieceAt m.source = some (c, .pawn)) : ∃ pc', arriving p m = some (c, pc') := by
  unfold arriving
  rw [hs]
  cases m.piece <;> exact ⟨_, rfl⟩

theorem dest_ne_king (b : Board) (h : b.WF = true) (d : Sq) (hd : (abs b).colorAt d ≠ some b.turn) :
    d ≠ b.kingSq b.turn := by
  rintro rfl
  apply hd
  simp only [Position.colorAt, king_piece b h, Option.map_some]

theorem safe_iff_nocheck (b : Board) (h : b.WF = true) (s d : Sq) (pc' : Piece)
    (hs : (abs b).pieceAt s = some (b.turn, .pawn)) (hd : (abs b).colorAt d ≠ some b.turn)
    (hnc : BB.none b.checkers = true) (hn : NormalMove (abs b) b.turn s d) :
    SafeAfter b s d (some (b.turn, pc')) ↔
      (BB.mem b.pinned s = false ∨ BB.mem (Lookup.line (b.kingSq b.turn) s) d = true) := by
  apply forall_pos_iff
  intro q hq
  have hpk : Piece.pawn ≠ Piece.king := by decide
  cases hpin : BB.mem b.pinned s with
  | false =>
    have := safe_unpinned b h s d .pawn pc' hs hpk hd hnc hpin q hq
    simp [this]
  | true =>
    obtain ⟨X, hX⟩ := (mem_pinned_iff_pins b h s (occupied_of_piece ⟨_, hs⟩)).1 hpin
    have hXo : (abs b).occupied X = true := occupied_of_piece (sliderOn_facts _ _ _ _ hX.1).1
    have hko : (abs b).occupied (b.kingSq b.turn) = true := occupied_of_piece ⟨_, king_piece b h⟩
    rw [safe_no_check b h s d .pawn pc' hs hpk hd hnc q hq,
      line_iff_pawn (abs b) b.turn (b.kingSq b.turn) X s d hX hko hXo (dest_ne_king b h d hd)
        (normal_line_shape hn)]
    constructor
    · intro hall
      exact Or.inr (hall X hX)
    · rintro (h' | h') X' hX'
      · cases h'
      · rw [pinner_unique _ _ _ _ _ _ hX' hX]
        exact h'

theorem safe_iff_onecheck (b : Board) (h : b.WF = true) (s d C : Sq) (pc' : Piece)
    (hs : (abs b).pieceAt s = some (b.turn, .pawn)) (hd : (abs b).colorAt d ≠ some b.turn)
    (hC : BB.toList b.checkers = [C]) :
    SafeAfter b s d (some (b.turn, pc')) ↔
      (BB.mem b.pinned s = false ∧ BB.mem (b.checkMask true (b.kingSq b.turn)) d = true) := by
  apply forall_pos_iff
  intro q hq
  have hpk : Piece.pawn ≠ Piece.king := by decide
  rw [safe_one_check b h s d C .pawn pc' hs hpk hd hC q hq, mem_checkMask_one b C hC d,
    Bool.or_eq_true, beq_iff_eq, List.contains_iff_mem]

/-! ### the push/capture entries = the legal non-e.p. pawn moves -/

theorem mem_pawns (b : Board) (hp : b.raw.partitionOk = true) (s : Sq) :
    BB.mem (b.raw.pawn &&& b.raw.color b.turn) s = true ↔ (abs b).pieceAt s = some (b.turn, .pawn) := by
  have := AbsL.mem_piece_color b hp s b.turn .pawn
  rw [← decide_eq_true_eq (p := (abs b).pieceAt s = some (b.turn, .pawn)), ← this]
  rfl

theorem src_unpinned (b : Board) (hp : b.raw.partitionOk = true) (s : Sq) :
    s ∈ BB.toList (b.raw.pawn &&& b.raw.color b.turn &&& ~~~b.pinned) ↔
      ((abs b).pieceAt s = some (b.turn, .pawn) ∧ BB.mem b.pinned s = false) := by
  rw [BB.mem_toList, BB.mem_and', Bool.and_eq_true, mem_pawns b hp, BB.mem_not', Bool.not_eq_true']

theorem src_pinned (b : Board) (hp : b.raw.partitionOk = true) (s : Sq) :
    s ∈ BB.toList (b.raw.pawn &&& b.raw.color b.turn &&& b.pinned) ↔
      ((abs b).pieceAt s = some (b.turn, .pawn) ∧ BB.mem b.pinned s = true) := by
  rw [BB.mem_toList, BB.mem_and', Bool.and_eq_true, mem_pawns b hp]

theorem dest_iff (b : Board) (hp : b.raw.partitionOk = true) (s d : Sq) (extra : BB) :
    BB.mem (Board.pseudoLegals .pawn s b.turn b.raw.all (ownMask b) &&& extra) d = true ↔
      (NormalMove (abs b) b.turn s d ∧ (abs b).colorAt d ≠ some b.turn ∧ BB.mem extra d = true) := by
  rw [BB.mem_and', Bool.and_eq_true, mem_pseudo_pawn_iff b hp, mem_ownMask b hp, Bool.not_eq_true',
    beq_eq_false_iff_ne, and_assoc]

/-- the two regimes in which `collect_moves` calls the pawn generator -/
def Regime (b : Board) (ic : Bool) : Prop :=
  (ic = false ∧ BB.none b.checkers = true) ∨ (ic = true ∧ ∃ C, BB.toList b.checkers = [C])

theorem normal_entries_iff (b : Board) (h : b.WF = true) (ic : Bool) (hreg : Regime b ic) (m : Move) :
    InEntries (unpinnedL b ic (ownMask b) ++ pinnedL b ic (ownMask b)) m ↔
      ((abs b).pieceAt m.source = some (b.turn, .pawn) ∧ NormalMove (abs b) b.turn m.source m.dest ∧
       (abs b).colorAt m.dest ≠ some b.turn ∧
       m.piece.isSome = (rankI m.source == Position.seventhRank b.turn) ∧
       SafeAfter b m.source m.dest (arriving (abs b) m)) := by
  have hp := AbsL.wf_partition b h
  rw [inEntries_append]
  unfold unpinnedL pinnedL
  rcases hreg with ⟨rfl, hnc⟩ | ⟨rfl, C, hC⟩
  · rw [if_neg (by decide), inEntries_push, inEntries_push, src_unpinned b hp, src_pinned b hp,
      dest_iff b hp, dest_iff b hp, promoF_eq, mem_checkMask_none]
    constructor
    · rintro (⟨⟨hs, hpin⟩, ⟨hn, hd, _⟩, hpr⟩ | ⟨⟨hs, hpin⟩, ⟨hn, hd, hl⟩, hpr⟩)
      · obtain ⟨pc', hpc'⟩ := arriving_of_pawn (abs b) m b.turn hs
        refine ⟨hs, hn, hd, hpr, ?_⟩
        rw [hpc']
        exact (safe_iff_nocheck b h _ _ pc' hs hd hnc hn).2 (Or.inl hpin)
      · obtain ⟨pc', hpc'⟩ := arriving_of_pawn (abs b) m b.turn hs
        refine ⟨hs, hn, hd, hpr, ?_⟩
        rw [hpc']
        exact (safe_iff_nocheck b h _ _ pc' hs hd hnc hn).2 (Or.inr hl)
    · rintro ⟨hs, hn, hd, hpr, hsafe⟩
      obtain ⟨pc', hpc'⟩ := arriving_of_pawn (abs b) m b.turn hs
      rw [hpc'] at hsafe
      cases hpin : BB.mem b.pinned m.source with
      | false => exact Or.inl ⟨⟨hs, rfl⟩, ⟨hn, hd, rfl⟩, hpr⟩
      | true =>
        rcases (safe_iff_nocheck b h _ _ pc' hs hd hnc hn).1 hsafe with h' | h'
        · rw [hpin] at h'; cases h'
        · exact Or.inr ⟨⟨hs, rfl⟩, ⟨hn, hd, h'⟩, hpr⟩
  · rw [if_pos rfl, inEntries_push, src_unpinned b hp, dest_iff b hp, promoF_eq]
    constructor
    · rintro (⟨⟨hs, hpin⟩, ⟨hn, hd, hcm⟩, hpr⟩ | h')
      · obtain ⟨pc', hpc'⟩ := arriving_of_pawn (abs b) m b.turn hs
        refine ⟨hs, hn, hd, hpr, ?_⟩
        rw [hpc']
        exact (safe_iff_onecheck b h _ _ C pc' hs hd hC).2 ⟨hpin, hcm⟩
      · exact absurd h' (inEntries_nil m)
    · rintro ⟨hs, hn, hd, hpr, hsafe⟩
      obtain ⟨pc', hpc'⟩ := arriving_of_pawn (abs b) m b.turn hs
      rw [hpc'] at hsafe
      obtain ⟨hpin, hcm⟩ := (safe_iff_onecheck b h _ _ C pc' hs hd hC).1 hsafe
      exact Or.inl ⟨⟨hs, hpin⟩, ⟨hn, hd, hcm⟩, hpr⟩

theorem legal_normal_iff (b : Board) (h : b.WF = true) (m : Move)
    (hs : (abs b).pieceAt m.source = some (b.turn, .pawn))
    (hnotep : ¬ (pawnAtt b.turn m.source m.dest = true ∧ (abs b).occupied m.dest = false)) :
    (abs b).legal m = true ↔
      (NormalMove (abs b) b.turn m.source m.dest ∧ (abs b).colorAt m.dest ≠ some b.turn ∧
       m.piece.isSome = (rankI m.source == Position.seventhRank b.turn) ∧
       SafeAfter b m.source m.dest (arriving (abs b) m)) := by
  have hp := AbsL.wf_partition b h
  have hk := AbsL.wf_hasKings b h
  have key : (abs b).legal m = true ↔
      (destOk (abs b) b.turn m.dest = true ∧
       (m.piece.isSome = (rankI m.source == Position.seventhRank b.turn)) ∧
       NormalMove (abs b) b.turn m.source m.dest ∧
       SafeAfter b m.source m.dest (arriving (abs b) m)) :=
    legal_pawn_normal_iff (abs b) m (b.kingSq b.turn) hs (AbsL.kings_eq b hp hk b.turn) hnotep
  rw [key]
  constructor
  · rintro ⟨hdo, hpr, hn, hsafe⟩
    rw [destOk_normal b h _ _ hs hn, Bool.not_eq_true', beq_eq_false_iff_ne] at hdo
    exact ⟨hn, hdo, hpr, hsafe⟩
  · rintro ⟨hn, hd, hpr, hsafe⟩
    refine ⟨?_, hpr, hn, hsafe⟩
    rw [destOk_normal b h _ _ hs hn, Bool.not_eq_true', beq_eq_false_iff_ne]
    exact hd

/-! ### the en-passant entries = the legal en-passant captures -/

theorem epSquare_none (b : Board) (hf : b.ep = none) : (abs b).epSquare = none := by
  show (match b.ep with | some f => Position.sqAt f.val (Position.epTargetRank b.turn) | none => none) = none
  rw [hf]

theorem legal_ep_iff_b (b : Board) (h : b.WF = true) (m : Move) (v : Sq)
    (hs : (abs b).pieceAt m.source = some (b.turn, .pawn))
    (hatt : pawnAtt b.turn m.source m.dest = true) (hocc : (abs b).occupied m.dest = false)
    (hv : Position.sqAt (fileI m.dest) (rankI m.source) = some v) :
    (abs b).legal m = true ↔
      (m.piece = none ∧ some m.dest = (abs b).epSquare ∧ (abs b).pieceAt v = some (b.turn.flip, .pawn) ∧
       ∀ q : Position, q.pieceAt = moveAtEp (abs b).pieceAt m.source m.dest v (some (b.turn, .pawn)) →
         q.attacked (b.kingSq b.turn) b.turn.flip = false) :=
  legal_ep_iff (abs b) m (b.kingSq b.turn) v hs
    (AbsL.kings_eq b (AbsL.wf_partition b h) (AbsL.wf_hasKings b h) b.turn) hatt hocc hv

/-- the squares involved in an en-passant capture are pairwise distinct -/
theorem ep_distinct (b : Board) (h : b.WF = true) (f : File) (hf : b.ep = some f) (s : Sq)
    (hs : (abs b).pieceAt s = some (b.turn, .pawn)) :
    b.kingSq b.turn ≠ s ∧ b.kingSq b.turn ≠ Sq.mk f b.turn.epCaptureRank ∧
    b.kingSq b.turn ≠ Sq.mk f b.turn.epPawnRank ∧ s ≠ Sq.mk f b.turn.epCaptureRank ∧
    Sq.mk f b.turn.epPawnRank ≠ Sq.mk f b.turn.epCaptureRank ∧ Sq.mk f b.turn.epPawnRank ≠ s := by
  obtain ⟨hD, hV, _⟩ := wf_ep b h f hf
  have hD' := (occupied_false_iff _ _).1 hD
  have hk := king_piece b h
  refine ⟨?_, ?_, ?_, ?_, ?_, ?_⟩ <;> intro e
  · rw [e, hs] at hk; cases hk
  · rw [e, hD'] at hk; cases hk
  · rw [e, hV] at hk
    injection hk with hk
    injection hk with _ hk
    cases hk
  · rw [e, hD'] at hs; cases hs
  · rw [e, hD'] at hV; cases hV
  · rw [e, hs] at hV
    injection hV with hV
    injection hV with hV _
    exact Color.flip_ne _ hV.symm

theorem ep_safe_iff (b : Board) (h : b.WF = true) (f : File) (hf : b.ep = some f) (s : Sq)
    (hs : (abs b).pieceAt s = some (b.turn, .pawn)) :
    b.isSafeAfterEnpassant (b.kingSq b.turn) (BB.ofSq s) (BB.ofSq (Sq.mk f b.turn.epCaptureRank))
        (BB.ofSq (Sq.mk f b.turn.epPawnRank)) = true ↔
      ∀ q : Position, q.pieceAt = moveAtEp (abs b).pieceAt s (Sq.mk f b.turn.epCaptureRank)
          (Sq.mk f b.turn.epPawnRank) (some (b.turn, .pawn)) →
        q.attacked (b.kingSq b.turn) b.turn.flip = false := by
  have hp := AbsL.wf_partition b h
  obtain ⟨hD, hV, _⟩ := wf_ep b h f hf
  obtain ⟨h1, h2, h3, h4, h5, h6⟩ := ep_distinct b h f hf s hs
  have hcol : (abs b).colorAt s = some b.turn := by
    simp only [Position.colorAt, hs, Option.map_some]
  rw [isSafeAfterEnpassant_iff b hp _ s _ _ h1 h2 h3 h4 h5 h6 hcol hD hV]
  symm
  apply forall_pos_iff
  intro q hq
  rw [Bool.eq_false_iff, Ne, attacked_after_ep (abs b) s _ _ _ b.turn h1 h2 h3 h4 h5 h6 q hq]
  apply not_congr
  apply exists_congr
  intro x
  refine and_congr_right fun _ => and_congr_right fun _ => and_congr_right fun _ => or_congr ?_ Iff.rfl
  unfold contactOn
  rcases hx : (abs b).pieceAt x with _ | ⟨c', pc⟩
  · exact Iff.rfl
  · cases pc
    case king => simp [contactOn_king_false b h x c' hx]
    all_goals exact Iff.rfl

/-- sources of the e.p. block: the squares from which a pawn attacks the marker square -/
theorem ep_source_iff (c : Color) (f : File) (s : Sq) :
    BB.mem (BB.ofRank c.epPawnRank &&& Lookup.adjacentFiles f) s = true ↔
      pawnAtt c s (Sq.mk f c.epCaptureRank) = true := by
  rw [BB.mem_and', BB.mem_ofRank, Props.C09.mem_adjacentFiles, Bool.and_eq_true, beq_iff_eq, beq_iff_eq,
    rank_eq_iff, epPawn_val]
  simp only [pawnAtt, dR, dF, fileI_mk, rankI_mk, epCap_val, Bool.and_eq_true, beq_iff_eq, absI]
  cases c <;> simp only [fwd, Position.epTargetRank] <;> omega

/-- the victim of an e.p. capture onto the marker square stands on `mk f epPawnRank` -/
theorem ep_victim (c : Color) (f : File) (s v : Sq)
    (hatt : pawnAtt c s (Sq.mk f c.epCaptureRank) = true)
    (hv : Position.sqAt (fileI (Sq.mk f c.epCaptureRank)) (rankI s) = some v) :
    v = Sq.mk f c.epPawnRank := by
  obtain ⟨h1, h2⟩ := sqAt_eq_some _ _ _ hv
  rw [sq_eq_iff, fileI_mk, rankI_mk, epPawn_val, h1, h2, fileI_mk]
  simp only [pawnAtt, dR, rankI_mk, epCap_val, Bool.and_eq_true, beq_iff_eq] at hatt
  omega

theorem ep_entries_iff (b : Board) (h : b.WF = true) (m : Move) :
    InEntries (epL b (ownMask b)) m ↔
      ((abs b).pieceAt m.source = some (b.turn, .pawn) ∧ pawnAtt b.turn m.source m.dest = true ∧
       (abs b).occupied m.dest = false ∧ (abs b).legal m = true) := by
  have hp := AbsL.wf_partition b h
  cases hf : b.ep with
  | none =>
    constructor
    · intro h'; exact absurd h' (inEntries_ep_none b _ hf m)
    · rintro ⟨hs, hatt, hocc, hleg⟩
      obtain ⟨v, hv⟩ := sqAt_exists m.dest m.source
      have := ((legal_ep_iff_b b h m v hs hatt hocc hv).1 hleg).2.1
      rw [epSquare_none b hf] at this
      cases this
  | some f =>
    obtain ⟨hD, hV, hE⟩ := wf_ep b h f hf
    rw [inEntries_ep b _ f hf]
    constructor
    · rintro ⟨_, hsrc, hsafe, hd, hpn⟩
      rw [BB.mem_and', Bool.and_eq_true, ep_source_iff, mem_pawns b hp] at hsrc
      obtain ⟨hatt, hs⟩ := hsrc
      obtain ⟨v, hv⟩ := sqAt_exists m.dest m.source
      rw [← hd] at hatt hD
      refine ⟨hs, hatt, hD, ?_⟩
      rw [legal_ep_iff_b b h m v hs hatt hD hv]
      rw [hd] at hatt hv ⊢
      have := ep_victim b.turn f m.source v hatt hv
      subst this
      exact ⟨hpn, hE.symm, hV, (ep_safe_iff b h f hf m.source hs).1 hsafe⟩
    · rintro ⟨hs, hatt, hocc, hleg⟩
      obtain ⟨v, hv⟩ := sqAt_exists m.dest m.source
      obtain ⟨hpn, hes, hvp, hsafe⟩ := (legal_ep_iff_b b h m v hs hatt hocc hv).1 hleg
      rw [hE] at hes
      injection hes with hd
      rw [hd] at hatt hv hsafe
      have := ep_victim b.turn f m.source v hatt hv
      subst this
      refine ⟨?_, ?_, (ep_safe_iff b h f hf m.source hs).2 hsafe, hd, hpn⟩
      · rw [BB.any_iff]
        refine ⟨Sq.mk f b.turn.epCaptureRank, ?_⟩
        rw [BB.mem_and', BB.mem_ofSq, mem_ownMask b hp]
        have := (occupied_false_iff _ _).1 hD
        simp [Position.colorAt, this]
      · rw [BB.mem_and', Bool.and_eq_true, ep_source_iff, mem_pawns b hp]
        exact ⟨hatt, hs⟩

/-! ### two or more checkers: an en-passant capture never helps -/

/-- a checker other than the victim whose segment to the king does not contain `d` still attacks -/
theorem checker_survives (p : Position) (c : Color) (k s d v C : Sq) (pc : Piece)
    (hs : p.pieceAt s = some (c, pc)) (hd : p.occupied d = false)
    (hC : isChecker p c.flip k C) (hCv : C ≠ v) (hdC : d ∉ betweenList k C) :
    ∃ x : Sq, x ≠ d ∧ x ≠ s ∧ x ≠ v ∧
      (contactOn p.pieceAt c.flip x k = true ∨
       (sliderOn p.pieceAt c.flip x k = true ∧ d ∉ betweenList x k ∧
        ∀ u ∈ betweenList x k, u ≠ s → u ≠ v → p.occupied u = false)) := by
  have hCp := isChecker_piece hC
  refine ⟨C, ?_, ne_of_colors hCp hs, hCv, ?_⟩
  · rintro rfl
    rw [occupied_of_piece hCp] at hd
    cases hd
  · rcases hC with hc | ⟨hsl, hcl⟩
    · exact Or.inl hc
    · refine Or.inr ⟨hsl, fun e => hdC ((mem_between_comm _ _ _).1 e), fun u hu _ _ => ?_⟩
      exact clear_forall hcl u ((mem_between_comm _ _ _).1 hu)

/-- two checkers whose segments to the king share a square coincide -/
theorem two_blocked (p : Position) (c : Color) (k s d C1 C2 : Sq) (pc : Piece)
    (hs : p.pieceAt s = some (c, pc))
    (h1 : isChecker p c.flip k C1) (h2 : isChecker p c.flip k C2)
    (d1 : d ∈ betweenList k C1) (d2 : d ∈ betweenList k C2) : C1 = C2 := by
  have hp1 := isChecker_piece h1
  have hp2 := isChecker_piece h2
  have key : ∀ C, isChecker p c.flip k C → d ∈ betweenList k C →
      aligned k C = true ∧ ∀ v ∈ betweenList k C, p.occupied v = true → v = s := by
    intro C hC dC
    rcases hC with hc | ⟨a, bcl⟩
    · have := (contactOn_facts _ _ _ _ hc).2.1
      rw [mem_between_comm, this] at dC
      cases dC
    · refine ⟨?_, fun v hv ho => ?_⟩
      · rw [aligned_symm]; exact (sliderOn_facts _ _ _ _ a).2
      · have := clear_forall bcl v hv
        rw [this] at ho; cases ho
  obtain ⟨a1, f1⟩ := key C1 h1 d1
  obtain ⟨a2, f2⟩ := key C2 h2 d2
  exact seg_share p.occupied k C1 C2 s d a1 a2 (occupied_of_piece hp1) (occupied_of_piece hp2)
    (ne_of_colors hp1 hs) (ne_of_colors hp2 hs) f1 f2 (Or.inr d1) (Or.inr d2)

/-- the marker square is a knight's move away from a king checked by the e.p. victim -/
theorem ep_knight (c : Color) (f : File) (k : Sq)
    (h : pawnAtt c.flip (Sq.mk f c.epPawnRank) k = true) :
    knightAtt k (Sq.mk f c.epCaptureRank) = true := by
  simp only [pawnAtt, knightAtt, dF, dR, fileI_mk, rankI_mk, epCap_val, epPawn_val, Bool.and_eq_true,
    Bool.or_eq_true, beq_iff_eq, absI] at h ⊢
  cases c <;> simp only [Color.flip, fwd, Position.epTargetRank] at h ⊢ <;> omega

/-- if the victim gives check, the marker square is on no segment from the king -/
theorem victim_case (b : Board) (h : b.WF = true) (f : File) (hf : b.ep = some f) (C : Sq)
    (hV0 : isChecker (abs b) b.turn.flip (b.kingSq b.turn) (Sq.mk f b.turn.epPawnRank))
    (hdC : Sq.mk f b.turn.epCaptureRank ∈ betweenList (b.kingSq b.turn) C) : False := by
  obtain ⟨_, hV, _⟩ := wf_ep b h f hf
  have hal := (dir_of_mem_segment _ _ _ (Or.inl hdC)).1
  rcases hV0 with hc | ⟨hsl, _⟩
  · unfold contactOn at hc
    rw [hV] at hc
    simp only [Bool.and_eq_true, beq_self_eq_true, true_and] at hc
    rw [knight_not_aligned _ _ (ep_knight b.turn f _ hc)] at hal
    cases hal
  · unfold sliderOn at hsl
    rw [hV] at hsl
    cases hsl

end Chess.Legal.PawnAux

namespace Chess.Legal
open Chess Chess.Spec Chess.Rays

set_option linter.unusedVariables false in
/-- with two or more checkers an en-passant capture never rescues the king -/
theorem ep_unsafe_two_checks (b : Board) (h : b.WF = true) (f : File) (hf : b.ep = some f) (s : Sq)
    (hs : (abs b).pieceAt s = some (b.turn, .pawn))
    (hatt : pawnAtt b.turn s (Sq.mk f b.turn.epCaptureRank) = true)
    (h2 : 2 ≤ BB.count b.checkers) (q : Position)
    (hq : q.pieceAt = moveAtEp (abs b).pieceAt s (Sq.mk f b.turn.epCaptureRank) (Sq.mk f b.turn.epPawnRank) (some (b.turn, .pawn))) :
    q.attacked (b.kingSq b.turn) b.turn.flip = true := by
  obtain ⟨hD, hV, _⟩ := wf_ep b h f hf
  obtain ⟨e1, e2, e3, e4, e5, e6⟩ := PawnAux.ep_distinct b h f hf s hs
  rw [attacked_after_ep (abs b) s _ _ _ b.turn e1 e2 e3 e4 e5 e6 q hq]
  obtain ⟨C1, C2, hne, m1, m2⟩ := two_members b.checkers h2
  have c1 := (mem_checkers_iff_isChecker b h C1).1 m1
  have c2 := (mem_checkers_iff_isChecker b h C2).1 m2
  by_cases v1 : C1 = Sq.mk f b.turn.epPawnRank
  · have v2 : C2 ≠ Sq.mk f b.turn.epPawnRank := fun e => hne (v1.trans e.symm)
    by_cases d2 : Sq.mk f b.turn.epCaptureRank ∈ betweenList (b.kingSq b.turn) C2
    · exact (PawnAux.victim_case b h f hf C2 (v1 ▸ c1) d2).elim
    · exact PawnAux.checker_survives (abs b) b.turn _ s _ _ C2 .pawn hs hD c2 v2 d2
  · by_cases d1 : Sq.mk f b.turn.epCaptureRank ∈ betweenList (b.kingSq b.turn) C1
    · by_cases v2 : C2 = Sq.mk f b.turn.epPawnRank
      · exact (PawnAux.victim_case b h f hf C1 (v2 ▸ c2) d1).elim
      · by_cases d2 : Sq.mk f b.turn.epCaptureRank ∈ betweenList (b.kingSq b.turn) C2
        · exact absurd (PawnAux.two_blocked (abs b) b.turn _ s _ C1 C2 .pawn hs c1 c2 d1 d2) hne
        · exact PawnAux.checker_survives (abs b) b.turn _ s _ _ C2 .pawn hs hD c2 v2 d2
    · exact PawnAux.checker_survives (abs b) b.turn _ s _ _ C1 .pawn hs hD c1 v1 d1


/-- the pawn entries in either regime of `collect_moves` -/
theorem pawnLegals_iff (b : Board) (h : b.WF = true) (ic : Bool) (hreg : PawnAux.Regime b ic) (m : Move) :
    InEntries (b.pawnLegals ic (ownMask b)) m ↔
      ((abs b).pieceAt m.source = some (b.turn, .pawn) ∧ (abs b).legal m = true) := by
  rw [PawnAux.pawnLegals_eq, PawnAux.inEntries_append, PawnAux.normal_entries_iff b h ic hreg,
    PawnAux.ep_entries_iff b h]
  constructor
  · rintro (⟨hs, hn, hd, hpr, hsafe⟩ | ⟨hs, _, _, hleg⟩)
    · exact ⟨hs, (PawnAux.legal_normal_iff b h m hs (PawnAux.normal_not_ep hn)).2 ⟨hn, hd, hpr, hsafe⟩⟩
    · exact ⟨hs, hleg⟩
  · rintro ⟨hs, hleg⟩
    by_cases hep : pawnAtt b.turn m.source m.dest = true ∧ (abs b).occupied m.dest = false
    · exact Or.inr ⟨hs, hep.1, hep.2, hleg⟩
    · exact Or.inl ⟨hs, (PawnAux.legal_normal_iff b h m hs hep).1 hleg⟩

/-- with two or more checkers no pawn move is legal -/
theorem pawn_none_two_checks_aux (b : Board) (h : b.WF = true) (h2 : 2 ≤ BB.count b.checkers) (m : Move)
    (hs : (abs b).pieceAt m.source = some (b.turn, .pawn)) : (abs b).legal m = false := by
  rw [Bool.eq_false_iff]
  intro hleg
  by_cases hep : pawnAtt b.turn m.source m.dest = true ∧ (abs b).occupied m.dest = false
  · obtain ⟨v, hv⟩ := PawnAux.sqAt_exists m.dest m.source
    obtain ⟨_, hes, _, hsafe⟩ := (PawnAux.legal_ep_iff_b b h m v hs hep.1 hep.2 hv).1 hleg
    cases hf : b.ep with
    | none =>
      rw [PawnAux.epSquare_none b hf] at hes
      cases hes
    | some f =>
      obtain ⟨_, _, hE⟩ := wf_ep b h f hf
      rw [hE] at hes
      injection hes with hd
      obtain ⟨hatt, _⟩ := hep
      rw [hd] at hatt hv hsafe
      have := PawnAux.ep_victim b.turn f m.source v hatt hv
      subst this
      have := ep_unsafe_two_checks b h f hf m.source hs hatt h2 (PawnAux.posOf _) rfl
      rw [hsafe (PawnAux.posOf _) rfl] at this
      cases this
  · obtain ⟨_, hd, _, hsafe⟩ := (PawnAux.legal_normal_iff b h m hs hep).1 hleg
    obtain ⟨pc', hpc'⟩ := PawnAux.arriving_of_pawn (abs b) m b.turn hs
    rw [hpc'] at hsafe
    have := unsafe_two_checks b h m.source m.dest .pawn pc' hs (by decide) hd h2 (PawnAux.posOf _) rfl
    rw [hsafe (PawnAux.posOf _) rfl] at this
    cases this

/-- **pawns**: generated = legal (pushes, double pushes, captures, all four promotion choices exactly
when leaving the seventh rank, en passant) -/
theorem pawn_iff (b : Board) (h : b.WF = true) (m : Move) :
    InEntries (pawnList b) m ↔ ((abs b).pieceAt m.source = some (b.turn, .pawn) ∧ (abs b).legal m = true) := by
  unfold pawnList
  by_cases hnc : BB.none b.checkers = true
  · rw [if_pos hnc]
    exact pawnLegals_iff b h false (Or.inl ⟨rfl, hnc⟩) m
  · rw [if_neg hnc]
    by_cases h1 : (BB.count b.checkers == 1) = true
    · rw [if_pos h1]
      rw [beq_iff_eq, BB.count_eq_length_toList, List.length_eq_one_iff] at h1
      exact pawnLegals_iff b h true (Or.inr ⟨rfl, h1⟩) m
    · rw [if_neg h1]
      have h2 : 2 ≤ BB.count b.checkers := by
        rw [beq_iff_eq] at h1
        have h0 : BB.count b.checkers ≠ 0 := by
          intro h0
          apply hnc
          rw [BB.none_iff]
          intro s
          cases hm : BB.mem b.checkers s with
          | false => rfl
          | true =>
            rw [BB.count_eq_length_toList, List.length_eq_zero_iff] at h0
            have := (BB.mem_toList _ _).2 hm
            rw [h0] at this
            cases this
        omega
      constructor
      · intro h'; exact absurd h' (PawnAux.inEntries_nil m)
      · rintro ⟨hs, hleg⟩
        rw [pawn_none_two_checks_aux b h h2 m hs] at hleg
        cases hleg

/-- with two or more checkers no pawn move is legal (so generating none is right) -/
theorem pawn_none_two_checks (b : Board) (h : b.WF = true) (h2 : 2 ≤ BB.count b.checkers) (m : Move)
    (hs : (abs b).pieceAt m.source = some (b.turn, .pawn)) : (abs b).legal m = false :=
  pawn_none_two_checks_aux b h h2 m hs

end Chess.Legal
