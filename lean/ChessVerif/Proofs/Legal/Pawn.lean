/-
C01, pawns: the entries `Pawn::legals` pushes (pushes, captures, promotion flag, en passant after
the `fix:` commit) denote exactly the legal pawn moves.
-/
import ChessVerif.Proofs.Legal.Generic

namespace Chess.Legal
open Chess Chess.Spec Chess.Rays

/-- the entry list `collect_moves` builds for the pawns -/
def pawnList (b : Board) : List Entry :=
  if BB.none b.checkers then b.pawnLegals false (ownMask b)
  else if BB.count b.checkers == 1 then b.pawnLegals true (ownMask b)
  else []

/-- the e.p. marker of a well-formed board: target square empty, enemy pawn in front of it -/
theorem wf_ep (b : Board) (h : b.WF = true) (f : File) (hf : b.ep = some f) :
    (abs b).occupied (Sq.mk f b.turn.epCaptureRank) = false ∧
    (abs b).pieceAt (Sq.mk f b.turn.epPawnRank) = some (b.turn.flip, .pawn) ∧
    (abs b).epSquare = some (Sq.mk f b.turn.epCaptureRank) := sorry

/-- with two or more checkers an en-passant capture never rescues the king -/
theorem ep_unsafe_two_checks (b : Board) (h : b.WF = true) (f : File) (hf : b.ep = some f) (s : Sq)
    (hs : (abs b).pieceAt s = some (b.turn, .pawn))
    (hatt : pawnAtt b.turn s (Sq.mk f b.turn.epCaptureRank) = true)
    (h2 : 2 ≤ BB.count b.checkers) (q : Position)
    (hq : q.pieceAt = moveAtEp (abs b).pieceAt s (Sq.mk f b.turn.epCaptureRank) (Sq.mk f b.turn.epPawnRank) (some (b.turn, .pawn))) :
    q.attacked (b.kingSq b.turn) b.turn.flip = true := sorry

/-- **pawns**: generated = legal (pushes, double pushes, captures, all four promotion choices exactly
when leaving the seventh rank, en passant) -/
theorem pawn_iff (b : Board) (h : b.WF = true) (m : Move) :
    InEntries (pawnList b) m ↔ ((abs b).pieceAt m.source = some (b.turn, .pawn) ∧ (abs b).legal m = true) := sorry

/-- with two or more checkers no pawn move is legal (so generating none is right) -/
theorem pawn_none_two_checks (b : Board) (h : b.WF = true) (h2 : 2 ≤ BB.count b.checkers) (m : Move)
    (hs : (abs b).pieceAt m.source = some (b.turn, .pawn)) : (abs b).legal m = false := sorry

end Chess.Legal
