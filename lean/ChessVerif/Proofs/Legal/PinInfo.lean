/-
What the model's pin/check information means on the mailbox (`update_pin_info`, and hence the
`pinned` / `checkers` fields of every well-formed board): checkers are exactly the enemy pieces
attacking the king of the side to move, pinned squares are exactly the single occupied squares
between that king and an aligned enemy slider.  Also the safety tests of the generator
(`is_legal_king_position`, `is_safe_after_enpassant`) in the same terms.
-/
import ChessVerif.Proofs.Legal.AbsL
import ChessVerif.Proofs.Legal.Attack

namespace Chess.Legal
open Chess Chess.Spec Chess.Rays

/-- the candidate sliders of `update_pin_info` / `is_legal_king_position`: enemy bishops/queens on
the diagonals of `k`, enemy rooks/queens on its rank and file -/
def pinnersBB (b : Board) (by_ : Color) (k : Sq) : BB :=
  b.raw.color by_ &&& (((b.raw.bishop ||| b.raw.queen) &&& Lookup.bishopRays k) |||
                       ((b.raw.rook ||| b.raw.queen) &&& Lookup.rookRays k))

theorem mem_pinnersBB (b : Board) (hp : b.raw.partitionOk = true) (by_ : Color) (k x : Sq) :
    BB.mem (pinnersBB b by_ k) x = sliderOn (abs b).pieceAt by_ x k := by
  have hc := AbsL.mem_color b hp x by_
  have hb : BB.mem b.raw.bishop x = _ := AbsL.mem_piece b hp x .bishop
  have hr : BB.mem b.raw.rook x = _ := AbsL.mem_piece b hp x .rook
  have hq : BB.mem b.raw.queen x = _ := AbsL.mem_piece b hp x .queen
  unfold pinnersBB sliderOn
  simp only [BB.mem_and', BB.mem_or', hc, hb, hr, hq, Props.C09.mem_rookRays,
    Props.C09.mem_bishopRays, Position.colorAt, aligned]
  rw [(aligned_comm k x).1, (aligned_comm k x).2.1]
  rcases (abs b).pieceAt x with _ | ⟨c', pc⟩
  · simp
  · generalize rookAligned x k = r
    generalize bishopAligned x k = d
    cases pc <;> cases c' <;> cases by_ <;> cases r <;> cases d <;> rfl

/-- membership in the `between` table = membership in the walked segment (C09) -/
theorem mem_between_tbl (a b u : Sq) : BB.mem (Lookup.between a b) u = (betweenList a b).contains u :=
  Props.C09.mem_between a b u

theorem count_ne_one_of_none (x : BB) (h : BB.none x = true) : BB.count x ≠ 1 := by
  intro hc
  obtain ⟨h64, _, _⟩ := AbsL.single_of_count_one x hc
  have h1 : BB.mem x ⟨BB.tz x, h64⟩ = true := BB.tz_set x h64
  rw [(BB.none_iff x).1 h] at h1
  cases h1

theorem scanSliders_cons (occ : BB) (k c : Sq) (cs : List Sq) (P C : BB) :
    Board.scanSliders occ k (c :: cs) P C false =
      if BB.none (occ &&& Lookup.between k c) = true then Board.scanSliders occ k cs P (BB.set C c) false
      else if BB.count (occ &&& Lookup.between k c) = 1 then
        Board.scanSliders occ k cs (P ||| (occ &&& Lookup.between k c)) C false
      else Board.scanSliders occ k cs P C false := by
  unfold Board.scanSliders
  simp only [List.foldl_cons]
  by_cases h1 : BB.none (occ &&& Lookup.between k c) = true
  · simp only [h1, if_true]
  · by_cases h2 : BB.count (occ &&& Lookup.between k c) = 1
    · simp [h1, h2]
    · simp [h1, h2]

theorem scanSliders_or_aux (occ : BB) (k : Sq) (cands : List Sq) (P0 C0 : BB) (u : Sq) :
    (BB.mem (Board.scanSliders occ k cands P0 C0 false).2 u = true ↔
      (BB.mem C0 u = true ∨ (u ∈ cands ∧ BB.none (occ &&& Lookup.between k u) = true))) ∧
    (BB.mem (Board.scanSliders occ k cands P0 C0 false).1 u = true ↔ (BB.mem P0 u = true ∨
        ∃ x ∈ cands, BB.count (occ &&& Lookup.between k x) = 1 ∧
          BB.mem (occ &&& Lookup.between k x) u = true)) := by
  induction cands generalizing P0 C0 with
  | nil => simp [Board.scanSliders]
  | cons c cs ih =>
    rw [scanSliders_cons]
    by_cases h1 : BB.none (occ &&& Lookup.between k c) = true
    · rw [if_pos h1]
      obtain ⟨i1, i2⟩ := ih P0 (BB.set C0 c)
      have h0 : BB.count (occ &&& Lookup.between k c) ≠ 1 := count_ne_one_of_none _ h1
      rw [i1, i2, BB.mem_set]
      simp only [List.mem_cons, exists_eq_or_imp, Bool.or_eq_true, beq_iff_eq]
      grind
    · rw [if_neg h1]
      by_cases h2 : BB.count (occ &&& Lookup.between k c) = 1
      · rw [if_pos h2]
        obtain ⟨i1, i2⟩ := ih (P0 ||| (occ &&& Lookup.between k c)) C0
        rw [i1, i2, BB.mem_or']
        simp only [List.mem_cons, exists_eq_or_imp, Bool.or_eq_true]
        grind
      · rw [if_neg h2]
        obtain ⟨i1, i2⟩ := ih P0 C0
        rw [i1, i2]
        simp only [List.mem_cons, exists_eq_or_imp]
        grind

/-- the `|=` scan: what the fold over the candidates leaves in the two accumulators -/
theorem scanSliders_or_spec (occ : BB) (k : Sq) (cands : List Sq) (P0 C0 : BB) (u : Sq) :
    let r := Board.scanSliders occ k cands P0 C0 false
    (BB.mem r.2 u = true ↔ (BB.mem C0 u = true ∨ (u ∈ cands ∧ BB.none (occ &&& Lookup.between k u) = true))) ∧
    (BB.mem r.1 u = true ↔ (BB.mem P0 u = true ∨
        ∃ x ∈ cands, BB.count (occ &&& Lookup.between k x) = 1 ∧ BB.mem (occ &&& Lookup.between k x) u = true)) :=
  scanSliders_or_aux occ k cands P0 C0 u

/-- kings of the two sides are never adjacent on a well-formed board -/
theorem no_adjacent_kings (b : Board) (h : b.WF = true) :
    kingAtt (b.kingSq b.turn.flip) (b.kingSq b.turn) = false := by
  have hp := AbsL.wf_partition b h
  have hk := AbsL.wf_hasKings b h
  have hs := AbsL.wf_opponent_safe b h
  have hat := (AbsL.pieceAt_iff b hp _ _ _).1 (AbsL.king_at b hp hk b.turn)
  have h1 : BB.mem (b.raw.color b.turn) (b.kingSq b.turn) = true := hat.1
  have h2 : BB.mem b.raw.king (b.kingSq b.turn) = true := hat.2
  rw [Bool.eq_false_iff]
  intro hka
  have : BB.any (Board.attackersOf b.raw (b.kingSq b.turn.flip) b.turn b.raw.all) = true := by
    rw [BB.any_iff]
    refine ⟨b.kingSq b.turn, ?_⟩
    unfold Board.attackersOf
    simp only [BB.mem_and', BB.mem_or', Props.C09.mem_kingMoves, hka, h1, h2, Bool.and_self,
      Bool.or_true, Bool.true_or]
  rw [hs] at this
  cases this

theorem updatePinInfo_checkers (b : Board) :
    b.updatePinInfo.checkers =
      (Board.scanSliders b.raw.all (b.kingSq b.turn)
          (BB.toList (pinnersBB b b.turn.flip (b.kingSq b.turn))) 0#64 0#64 false).2 |||
        (Lookup.knightMoves (b.kingSq b.turn) &&& b.raw.knight &&& b.raw.color b.turn.flip) |||
        (Lookup.pawnAttacksMoves (b.kingSq b.turn) b.turn &&& b.raw.pawn &&& b.raw.color b.turn.flip) := rfl

theorem updatePinInfo_pinned (b : Board) :
    b.updatePinInfo.pinned =
      (Board.scanSliders b.raw.all (b.kingSq b.turn)
          (BB.toList (pinnersBB b b.turn.flip (b.kingSq b.turn))) 0#64 0#64 false).1 := rfl

/-- the masked segment is empty iff the mailbox segment is clear -/
theorem none_between_iff (b : Board) (hp : b.raw.partitionOk = true) (k x : Sq) :
    BB.none (b.raw.all &&& Lookup.between k x) = true ↔ clear (abs b).occupied x k = true := by
  rw [BB.none_iff]
  unfold clear
  simp only [BB.mem_and', mem_between_tbl, List.all_eq_true, Bool.not_eq_true',
    AbsL.occupied_iff b hp, Bool.and_eq_false_iff]
  constructor
  · intro h u hu
    rcases h u with h' | h'
    · exact h'
    · rw [mem_between_comm] at hu
      simp [hu] at h'
  · intro h u
    by_cases hu : u ∈ betweenList k x
    · exact Or.inl (h u ((mem_between_comm k x u).1 hu))
    · exact Or.inr (by simpa using hu)

/-- membership in the masked segment -/
theorem mem_occ_between (b : Board) (hp : b.raw.partitionOk = true) (k x u : Sq) :
    BB.mem (b.raw.all &&& Lookup.between k x) u = true ↔
      ((abs b).occupied u = true ∧ u ∈ betweenList k x) := by
  rw [BB.mem_and', mem_between_tbl, AbsL.occupied_iff b hp, Bool.and_eq_true, List.contains_iff_mem]

theorem contactOn_king_false (b : Board) (h : b.WF = true) (x : Sq) (c' : Color)
    (hx : (abs b).pieceAt x = some (c', .king)) :
    (c' == b.turn.flip && kingAtt x (b.kingSq b.turn)) = false := by
  by_cases e : c' = b.turn.flip
  · subst e
    have := AbsL.king_unique b (AbsL.wf_partition b h) (AbsL.wf_hasKings b h) _ x hx
    rw [this, no_adjacent_kings b h, Bool.and_false]
  · have : (c' == b.turn.flip) = false := by simpa using e
    rw [this, Bool.false_and]

theorem contactOn_iff (b : Board) (h : b.WF = true) (x : Sq) :
    contactOn (abs b).pieceAt b.turn.flip x (b.kingSq b.turn) = true ↔
      (BB.mem (Lookup.knightMoves (b.kingSq b.turn) &&& b.raw.knight &&& b.raw.color b.turn.flip) x = true ∨
       BB.mem (Lookup.pawnAttacksMoves (b.kingSq b.turn) b.turn &&& b.raw.pawn &&& b.raw.color b.turn.flip) x = true) := by
  have hp := AbsL.wf_partition b h
  have hc := AbsL.mem_color b hp x b.turn.flip
  have hn : BB.mem b.raw.knight x = _ := AbsL.mem_piece b hp x .knight
  have hw : BB.mem b.raw.pawn x = _ := AbsL.mem_piece b hp x .pawn
  have hking := contactOn_king_false b h x
  simp only [BB.mem_and', Props.C09.mem_knightMoves, Props.C09.mem_pawnAttacksMoves, hc, hn, hw,
    Position.colorAt]
  rw [knightAtt_symm, pawnAtt_symm]
  unfold contactOn
  generalize b.turn.flip = c at *
  generalize b.kingSq b.turn = k at *
  rcases hpa : (abs b).pieceAt x with _ | ⟨c', pc⟩
  · simp
  · cases pc
    case king =>
      have hk := hking c' hpa
      simp [hk]
    all_goals simp [and_comm]

/-- **checkers** = the enemy pieces that attack the king of the side to move -/
theorem mem_checkers_iff (b : Board) (h : b.WF = true) (x : Sq) :
    BB.mem b.checkers x = true ↔
      (contactOn (abs b).pieceAt b.turn.flip x (b.kingSq b.turn) = true ∨
       (sliderOn (abs b).pieceAt b.turn.flip x (b.kingSq b.turn) = true ∧
        clear (abs b).occupied x (b.kingSq b.turn) = true)) := by
  have hp := AbsL.wf_partition b h
  rw [(AbsL.wf_pinInfo b h).2, updatePinInfo_checkers, BB.mem_or', BB.mem_or', Bool.or_eq_true,
    Bool.or_eq_true, (scanSliders_or_aux _ _ _ _ _ x).1, BB.mem_zero, BB.mem_toList,
    mem_pinnersBB b hp, none_between_iff b hp, contactOn_iff b h]
  grind

/-- **in check** (C03): the board reports check exactly when the side to move's king is attacked -/
theorem inCheck_iff (b : Board) (h : b.WF = true) : b.inCheck = (abs b).inCheck b.turn := by
  have hp := AbsL.wf_partition b h
  have hk := AbsL.wf_hasKings b h
  rw [Bool.eq_iff_iff]
  unfold Board.inCheck Position.inCheck
  rw [AbsL.kings_eq b hp hk, BB.any_iff]
  simp only [List.any_cons, List.any_nil, Bool.or_false]
  rw [attacked_iff]
  exact exists_congr (fun x => mem_checkers_iff b h x)

/-- a set has exactly one member, `u` among them, iff `u` is its only member -/
theorem count_one_mem_iff (m : BB) (u : Sq) :
    (BB.count m = 1 ∧ BB.mem m u = true) ↔ (BB.mem m u = true ∧ ∀ v, BB.mem m v = true → v = u) := by
  rw [BB.count_eq_length_toList]
  constructor
  · rintro ⟨hl, hu⟩
    rw [List.length_eq_one_iff] at hl
    obtain ⟨s, hs⟩ := hl
    have key : ∀ v, BB.mem m v = true → v = s := by
      intro v hv
      rw [← BB.mem_toList, hs] at hv
      exact List.mem_singleton.1 hv
    refine ⟨hu, fun v hv => ?_⟩
    rw [key v hv, key u hu]
  · rintro ⟨hu, hall⟩
    refine ⟨?_, hu⟩
    have hasc := BB.toList_ascending m
    have hmem : u ∈ BB.toList m := (BB.mem_toList m u).2 hu
    have hall' : ∀ v ∈ BB.toList m, v = u := fun v hv => hall v ((BB.mem_toList m v).1 hv)
    generalize BB.toList m = l at hasc hmem hall'
    match l, hasc, hmem, hall' with
    | [], _, hmem, _ => cases hmem
    | [a], _, _, _ => rfl
    | a :: c :: t, hasc, _, hall' =>
      exfalso
      rw [List.pairwise_cons] at hasc
      have h1 := hasc.1 c (List.mem_cons_self ..)
      have ha := hall' a (List.mem_cons_self ..)
      have hc := hall' c (List.mem_cons_of_mem _ (List.mem_cons_self ..))
      rw [ha, hc] at h1
      exact Nat.lt_irrefl _ h1

/-- **pinned** = the unique occupied square between the king and an aligned enemy slider -/
theorem mem_pinned_iff (b : Board) (h : b.WF = true) (u : Sq) :
    BB.mem b.pinned u = true ↔
      ∃ X : Sq, sliderOn (abs b).pieceAt b.turn.flip X (b.kingSq b.turn) = true ∧
        u ∈ betweenList (b.kingSq b.turn) X ∧ (abs b).occupied u = true ∧
        ∀ v ∈ betweenList (b.kingSq b.turn) X, (abs b).occupied v = true → v = u := by
  have hp := AbsL.wf_partition b h
  rw [(AbsL.wf_pinInfo b h).1, updatePinInfo_pinned, (scanSliders_or_aux _ _ _ _ _ u).2, BB.mem_zero]
  simp only [Bool.false_eq_true, false_or]
  apply exists_congr
  intro X
  rw [BB.mem_toList, mem_pinnersBB b hp, count_one_mem_iff]
  simp only [mem_occ_between b hp]
  constructor
  · rintro ⟨h1, ⟨h2, h3⟩, h4⟩
    exact ⟨h1, h3, h2, fun v hv ho => h4 v ⟨ho, hv⟩⟩
  · rintro ⟨h1, h3, h2, h4⟩
    exact ⟨h1, ⟨h2, h3⟩, fun v hv => h4 v hv.2 hv.1⟩

end Chess.Legal
