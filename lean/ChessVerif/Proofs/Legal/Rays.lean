/-
Geometry facts about `Spec/Geometry.lean` needed by the legality proofs (C01, C03): walking,
`betweenList`, `lineList`, symmetry and nesting of segments, disjointness of different rays,
symmetry of the contact-attack relations.  Everything here is about squares only — no boards.
-/
import ChessVerif.Spec.Geometry
import ChessVerif.Proofs.Legal.RaysAux

namespace Chess.Rays
open Chess Chess.Spec Chess.RaysAux

/-- direction from `a` to `b`: signs of the file and rank differences -/
def dir (a b : Sq) : Int × Int := (sgn (dF a b), sgn (dR a b))

def negDir (d : Int × Int) : Int × Int := (-d.1, -d.2)

/-- the eight queen directions -/
def allDirs : List (Int × Int) := rookDirs ++ bishopDirs

theorem dir_eq_dirOf (a b : Sq) : dir a b = dirOf a b := rfl
theorem allDirs_eq_dirs8 : allDirs = dirs8 := rfl

/-- an aligned pair, parametrised: `b` is `distanceSpec a b` steps from `a` in direction `dir a b` -/
theorem seg_of_aligned' (a b : Sq) (h : aligned a b = true) :
    Seg a b (dir a b) (distanceSpec a b) := seg_of_aligned a b h

theorem _root_.Chess.RaysAux.Seg.dir_eq {a b : Sq} {d : Int × Int} {m : Int} (h : Seg a b d m) : dir a b = d :=
  h.props.2.1

theorem negDir_mem_allDirs {d : Int × Int} (hd : d ∈ allDirs) : negDir d ∈ allDirs :=
  neg_mem_dirs8 hd

/-! ### walking -/

/-- the squares met when walking from `s` in one of the eight directions are exactly the squares
aligned with `s` in that direction -/
theorem mem_walk_iff (d : Int × Int) (hd : d ∈ allDirs) (s t : Sq) :
    t ∈ walk d.1 d.2 7 s ↔ (aligned s t = true ∧ dir s t = d) := by
  rw [mem_walk7_iff d hd]
  constructor
  · rintro ⟨m, hm⟩
    obtain ⟨h1, h2, _⟩ := hm.props
    exact ⟨h1, h2⟩
  · rintro ⟨h1, rfl⟩
    exact ⟨_, seg_of_aligned s t h1⟩

/-- aligned squares determine one of the eight directions; rook-aligned ones a rook direction, … -/
theorem dir_mem_of_aligned (s t : Sq) :
    (rookAligned s t = true → dir s t ∈ rookDirs) ∧ (bishopAligned s t = true → dir s t ∈ bishopDirs) := by
  constructor
  · intro h
    have hs := seg_of_aligned s t ((aligned_iff s t).2 (Or.inl h))
    exact hs.props.2.2.2.1.1 h
  · intro h
    have hs := seg_of_aligned s t ((aligned_iff s t).2 (Or.inr h))
    exact hs.props.2.2.2.2.1 h

theorem aligned_comm (a b : Sq) :
    rookAligned a b = rookAligned b a ∧ bishopAligned a b = bishopAligned b a ∧ dir b a = negDir (dir a b) := by
  refine ⟨?_, ?_, ?_⟩
  · rw [Bool.eq_iff_iff, rookAligned_iff, rookAligned_iff]; omega
  · rw [Bool.eq_iff_iff, bishopAligned_iff, bishopAligned_iff]; omega
  · simp only [dir, negDir, sgn, dF, dR, Prod.mk.injEq]; omega

theorem aligned_symm (a b : Sq) : aligned a b = aligned b a := by
  obtain ⟨h1, h2, _⟩ := aligned_comm a b
  simp only [aligned, h1, h2]

theorem not_both_aligned (a b : Sq) : ¬ (rookAligned a b = true ∧ bishopAligned a b = true) := by
  rw [rookAligned_iff, bishopAligned_iff]; omega

/-! ### segments -/

theorem betweenList_nil_of_not_aligned (a b : Sq) (h : aligned a b = false) : betweenList a b = [] := by
  simp [betweenList, h]

/-- the endpoints are not in the segment -/
theorem endpoints_not_mem (a b : Sq) : a ∉ betweenList a b ∧ b ∉ betweenList a b := by
  constructor
  · intro h
    obtain ⟨d, k, m, h1, _, _⟩ := seg_of_mem_between h
    have := h1.props.1
    rw [not_aligned_self] at this
    cases this
  · intro h
    obtain ⟨d, k, m, h1, h2, hlt⟩ := seg_of_mem_between h
    have := (h1.unique h2).2
    omega

/-- every square strictly between `a` and `b` is aligned with both, in the same way and direction -/
theorem mem_between_aligned (a b u : Sq) (h : u ∈ betweenList a b) :
    rookAligned a u = rookAligned a b ∧ bishopAligned a u = bishopAligned a b ∧
    rookAligned u b = rookAligned a b ∧ bishopAligned u b = bishopAligned a b ∧
    dir a u = dir a b ∧ dir u b = dir a b := by
  obtain ⟨d, k, m, h1, h2, hlt⟩ := seg_of_mem_between h
  have h3 := h1.sub h2 hlt
  obtain ⟨_, d1, _, r1, b1⟩ := h1.props
  obtain ⟨_, d2, _, r2, b2⟩ := h2.props
  obtain ⟨_, d3, _, r3, b3⟩ := h3.props
  refine ⟨?_, ?_, ?_, ?_, ?_, ?_⟩
  · rw [Bool.eq_iff_iff]; exact r1.trans r2.symm
  · rw [Bool.eq_iff_iff]; exact b1.trans b2.symm
  · rw [Bool.eq_iff_iff]; exact r3.trans r2.symm
  · rw [Bool.eq_iff_iff]; exact b3.trans b2.symm
  · exact d1.trans d2.symm
  · exact d3.trans d2.symm

theorem mem_between_comm_aux (a b u : Sq) (h : u ∈ betweenList a b) : u ∈ betweenList b a := by
  obtain ⟨d, k, m, h1, h2, hlt⟩ := seg_of_mem_between h
  have h3 := (h1.sub h2 hlt).rev
  exact mem_between_of_seg h3 h2.rev (by have := h1.2.1; omega)

/-- segments are symmetric as sets -/
theorem mem_between_comm (a b u : Sq) : u ∈ betweenList a b ↔ u ∈ betweenList b a :=
  ⟨mem_between_comm_aux a b u, mem_between_comm_aux b a u⟩

/-- a point of a segment splits it -/
theorem between_split (a b u : Sq) (h : u ∈ betweenList a b) (v : Sq) :
    v ∈ betweenList a b ↔ (v ∈ betweenList a u ∨ v = u ∨ v ∈ betweenList u b) := by
  obtain ⟨d, k, m, h1, h2, hlt⟩ := seg_of_mem_between h
  have h3 := h1.sub h2 hlt
  constructor
  · intro hv
    obtain ⟨d', j, m', g1, g2, glt⟩ := seg_of_mem_between hv
    obtain ⟨rfl, rfl⟩ := g2.unique h2
    rcases Int.lt_trichotomy j k with hjk | hjk | hjk
    · exact Or.inl (mem_between_of_seg g1 h1 hjk)
    · subst hjk; exact Or.inr (Or.inl (g1.eq_of h1))
    · exact Or.inr (Or.inr (mem_between_of_seg (h1.sub g1 hjk) h3 (by omega)))
  · rintro (hv | rfl | hv)
    · obtain ⟨d', j, k', g1, g2, glt⟩ := seg_of_mem_between hv
      obtain ⟨rfl, rfl⟩ := g2.unique h1
      exact mem_between_of_seg g1 h2 (by omega)
    · exact h
    · obtain ⟨d', j, k', g1, g2, glt⟩ := seg_of_mem_between hv
      obtain ⟨rfl, rfl⟩ := g2.unique h3
      exact mem_between_of_seg (h1.add g1) h2 (by omega)

theorem between_split_disjoint (a b u : Sq) (h : u ∈ betweenList a b) (v : Sq) :
    ¬ (v ∈ betweenList a u ∧ v ∈ betweenList u b) ∧ u ∉ betweenList a u ∧ u ∉ betweenList u b := by
  refine ⟨?_, (endpoints_not_mem a u).2, (endpoints_not_mem u b).1⟩
  rintro ⟨hv1, hv2⟩
  obtain ⟨d, k, m, h1, h2, hlt⟩ := seg_of_mem_between h
  have h3 := h1.sub h2 hlt
  obtain ⟨d', j, k', g1, g2, glt⟩ := seg_of_mem_between hv1
  obtain ⟨rfl, rfl⟩ := g2.unique h1
  obtain ⟨d'', j', k'', f1, f2, flt⟩ := seg_of_mem_between hv2
  obtain ⟨rfl, rfl⟩ := f2.unique h3
  have := ((h1.add f1).unique g1).2
  have := f1.2.1
  omega

/-- two squares in the same direction from `k` are comparable along that ray -/
theorem same_dir_cases (k A B : Sq) (hA : aligned k A = true) (hB : aligned k B = true)
    (hd : dir k A = dir k B) : A = B ∨ A ∈ betweenList k B ∨ B ∈ betweenList k A := by
  have sA := seg_of_aligned' k A hA
  have sB := seg_of_aligned' k B hB
  rw [hd] at sA
  rcases Int.lt_trichotomy (distanceSpec k A) (distanceSpec k B) with hlt | heq | hlt
  · exact Or.inr (Or.inl (mem_between_of_seg sA sB hlt))
  · rw [heq] at sA; exact Or.inl (sA.eq_of sB)
  · exact Or.inr (Or.inr (mem_between_of_seg sB sA hlt))

/-- conversely, a square of the closed segment `(k, A]` lies in the direction of `A` -/
theorem dir_of_mem_segment (k A u : Sq) (h : u ∈ betweenList k A ∨ (u = A ∧ aligned k A = true)) :
    aligned k u = true ∧ dir k u = dir k A := by
  rcases h with h | ⟨rfl, h⟩
  · obtain ⟨d, j, m, h1, h2, _⟩ := seg_of_mem_between h
    exact ⟨h1.props.1, h1.dir_eq.trans h2.dir_eq.symm⟩
  · exact ⟨h, rfl⟩

/-! ### sliding = aligned with an empty segment; symmetric -/

theorem mem_reach_aux (dirs : List (Int × Int)) (hsub : ∀ d ∈ dirs, d ∈ allDirs)
    (occ : Sq → Bool) (s t : Sq) :
    t ∈ dirs.flatMap (fun d => slide occ d.1 d.2 7 s) ↔
      ((aligned s t = true ∧ dir s t ∈ dirs) ∧ ∀ u ∈ betweenList s t, occ u = false) := by
  rw [List.mem_flatMap]
  constructor
  · rintro ⟨d, hd, hmem⟩
    rw [mem_slide_iff occ d (hsub d hd)] at hmem
    obtain ⟨⟨m, hm⟩, hall⟩ := hmem
    refine ⟨⟨hm.props.1, ?_⟩, hall⟩
    rw [hm.dir_eq]; exact hd
  · rintro ⟨⟨hal, hd⟩, hall⟩
    refine ⟨dir s t, hd, ?_⟩
    rw [mem_slide_iff occ _ (hsub _ hd)]
    exact ⟨⟨_, seg_of_aligned' s t hal⟩, hall⟩

theorem rookAligned_iff_dir (s t : Sq) :
    rookAligned s t = true ↔ (aligned s t = true ∧ dir s t ∈ rookDirs) := by
  constructor
  · intro h
    exact ⟨(aligned_iff s t).2 (Or.inl h), (dir_mem_of_aligned s t).1 h⟩
  · rintro ⟨hal, hd⟩
    exact (seg_of_aligned' s t hal).props.2.2.2.1.2 hd

theorem bishopAligned_iff_dir (s t : Sq) :
    bishopAligned s t = true ↔ (aligned s t = true ∧ dir s t ∈ bishopDirs) := by
  constructor
  · intro h
    exact ⟨(aligned_iff s t).2 (Or.inr h), (dir_mem_of_aligned s t).2 h⟩
  · rintro ⟨hal, hd⟩
    exact (seg_of_aligned' s t hal).props.2.2.2.2.2 hd

theorem rookReach_iff (occ : Sq → Bool) (s t : Sq) :
    (rookReach occ s).contains t = (rookAligned s t && (betweenList s t).all (fun u => !occ u)) := by
  rw [Bool.eq_iff_iff]
  simp only [List.contains_iff_mem, Bool.and_eq_true, List.all_eq_true, Bool.not_eq_true']
  unfold rookReach
  rw [mem_reach_aux rookDirs (fun d hd => List.mem_append_left _ hd), rookAligned_iff_dir]

theorem bishopReach_iff (occ : Sq → Bool) (s t : Sq) :
    (bishopReach occ s).contains t = (bishopAligned s t && (betweenList s t).all (fun u => !occ u)) := by
  rw [Bool.eq_iff_iff]
  simp only [List.contains_iff_mem, Bool.and_eq_true, List.all_eq_true, Bool.not_eq_true']
  unfold bishopReach
  rw [mem_reach_aux bishopDirs (fun d hd => List.mem_append_right _ hd), bishopAligned_iff_dir]

theorem between_all_comm (f : Sq → Bool) (s t : Sq) :
    (betweenList s t).all f = (betweenList t s).all f := by
  rw [Bool.eq_iff_iff]
  simp only [List.all_eq_true]
  constructor
  · intro h u hu; exact h u ((mem_between_comm t s u).1 hu)
  · intro h u hu; exact h u ((mem_between_comm s t u).1 hu)

theorem rookReach_symm (occ : Sq → Bool) (s t : Sq) :
    (rookReach occ s).contains t = (rookReach occ t).contains s := by
  rw [rookReach_iff, rookReach_iff, (aligned_comm s t).1, between_all_comm]

theorem bishopReach_symm (occ : Sq → Bool) (s t : Sq) :
    (bishopReach occ s).contains t = (bishopReach occ t).contains s := by
  rw [bishopReach_iff, bishopReach_iff, (aligned_comm s t).2.1, between_all_comm]

/-- sliding depends on the occupancy of the segment only -/
theorem reach_congr (occ occ' : Sq → Bool) (s t : Sq) (h : ∀ u ∈ betweenList s t, occ u = occ' u) :
    (rookReach occ s).contains t = (rookReach occ' s).contains t ∧
    (bishopReach occ s).contains t = (bishopReach occ' s).contains t := by
  have hall : (betweenList s t).all (fun u => !occ u) = (betweenList s t).all (fun u => !occ' u) := by
    rw [Bool.eq_iff_iff]
    simp only [List.all_eq_true]
    constructor
    · intro g u hu; rw [← h u hu]; exact g u hu
    · intro g u hu; rw [h u hu]; exact g u hu
  rw [rookReach_iff, rookReach_iff, bishopReach_iff, bishopReach_iff, hall]
  exact ⟨rfl, rfl⟩

/-! ### the whole line -/

theorem mem_lineList_iff (a b t : Sq) :
    t ∈ lineList a b ↔ (aligned a b = true ∧ (t = a ∨ (aligned a t = true ∧ (dir a t = dir a b ∨ dir a t = negDir (dir a b))))) := by
  unfold lineList
  cases hal : aligned a b with
  | false => simp
  | true =>
    have hd : dir a b ∈ allDirs := (seg_of_aligned' a b hal).1
    have h1 := mem_walk_iff (dir a b) hd a t
    have h2 := mem_walk_iff (negDir (dir a b)) (negDir_mem_allDirs hd) a t
    simp only [if_true, true_and, List.mem_cons, List.mem_append]
    change t = a ∨ t ∈ walk (dir a b).1 (dir a b).2 7 a ∨
      t ∈ walk (negDir (dir a b)).1 (negDir (dir a b)).2 7 a ↔ _
    rw [h1, h2]
    constructor
    · rintro (h | ⟨h, e⟩ | ⟨h, e⟩)
      · exact Or.inl h
      · exact Or.inr ⟨h, Or.inl e⟩
      · exact Or.inr ⟨h, Or.inr e⟩
    · rintro (h | ⟨h, e | e⟩)
      · exact Or.inl h
      · exact Or.inr (Or.inl ⟨h, e⟩)
      · exact Or.inr (Or.inr ⟨h, e⟩)

/-! ### contact attacks are symmetric; knight jumps are never aligned -/

theorem knightAtt_symm (s t : Sq) : knightAtt s t = knightAtt t s := by
  rw [Bool.eq_iff_iff]
  simp only [knightAtt, absI, dF, dR, Bool.or_eq_true, Bool.and_eq_true, beq_iff_eq]
  omega

theorem kingAtt_symm (s t : Sq) : kingAtt s t = kingAtt t s := by
  rw [Bool.eq_iff_iff]
  simp only [kingAtt, Bool.and_eq_true, bne_iff_ne, ne_eq, decide_eq_true_eq, sq_eq_iff]
  simp only [absI, dF, dR]
  omega

/-- a pawn of colour `c` on `s` attacks `t` iff a pawn of the other colour on `t` attacks `s` -/
theorem pawnAtt_symm (c : Color) (s t : Sq) : pawnAtt c s t = pawnAtt c.flip t s := by
  rw [Bool.eq_iff_iff]
  cases c <;>
  · simp only [pawnAtt, fwd, Color.flip, absI, dF, dR, Bool.and_eq_true, beq_iff_eq]
    omega

theorem knight_not_aligned (s t : Sq) (h : knightAtt s t = true) : aligned s t = false := by
  rw [Bool.eq_false_iff]
  intro hal
  rw [aligned_iff, rookAligned_iff, bishopAligned_iff] at hal
  simp only [knightAtt, absI, dF, dR, Bool.or_eq_true, Bool.and_eq_true, beq_iff_eq] at h
  omega

theorem betweenList_nil_of_dist_le_one (s t : Sq) (h : distanceSpec s t ≤ 1) :
    betweenList s t = [] := by
  rw [List.eq_nil_iff_forall_not_mem]
  intro u hu
  obtain ⟨d, k, m, h1, h2, hlt⟩ := seg_of_mem_between hu
  have := h2.props.2.2.1
  have := h1.2.1
  omega

/-- adjacent (king-step) squares are aligned with an empty segment -/
theorem kingAtt_aligned (s t : Sq) (h : kingAtt s t = true) : aligned s t = true ∧ betweenList s t = [] := by
  simp only [kingAtt, Bool.and_eq_true, bne_iff_ne, ne_eq, decide_eq_true_eq, sq_eq_iff] at h
  simp only [absI, dF, dR] at h
  constructor
  · rw [aligned_iff, rookAligned_iff, bishopAligned_iff]; omega
  · apply betweenList_nil_of_dist_le_one
    simp only [distanceSpec, absI, dF, dR]
    omega

theorem pawnAtt_aligned (c : Color) (s t : Sq) (h : pawnAtt c s t = true) : bishopAligned s t = true ∧ betweenList s t = [] := by
  simp only [pawnAtt, absI, dF, dR, Bool.and_eq_true, beq_iff_eq] at h
  constructor
  · rw [bishopAligned_iff]; cases c <;> simp only [fwd] at h <;> omega
  · apply betweenList_nil_of_dist_le_one
    simp only [distanceSpec, absI, dF, dR]
    cases c <;> simp only [fwd] at h <;> omega

end Chess.Rays
