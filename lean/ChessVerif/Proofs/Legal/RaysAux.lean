/-
Auxiliary coordinate lemmas for `Rays.lean`: squares as (file, rank) pairs, `step`, an index
characterisation of `walk`, and list lemmas about `takeWhile` / "take through the first hit".
-/
import ChessVerif.Spec.Geometry

namespace Chess.RaysAux
open Chess Chess.Spec

/-! ### coordinates -/

theorem fileI_bounds (a : Sq) : 0 ≤ fileI a ∧ fileI a < 8 := by
  unfold fileI; omega

theorem rankI_bounds (a : Sq) : 0 ≤ rankI a ∧ rankI a < 8 := by
  unfold rankI; have := a.isLt; omega

theorem sq_eq_iff (a b : Sq) : a = b ↔ (fileI a = fileI b ∧ rankI a = rankI b) := by
  unfold fileI rankI
  rw [Fin.ext_iff]
  omega

theorem step_eq_some (s t : Sq) (df dr : Int) :
    step s df dr = some t ↔ (fileI t = fileI s + df ∧ rankI t = rankI s + dr) := by
  have hf := fileI_bounds s; have hr := rankI_bounds s
  have hf' := fileI_bounds t; have hr' := rankI_bounds t
  unfold step
  simp only
  split
  · rename_i h
    have hlt : (rankI s + dr).toNat * 8 + (fileI s + df).toNat < 64 := by omega
    simp only [Sq.ofNat?, hlt, dite_true, Option.some.injEq]
    rw [sq_eq_iff]
    simp only [fileI, rankI] at *
    omega
  · rename_i h
    constructor
    · intro h'; cases h'
    · intro h'; omega

theorem step_eq_none (s : Sq) (df dr : Int) :
    step s df dr = none ↔ ¬ (0 ≤ fileI s + df ∧ fileI s + df < 8 ∧ 0 ≤ rankI s + dr ∧ rankI s + dr < 8) := by
  unfold step
  simp only
  split
  · rename_i h
    have hlt : (rankI s + dr).toNat * 8 + (fileI s + df).toNat < 64 := by omega
    simp [Sq.ofNat?, hlt, h]
  · rename_i h
    simp [h]

/-! ### directions, distance, parametrised segments -/

/-- direction from `a` to `b`: signs of the file and rank differences -/
def dirOf (a b : Sq) : Int × Int := (sgn (dF a b), sgn (dR a b))

/-- the eight queen directions -/
def dirs8 : List (Int × Int) := rookDirs ++ bishopDirs

theorem mem_dirs8 (d : Int × Int) : d ∈ dirs8 ↔
    (d = (0, 1) ∨ d = (0, -1) ∨ d = (-1, 0) ∨ d = (1, 0) ∨
     d = (-1, 1) ∨ d = (1, 1) ∨ d = (-1, -1) ∨ d = (1, -1)) := by
  simp [dirs8, rookDirs, bishopDirs]

theorem mem_rookDirs (d : Int × Int) : d ∈ rookDirs ↔
    (d = (0, 1) ∨ d = (0, -1) ∨ d = (-1, 0) ∨ d = (1, 0)) := by
  simp [rookDirs]

theorem mem_bishopDirs (d : Int × Int) : d ∈ bishopDirs ↔
    (d = (-1, 1) ∨ d = (1, 1) ∨ d = (-1, -1) ∨ d = (1, -1)) := by
  simp [bishopDirs]

/-- `b` is `m ≥ 1` steps from `a` in the queen direction `d` -/
def Seg (a b : Sq) (d : Int × Int) (m : Int) : Prop :=
  d ∈ dirs8 ∧ 1 ≤ m ∧ fileI b = fileI a + m * d.1 ∧ rankI b = rankI a + m * d.2

theorem rookAligned_iff (a b : Sq) : rookAligned a b = true ↔
    (¬ (fileI a = fileI b ∧ rankI a = rankI b) ∧ (fileI b = fileI a ∨ rankI b = rankI a)) := by
  simp only [rookAligned, dF, dR, Bool.and_eq_true, bne_iff_ne, ne_eq, Bool.or_eq_true,
    beq_iff_eq, sq_eq_iff]
  omega

theorem bishopAligned_iff (a b : Sq) : bishopAligned a b = true ↔
    (¬ (fileI a = fileI b ∧ rankI a = rankI b) ∧
      (fileI b - fileI a = rankI b - rankI a ∨ fileI b - fileI a = -(rankI b - rankI a))) := by
  simp only [bishopAligned, dF, dR, absI, Bool.and_eq_true, bne_iff_ne, ne_eq,
    beq_iff_eq, sq_eq_iff]
  omega

theorem aligned_iff (a b : Sq) : aligned a b = true ↔
    (rookAligned a b = true ∨ bishopAligned a b = true) := by
  simp only [aligned, Bool.or_eq_true]

theorem Seg.props {a b : Sq} {d : Int × Int} {m : Int} (h : Seg a b d m) :
    aligned a b = true ∧ dirOf a b = d ∧ distanceSpec a b = m ∧
    (rookAligned a b = true ↔ d ∈ rookDirs) ∧ (bishopAligned a b = true ↔ d ∈ bishopDirs) := by
  obtain ⟨hd, hm, hf, hr⟩ := h
  obtain ⟨d1, d2⟩ := d
  simp only [aligned_iff, rookAligned_iff, bishopAligned_iff, dirOf, distanceSpec, absI, sgn, dF, dR,
    Prod.mk.injEq, mem_rookDirs, mem_bishopDirs]
  rw [mem_dirs8] at hd
  simp only [Prod.mk.injEq] at hd hf hr
  rcases hd with ⟨rfl, rfl⟩ | ⟨rfl, rfl⟩ | ⟨rfl, rfl⟩ | ⟨rfl, rfl⟩ | ⟨rfl, rfl⟩ | ⟨rfl, rfl⟩ |
    ⟨rfl, rfl⟩ | ⟨rfl, rfl⟩ <;> omega

theorem exists_seg_of_aligned (a b : Sq) (h : aligned a b = true) : ∃ d m, Seg a b d m := by
  simp only [aligned_iff, rookAligned_iff, bishopAligned_iff] at h
  have hc : (fileI b = fileI a ∧ rankI a < rankI b) ∨ (fileI b = fileI a ∧ rankI b < rankI a) ∨
      (rankI b = rankI a ∧ fileI b < fileI a) ∨ (rankI b = rankI a ∧ fileI a < fileI b) ∨
      (fileI b - fileI a = -(rankI b - rankI a) ∧ fileI b < fileI a) ∨
      (fileI b - fileI a = rankI b - rankI a ∧ fileI a < fileI b) ∨
      (fileI b - fileI a = rankI b - rankI a ∧ fileI b < fileI a) ∨
      (fileI b - fileI a = -(rankI b - rankI a) ∧ fileI a < fileI b) := by omega
  rcases hc with hc | hc | hc | hc | hc | hc | hc | hc
  · exact ⟨(0, 1), rankI b - rankI a, by simp [mem_dirs8], by omega, by simp only; omega, by simp only; omega⟩
  · exact ⟨(0, -1), rankI a - rankI b, by simp [mem_dirs8], by omega, by simp only; omega, by simp only; omega⟩
  · exact ⟨(-1, 0), fileI a - fileI b, by simp [mem_dirs8], by omega, by simp only; omega, by simp only; omega⟩
  · exact ⟨(1, 0), fileI b - fileI a, by simp [mem_dirs8], by omega, by simp only; omega, by simp only; omega⟩
  · exact ⟨(-1, 1), fileI a - fileI b, by simp [mem_dirs8], by omega, by simp only; omega, by simp only; omega⟩
  · exact ⟨(1, 1), fileI b - fileI a, by simp [mem_dirs8], by omega, by simp only; omega, by simp only; omega⟩
  · exact ⟨(-1, -1), fileI a - fileI b, by simp [mem_dirs8], by omega, by simp only; omega, by simp only; omega⟩
  · exact ⟨(1, -1), fileI b - fileI a, by simp [mem_dirs8], by omega, by simp only; omega, by simp only; omega⟩

theorem seg_of_aligned (a b : Sq) (h : aligned a b = true) :
    Seg a b (dirOf a b) (distanceSpec a b) := by
  obtain ⟨d, m, hs⟩ := exists_seg_of_aligned a b h
  obtain ⟨_, h1, h2, _⟩ := hs.props
  rw [h1, h2]; exact hs

theorem Seg.le7 {a b : Sq} {d : Int × Int} {m : Int} (h : Seg a b d m) : m ≤ 7 := by
  have := fileI_bounds a; have := fileI_bounds b; have := rankI_bounds a; have := rankI_bounds b
  obtain ⟨hd, hm, hf, hr⟩ := h
  obtain ⟨d1, d2⟩ := d
  rw [mem_dirs8] at hd
  simp only [Prod.mk.injEq] at hd hf hr
  rcases hd with ⟨rfl, rfl⟩ | ⟨rfl, rfl⟩ | ⟨rfl, rfl⟩ | ⟨rfl, rfl⟩ | ⟨rfl, rfl⟩ | ⟨rfl, rfl⟩ |
    ⟨rfl, rfl⟩ | ⟨rfl, rfl⟩ <;> omega

theorem neg_mem_dirs8 {d : Int × Int} (hd : d ∈ dirs8) : (-d.1, -d.2) ∈ dirs8 := by
  obtain ⟨d1, d2⟩ := d
  rw [mem_dirs8] at hd ⊢
  simp only [Prod.mk.injEq] at hd ⊢
  omega

theorem Seg.rev {a b : Sq} {d : Int × Int} {m : Int} (h : Seg a b d m) :
    Seg b a (-d.1, -d.2) m := by
  obtain ⟨hd, hm, hf, hr⟩ := h
  refine ⟨neg_mem_dirs8 hd, hm, ?_, ?_⟩
  · simp only [Int.mul_neg]; omega
  · simp only [Int.mul_neg]; omega

theorem Seg.sub {a u b : Sq} {d : Int × Int} {k m : Int} (h1 : Seg a u d k) (h2 : Seg a b d m)
    (hlt : k < m) : Seg u b d (m - k) := by
  obtain ⟨hd, hk, hf, hr⟩ := h1
  obtain ⟨_, hm, hf', hr'⟩ := h2
  refine ⟨hd, by omega, ?_, ?_⟩
  · rw [Int.sub_mul]; omega
  · rw [Int.sub_mul]; omega

theorem Seg.add {a u b : Sq} {d : Int × Int} {k j : Int} (h1 : Seg a u d k) (h2 : Seg u b d j) :
    Seg a b d (k + j) := by
  obtain ⟨hd, hk, hf, hr⟩ := h1
  obtain ⟨_, hm, hf', hr'⟩ := h2
  refine ⟨hd, by omega, ?_, ?_⟩
  · rw [Int.add_mul]; omega
  · rw [Int.add_mul]; omega

theorem Seg.eq_of {a b c : Sq} {d : Int × Int} {m : Int} (h1 : Seg a b d m) (h2 : Seg a c d m) :
    b = c := by
  obtain ⟨hd, hk, hf, hr⟩ := h1
  obtain ⟨_, hm, hf', hr'⟩ := h2
  rw [sq_eq_iff]; omega

theorem Seg.unique {a b : Sq} {d d' : Int × Int} {m m' : Int} (h1 : Seg a b d m)
    (h2 : Seg a b d' m') : d = d' ∧ m = m' := by
  obtain ⟨_, e1, e2, _⟩ := h1.props
  obtain ⟨_, e1', e2', _⟩ := h2.props
  exact ⟨e1.symm.trans e1', e2.symm.trans e2'⟩

/-! ### walking, by index -/

theorem walk_getElem? (d : Int × Int) (hd : d ∈ dirs8) (n : Nat) (s t : Sq) (i : Nat) :
    (walk d.1 d.2 n s)[i]? = some t ↔ (i < n ∧ Seg s t d (i + 1)) := by
  have hd' := (mem_dirs8 d).1 hd
  induction n generalizing s i with
  | zero => simp [walk]
  | succ n ih =>
    have := fileI_bounds s; have := fileI_bounds t; have := rankI_bounds s; have := rankI_bounds t
    rw [walk]
    cases hstep : step s d.1 d.2 with
    | none =>
      rw [step_eq_none] at hstep
      simp only [List.getElem?_nil, Seg, hd, true_and]
      constructor
      · intro h; cases h
      · rintro ⟨_, _, hf, hr⟩
        exfalso
        obtain ⟨d1, d2⟩ := d
        simp only [Prod.mk.injEq] at hd' hf hr hstep
        rcases hd' with ⟨rfl, rfl⟩ | ⟨rfl, rfl⟩ | ⟨rfl, rfl⟩ | ⟨rfl, rfl⟩ | ⟨rfl, rfl⟩ |
          ⟨rfl, rfl⟩ | ⟨rfl, rfl⟩ | ⟨rfl, rfl⟩ <;> omega
    | some t' =>
      rw [step_eq_some] at hstep
      cases i with
      | zero =>
        simp only [List.getElem?_cons_zero, Option.some.injEq, Seg, hd, true_and]
        rw [sq_eq_iff]
        omega
      | succ i =>
        simp only [List.getElem?_cons_succ]
        refine (ih t' i).trans ?_
        simp only [Seg, hd, true_and]
        obtain ⟨d1, d2⟩ := d
        simp only [Prod.mk.injEq] at hd' hstep ⊢
        rcases hd' with ⟨rfl, rfl⟩ | ⟨rfl, rfl⟩ | ⟨rfl, rfl⟩ | ⟨rfl, rfl⟩ | ⟨rfl, rfl⟩ |
          ⟨rfl, rfl⟩ | ⟨rfl, rfl⟩ | ⟨rfl, rfl⟩ <;> omega

theorem walk7_getElem? (d : Int × Int) (hd : d ∈ dirs8) (s t : Sq) (i : Nat) :
    (walk d.1 d.2 7 s)[i]? = some t ↔ Seg s t d (i + 1) := by
  rw [walk_getElem? d hd]
  constructor
  · exact fun h => h.2
  · intro h; have := h.le7; exact ⟨by omega, h⟩

theorem mem_walk7_iff (d : Int × Int) (hd : d ∈ dirs8) (s t : Sq) :
    t ∈ walk d.1 d.2 7 s ↔ ∃ m, Seg s t d m := by
  rw [List.mem_iff_getElem?]
  constructor
  · rintro ⟨i, hi⟩; exact ⟨_, (walk7_getElem? d hd s t i).1 hi⟩
  · rintro ⟨m, hm⟩
    refine ⟨(m - 1).toNat, (walk7_getElem? d hd s t _).2 ?_⟩
    have := hm.2.1
    have e : (((m - 1).toNat : Nat) : Int) + 1 = m := by omega
    rw [e]; exact hm

/-! ### list lemmas -/

theorem mem_takeWhile_iff {α : Type} (p : α → Bool) (l : List α) (u : α) :
    u ∈ l.takeWhile p ↔ ∃ i : Nat, l[i]? = some u ∧ ∀ j x, j ≤ i → l[j]? = some x → p x = true := by
  induction l with
  | nil => simp
  | cons y ys ih =>
    rw [List.takeWhile_cons]
    cases hp : p y with
    | false =>
      simp only [Bool.false_eq_true, if_false, List.not_mem_nil, false_iff]
      rintro ⟨i, _, hall⟩
      have := hall 0 y (Nat.zero_le _) rfl
      rw [hp] at this; cases this
    | true =>
      simp only [if_true, List.mem_cons, ih]
      constructor
      · rintro (rfl | ⟨i, hi, hall⟩)
        · refine ⟨0, rfl, ?_⟩
          intro j x hj hx
          have : j = 0 := by omega
          subst this
          simp only [List.getElem?_cons_zero, Option.some.injEq] at hx
          subst hx; exact hp
        · refine ⟨i + 1, by simpa using hi, ?_⟩
          intro j x hj hx
          cases j with
          | zero =>
            simp only [List.getElem?_cons_zero, Option.some.injEq] at hx
            subst hx; exact hp
          | succ j =>
            simp only [List.getElem?_cons_succ] at hx
            exact hall j x (by omega) hx
      · rintro ⟨i, hi, hall⟩
        cases i with
        | zero =>
          simp only [List.getElem?_cons_zero, Option.some.injEq] at hi
          exact Or.inl hi.symm
        | succ i =>
          simp only [List.getElem?_cons_succ] at hi
          refine Or.inr ⟨i, hi, ?_⟩
          intro j x hj hx
          exact hall (j + 1) x (by omega) (by simpa using hx)

/-- the elements of a list up to and including the first one satisfying `p` -/
def takeThrough {α : Type} (p : α → Bool) : List α → List α
  | [] => []
  | x :: xs => if p x then [x] else x :: takeThrough p xs

theorem mem_takeThrough_iff {α : Type} (p : α → Bool) (l : List α) (u : α) :
    u ∈ takeThrough p l ↔ ∃ i : Nat, l[i]? = some u ∧ ∀ j x, j < i → l[j]? = some x → p x = false := by
  induction l with
  | nil => simp [takeThrough]
  | cons y ys ih =>
    rw [takeThrough]
    cases hp : p y with
    | true =>
      simp only [if_true, List.mem_singleton]
      constructor
      · rintro rfl
        exact ⟨0, rfl, fun j x hj _ => absurd hj (Nat.not_lt_zero _)⟩
      · rintro ⟨i, hi, hall⟩
        cases i with
        | zero =>
          simp only [List.getElem?_cons_zero, Option.some.injEq] at hi
          exact hi.symm
        | succ i =>
          have := hall 0 y (Nat.succ_pos _) rfl
          rw [hp] at this; cases this
    | false =>
      simp only [Bool.false_eq_true, if_false, List.mem_cons, ih]
      constructor
      · rintro (rfl | ⟨i, hi, hall⟩)
        · exact ⟨0, rfl, fun j x hj _ => absurd hj (Nat.not_lt_zero _)⟩
        · refine ⟨i + 1, by simpa using hi, ?_⟩
          intro j x hj hx
          cases j with
          | zero =>
            simp only [List.getElem?_cons_zero, Option.some.injEq] at hx
            subst hx; exact hp
          | succ j =>
            simp only [List.getElem?_cons_succ] at hx
            exact hall j x (by omega) hx
      · rintro ⟨i, hi, hall⟩
        cases i with
        | zero =>
          simp only [List.getElem?_cons_zero, Option.some.injEq] at hi
          exact Or.inl hi.symm
        | succ i =>
          simp only [List.getElem?_cons_succ] at hi
          refine Or.inr ⟨i, hi, ?_⟩
          intro j x hj hx
          exact hall (j + 1) x (by omega) (by simpa using hx)

theorem slide_eq_takeThrough (occ : Sq → Bool) (df dr : Int) (n : Nat) (s : Sq) :
    slide occ df dr n s = takeThrough occ (walk df dr n s) := by
  induction n generalizing s with
  | zero => simp [slide, walk, takeThrough]
  | succ n ih =>
    rw [slide, walk]
    cases step s df dr with
    | none => simp [takeThrough]
    | some t =>
      simp only [takeThrough]
      rw [ih]

/-! ### segments and sliding in terms of `Seg` -/

theorem mem_between_iff (a b u : Sq) :
    u ∈ betweenList a b ↔
      (aligned a b = true ∧ ∃ k, Seg a u (dirOf a b) k ∧ k < distanceSpec a b) := by
  unfold betweenList
  cases hal : aligned a b with
  | false => simp
  | true =>
    simp only [if_true, true_and]
    have hs := seg_of_aligned a b hal
    have hd := hs.1
    have hw := walk7_getElem? (dirOf a b) hd a
    change u ∈ (walk (dirOf a b).1 (dirOf a b).2 7 a).takeWhile (· != b) ↔ _
    rw [mem_takeWhile_iff]
    constructor
    · rintro ⟨i, hi, hall⟩
      refine ⟨(i : Int) + 1, (hw u i).1 hi, ?_⟩
      apply Classical.byContradiction
      intro hge
      have h1 := hs.2.1
      have e : (((distanceSpec a b - 1).toNat : Nat) : Int) + 1 = distanceSpec a b := by omega
      have hb : (walk (dirOf a b).1 (dirOf a b).2 7 a)[(distanceSpec a b - 1).toNat]? = some b := by
        rw [hw, e]; exact hs
      have := hall _ b (by omega) hb
      simp at this
    · rintro ⟨k, hk, hlt⟩
      have h1 := hk.2.1
      have e : (((k - 1).toNat : Nat) : Int) + 1 = k := by omega
      refine ⟨(k - 1).toNat, by rw [hw, e]; exact hk, ?_⟩
      intro j x hj hx
      rw [hw] at hx
      simp only [bne_iff_ne, ne_eq]
      rintro rfl
      have := (hx.unique hs).2
      omega

theorem mem_slide_iff (occ : Sq → Bool) (d : Int × Int) (hd : d ∈ dirs8) (s t : Sq) :
    t ∈ slide occ d.1 d.2 7 s ↔ ((∃ m, Seg s t d m) ∧ ∀ u ∈ betweenList s t, occ u = false) := by
  have hw := walk7_getElem? d hd s
  rw [slide_eq_takeThrough, mem_takeThrough_iff]
  constructor
  · rintro ⟨i, hi, hall⟩
    rw [hw] at hi
    refine ⟨⟨_, hi⟩, ?_⟩
    intro u hu
    rw [mem_between_iff] at hu
    obtain ⟨_, k, hk, hlt⟩ := hu
    obtain ⟨_, e1, e2, _⟩ := hi.props
    rw [e1] at hk; rw [e2] at hlt
    have h1 := hk.2.1
    have e : (((k - 1).toNat : Nat) : Int) + 1 = k := by omega
    exact hall (k - 1).toNat u (by omega) (by rw [hw, e]; exact hk)
  · rintro ⟨⟨m, hm⟩, hall⟩
    have h1 := hm.2.1
    have e : (((m - 1).toNat : Nat) : Int) + 1 = m := by omega
    refine ⟨(m - 1).toNat, by rw [hw, e]; exact hm, ?_⟩
    intro j x hj hx
    rw [hw] at hx
    apply hall
    rw [mem_between_iff]
    obtain ⟨hal, e1, e2, _⟩ := hm.props
    refine ⟨hal, (j : Int) + 1, by rw [e1]; exact hx, by omega⟩

theorem mem_between_of_seg {a u b : Sq} {d : Int × Int} {k m : Int} (h1 : Seg a u d k)
    (h2 : Seg a b d m) (hlt : k < m) : u ∈ betweenList a b := by
  rw [mem_between_iff]
  obtain ⟨hal, e1, e2, _⟩ := h2.props
  exact ⟨hal, k, by rw [e1]; exact h1, by rw [e2]; exact hlt⟩

theorem seg_of_mem_between {a u b : Sq} (h : u ∈ betweenList a b) :
    ∃ d k m, Seg a u d k ∧ Seg a b d m ∧ k < m := by
  rw [mem_between_iff] at h
  obtain ⟨hal, k, hk, hlt⟩ := h
  exact ⟨_, k, _, hk, seg_of_aligned a b hal, hlt⟩

theorem not_aligned_self (a : Sq) : aligned a a = false := by
  simp [aligned, rookAligned, bishopAligned]

end Chess.RaysAux
