/-
Well-formedness is an invariant of legal play: the parser and the standard constructor establish
it, every legal move preserves it.  Hence every theorem stated for well-formed boards holds for
every position reachable by legal play from the standard start or from any parsed position.
-/
import ChessVerif.Proofs.Legal.MoveValid
import ChessVerif.Proofs.Legal.MoveHash
import ChessVerif.Proofs.Legal.MoveIncr
import ChessVerif.Props.C06

namespace Chess.Legal
open Chess Chess.Spec

/-- a legal move of the specification is in particular pseudo-legal -/
theorem pseudo_of_legal (p : Position) (m : Move) (hl : p.legal m = true) :
    ∃ κ, p.pseudo m = some κ := by
  unfold Position.legal at hl
  rcases hps : p.pseudo m with _ | κ
  · rw [hps] at hl; cases hl
  · exact ⟨κ, rfl⟩

/-- **`move_WF`**: a legal move on a well-formed board yields a well-formed board -/
theorem move_WF (b : Board) (h : b.WF = true) (m : Move) (hl : b.isLegal m = true) :
    (b.moveUnchecked m).WF = true := by
  have hl' : (abs b).legal m = true := by rw [← isLegal_iff_spec b h m]; exact hl
  obtain ⟨κ, hps⟩ := pseudo_of_legal _ _ hl'
  have h1 := move_partition b h m κ hps
  have h2 := move_validate b h m hl'
  have h3 := move_castle_lt b h m
  have h4 := move_pinInfo b h m hl'
  have h5 := move_hash b h m κ hps
  unfold Board.WF
  rw [h1, h2, h4, h5]
  simp only [Bool.and_eq_true, beq_iff_eq, decide_eq_true_eq, Bool.and_self, true_and, and_true]
  exact h3

set_option maxRecDepth 1000000 in
theorem standard_WF : Board.standard.WF = true := by decide +kernel

/-- every board reachable by legal moves from a well-formed board is well-formed -/
theorem reachable_WF (b₀ b : Board) (h₀ : b₀.WF = true) (hr : Board.Reachable b₀ b) : b.WF = true := by
  induction hr with
  | refl => exact h₀
  | step m _ hl ih => exact move_WF _ ih m hl

/-- **C01 for every reachable position**: from the standard start … -/
theorem legals_iff_reachable_standard (b : Board) (hr : Board.Reachable Board.standard b) (m : Move) :
    m ∈ b.legalsList ↔ (abs b).legal m = true :=
  legals_iff b (reachable_WF _ _ standard_WF hr) m

/-- … and from any position the parser accepts -/
theorem legals_iff_reachable_parsed (s : List Byte) (b₀ b : Board) (hp : Fen.parseFen s = .ok b₀)
    (hr : Board.Reachable b₀ b) (m : Move) :
    m ∈ b.legalsList ↔ (abs b).legal m = true :=
  legals_iff b (reachable_WF _ _ (Props.C06.parse_WF s b₀ hp) hr) m

/-! ### the well-formed-board theorems, for every reachable position -/

/-- positions reachable by legal play from the standard start are well-formed -/
theorem reachable_standard_WF (b : Board) (hr : Board.Reachable Board.standard b) : b.WF = true :=
  reachable_WF _ _ standard_WF hr

/-- positions reachable by legal play from a parsed position are well-formed -/
theorem reachable_parsed_WF (s : List Byte) (b₀ b : Board) (hp : Fen.parseFen s = .ok b₀)
    (hr : Board.Reachable b₀ b) : b.WF = true :=
  reachable_WF _ _ (Props.C06.parse_WF s b₀ hp) hr

/-- reachability is transitive -/
theorem Reachable_trans {b₀ b₁ b₂ : Board} (h₁ : Board.Reachable b₀ b₁) (h₂ : Board.Reachable b₁ b₂) :
    Board.Reachable b₀ b₂ := by
  induction h₂ with
  | refl => exact h₁
  | step m _ hl ih => exact Board.Reachable.step m ih hl

/-- C01 (each exactly once) -/
theorem legals_nodup_reachable (b₀ b : Board) (h₀ : b₀.WF = true) (hr : Board.Reachable b₀ b) :
    b.legalsList.Nodup :=
  legals_nodup b (reachable_WF _ _ h₀ hr)

theorem legals_nodup_reachable_standard (b : Board) (hr : Board.Reachable Board.standard b) :
    b.legalsList.Nodup :=
  legals_nodup b (reachable_standard_WF b hr)

theorem legals_nodup_reachable_parsed (s : List Byte) (b₀ b : Board) (hp : Fen.parseFen s = .ok b₀)
    (hr : Board.Reachable b₀ b) : b.legalsList.Nodup :=
  legals_nodup b (reachable_parsed_WF s b₀ b hp hr)

/-- C01 (single-move query) -/
theorem isLegal_iff_spec_reachable (b₀ b : Board) (h₀ : b₀.WF = true) (hr : Board.Reachable b₀ b)
    (m : Move) : b.isLegal m = (abs b).legal m :=
  isLegal_iff_spec b (reachable_WF _ _ h₀ hr) m

theorem isLegal_iff_spec_reachable_standard (b : Board) (hr : Board.Reachable Board.standard b)
    (m : Move) : b.isLegal m = (abs b).legal m :=
  isLegal_iff_spec b (reachable_standard_WF b hr) m

theorem isLegal_iff_spec_reachable_parsed (s : List Byte) (b₀ b : Board)
    (hp : Fen.parseFen s = .ok b₀) (hr : Board.Reachable b₀ b) (m : Move) :
    b.isLegal m = (abs b).legal m :=
  isLegal_iff_spec b (reachable_parsed_WF s b₀ b hp hr) m

/-- C03: the stored checkers answer "is the side to move in check" -/
theorem inCheck_iff_reachable (b₀ b : Board) (h₀ : b₀.WF = true) (hr : Board.Reachable b₀ b) :
    b.inCheck = (abs b).inCheck b.turn :=
  inCheck_iff b (reachable_WF _ _ h₀ hr)

theorem inCheck_iff_reachable_standard (b : Board) (hr : Board.Reachable Board.standard b) :
    b.inCheck = (abs b).inCheck b.turn :=
  inCheck_iff b (reachable_standard_WF b hr)

theorem inCheck_iff_reachable_parsed (s : List Byte) (b₀ b : Board) (hp : Fen.parseFen s = .ok b₀)
    (hr : Board.Reachable b₀ b) : b.inCheck = (abs b).inCheck b.turn :=
  inCheck_iff b (reachable_parsed_WF s b₀ b hp hr)

/-- **C02**: on a well-formed board (clocks below saturation) the checked move succeeds exactly on
the legal moves of the rules, and the board it yields is well-formed and abstracts to the successor
position the rules prescribe -/
theorem moveNew_abs (b b' : Board) (h : b.WF = true) (m : Move) (hh : b.half < 65535)
    (hf : b.full < 65535) (hm : b.moveNew m = some b') :
    (abs b).legal m = true ∧ b'.WF = true ∧ abs b' = (abs b).apply m := by
  unfold Board.moveNew at hm
  split at hm
  · next hl =>
    cases hm
    have hl' : (abs b).legal m = true := by rw [← isLegal_iff_spec b h m]; exact hl
    obtain ⟨κ, hps⟩ := pseudo_of_legal _ _ hl'
    refine ⟨hl', move_WF b h m hl, ?_⟩
    obtain ⟨e1, e2, e3, e4, e5, e6⟩ := move_abs b h m κ hps hh hf
    unfold Position.apply
    rw [hps]
    show abs (b.moveUnchecked m) = (abs b).applyKind m κ
    generalize abs (b.moveUnchecked m) = a at *
    generalize (abs b).applyKind m κ = q at *
    obtain ⟨pa, tu, ri, ep, ha, fu⟩ := a
    obtain ⟨pa', tu', ri', ep', ha', fu'⟩ := q
    simp only at e1 e2 e3 e4 e5 e6
    have e3' : ri = ri' := funext fun sd => funext fun c => e3 sd c
    subst e1 e2 e3' e4 e5 e6
    rfl
  · cases hm

/-- the checked move refuses exactly the illegal moves -/
theorem moveNew_none_iff (b : Board) (h : b.WF = true) (m : Move) :
    b.moveNew m = none ↔ (abs b).legal m = false := by
  unfold Board.moveNew
  rw [isLegal_iff_spec b h m]
  cases (abs b).legal m <;> simp

theorem moveNew_abs_reachable (b₀ b b' : Board) (h₀ : b₀.WF = true) (hr : Board.Reachable b₀ b)
    (m : Move) (hh : b.half < 65535) (hf : b.full < 65535) (hm : b.moveNew m = some b') :
    (abs b).legal m = true ∧ Board.Reachable b₀ b' ∧ abs b' = (abs b).apply m := by
  have hw := reachable_WF _ _ h₀ hr
  obtain ⟨h1, _, h3⟩ := moveNew_abs b b' hw m hh hf hm
  refine ⟨h1, ?_, h3⟩
  have hl : b.isLegal m = true := by rw [isLegal_iff_spec b hw m]; exact h1
  have : b' = b.moveUnchecked m := by
    unfold Board.moveNew at hm; rw [hl] at hm; simpa using hm.symm
  rw [this]
  exact Board.Reachable.step m hr hl

theorem moveNew_abs_reachable_standard (b b' : Board) (hr : Board.Reachable Board.standard b)
    (m : Move) (hh : b.half < 65535) (hf : b.full < 65535) (hm : b.moveNew m = some b') :
    (abs b).legal m = true ∧ Board.Reachable Board.standard b' ∧ abs b' = (abs b).apply m :=
  moveNew_abs_reachable _ b b' standard_WF hr m hh hf hm

theorem moveNew_abs_reachable_parsed (s : List Byte) (b₀ b b' : Board) (hp : Fen.parseFen s = .ok b₀)
    (hr : Board.Reachable b₀ b) (m : Move) (hh : b.half < 65535) (hf : b.full < 65535)
    (hm : b.moveNew m = some b') :
    (abs b).legal m = true ∧ Board.Reachable b₀ b' ∧ abs b' = (abs b).apply m :=
  moveNew_abs_reachable _ b b' (Props.C06.parse_WF s b₀ hp) hr m hh hf hm

end Chess.Legal
