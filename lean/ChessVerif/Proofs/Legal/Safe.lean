/-
King safety after a move of a non-king piece, in terms of the board's pin/check information:
the three regimes of `collect_moves` (no check, one checker, two or more checkers), and the
`line` test used for pinned pieces.
-/
import ChessVerif.Proofs.Legal.PinInfo

namespace Chess.Legal
open Chess Chess.Spec Chess.Rays

/-- `X` pins `s` against `k`: an enemy slider aligned with `k` whose segment to `k` contains `s` and
no other occupied square -/
def pinsThrough (p : Position) (opp : Color) (k X s : Sq) : Prop :=
  sliderOn p.pieceAt opp X k = true ∧ s ∈ betweenList k X ∧ ∀ v ∈ betweenList k X, p.occupied v = true → v = s

/-! ### mailbox-level helpers -/

/-- `x` attacks `k` in `p`: a contact attacker, or a slider with a clear segment -/
def isChecker (p : Position) (opp : Color) (k x : Sq) : Prop :=
  contactOn p.pieceAt opp x k = true ∨
    (sliderOn p.pieceAt opp x k = true ∧ clear p.occupied x k = true)

theorem sliderOn_facts (at_ : Sq → Option (Color × Piece)) (c : Color) (x t : Sq)
    (h : sliderOn at_ c x t = true) : (∃ pc, at_ x = some (c, pc)) ∧ aligned x t = true := by
  unfold sliderOn at h
  rcases hx : at_ x with _ | ⟨c', pc⟩
  · rw [hx] at h; cases h
  · rw [hx] at h
    cases pc <;> simp only [Bool.and_eq_true, beq_iff_eq, Bool.false_eq_true] at h
    · obtain ⟨rfl, h2⟩ := h
      exact ⟨⟨_, rfl⟩, (RaysAux.aligned_iff _ _).2 (Or.inr h2)⟩
    · obtain ⟨rfl, h2⟩ := h
      exact ⟨⟨_, rfl⟩, (RaysAux.aligned_iff _ _).2 (Or.inl h2)⟩
    · obtain ⟨rfl, h2⟩ := h
      exact ⟨⟨_, rfl⟩, h2⟩

theorem contactOn_facts (at_ : Sq → Option (Color × Piece)) (c : Color) (x t : Sq)
    (h : contactOn at_ c x t = true) :
    (∃ pc, at_ x = some (c, pc)) ∧ betweenList x t = [] ∧ sliderOn at_ c x t = false := by
  unfold contactOn at h
  unfold sliderOn
  rcases hx : at_ x with _ | ⟨c', pc⟩
  · rw [hx] at h; cases h
  · rw [hx] at h
    cases pc <;> simp only [Bool.and_eq_true, beq_iff_eq, Bool.false_eq_true] at h
    · obtain ⟨rfl, h2⟩ := h
      exact ⟨⟨_, rfl⟩, (pawnAtt_aligned _ _ _ h2).2, rfl⟩
    · obtain ⟨rfl, h2⟩ := h
      exact ⟨⟨_, rfl⟩, betweenList_nil_of_not_aligned _ _ (knight_not_aligned _ _ h2), rfl⟩
    · obtain ⟨rfl, h2⟩ := h
      exact ⟨⟨_, rfl⟩, (kingAtt_aligned _ _ h2).2, rfl⟩

theorem isChecker_piece {p : Position} {opp : Color} {k x : Sq} (h : isChecker p opp k x) :
    ∃ pc, p.pieceAt x = some (opp, pc) := by
  rcases h with h | ⟨h, _⟩
  · exact (contactOn_facts _ _ _ _ h).1
  · exact (sliderOn_facts _ _ _ _ h).1

theorem occupied_of_piece {p : Position} {x : Sq} {c : Color} (h : ∃ pc, p.pieceAt x = some (c, pc)) :
    p.occupied x = true := by
  obtain ⟨pc, h⟩ := h
  simp only [Position.occupied, h, Option.isSome_some]

theorem ne_of_colors {p : Position} {x s : Sq} {c : Color} {pc : Piece}
    (hx : ∃ pc0, p.pieceAt x = some (c.flip, pc0)) (hs : p.pieceAt s = some (c, pc)) : x ≠ s := by
  rintro rfl
  obtain ⟨pc0, hx⟩ := hx
  rw [hx] at hs
  injection hs with hs
  injection hs with h1 _
  exact Color.flip_ne c h1

theorem clear_forall {occ : Sq → Bool} {x k : Sq} (h : clear occ x k = true) :
    ∀ v ∈ betweenList k x, occ v = false := by
  unfold clear at h
  simp only [List.all_eq_true, Bool.not_eq_true'] at h
  intro v hv
  exact h v ((mem_between_comm k x v).1 hv)

/-- two occupied squares aligned with `k`, whose segments to `k` hold no occupied square other than
`s`, and whose closed segments share a point, coincide -/
theorem seg_share (occ : Sq → Bool) (k A B s d : Sq)
    (hA : aligned k A = true) (hB : aligned k B = true)
    (hoA : occ A = true) (hoB : occ B = true) (hAs : A ≠ s) (hBs : B ≠ s)
    (hfA : ∀ v ∈ betweenList k A, occ v = true → v = s)
    (hfB : ∀ v ∈ betweenList k B, occ v = true → v = s)
    (hdA : d = A ∨ d ∈ betweenList k A) (hdB : d = B ∨ d ∈ betweenList k B) : A = B := by
  have h1 := dir_of_mem_segment k A d (hdA.elim (fun e => Or.inr ⟨e, hA⟩) Or.inl)
  have h2 := dir_of_mem_segment k B d (hdB.elim (fun e => Or.inr ⟨e, hB⟩) Or.inl)
  rcases same_dir_cases k A B hA hB (h1.2.symm.trans h2.2) with h | h | h
  · exact h
  · exact absurd (hfB A h hoA) hAs
  · exact absurd (hfA B h hoB) hBs

/-- a piece is pinned by at most one slider -/
theorem pinner_unique (p : Position) (opp : Color) (k X Y s : Sq)
    (hX : pinsThrough p opp k X s) (hY : pinsThrough p opp k Y s) : X = Y := by
  obtain ⟨hX1, hX2, hX3⟩ := hX
  obtain ⟨hY1, hY2, hY3⟩ := hY
  have fX := sliderOn_facts _ _ _ _ hX1
  have fY := sliderOn_facts _ _ _ _ hY1
  refine seg_share p.occupied k X Y s s ?_ ?_ (occupied_of_piece fX.1) (occupied_of_piece fY.1)
    ?_ ?_ hX3 hY3 (Or.inr hX2) (Or.inr hY2)
  · rw [aligned_symm]; exact fX.2
  · rw [aligned_symm]; exact fY.2
  · rintro rfl; exact (endpoints_not_mem k X).2 hX2
  · rintro rfl; exact (endpoints_not_mem k Y).2 hY2

/-- a checker does not pin anything (its segment is clear, or it is no slider) -/
theorem checker_not_pinner {p : Position} {opp : Color} {k X s : Sq}
    (hc : isChecker p opp k X) (hp : pinsThrough p opp k X s) (hs : p.occupied s = true) : False := by
  rcases hc with h | ⟨_, h⟩
  · have := (contactOn_facts _ _ _ _ h).2.2
    rw [hp.1] at this; cases this
  · have := clear_forall h s hp.2.1
    rw [hs] at this; cases this

theorem basic_ne (p : Position) (c : Color) (k s d : Sq) (pc : Piece)
    (hk : p.pieceAt k = some (c, .king)) (hsrc : p.pieceAt s = some (c, pc)) (hpc : pc ≠ .king)
    (hd : p.colorAt d ≠ some c) : k ≠ s ∧ k ≠ d ∧ s ≠ d := by
  refine ⟨?_, ?_, ?_⟩
  · rintro rfl
    rw [hk] at hsrc
    injection hsrc with h
    injection h with _ h2
    exact hpc h2.symm
  · rintro rfl
    apply hd
    simp only [Position.colorAt, hk, Option.map_some]
  · rintro rfl
    apply hd
    simp only [Position.colorAt, hsrc, Option.map_some]

/-- **attack after a move**, in terms of the checkers and pinners of the position before -/
theorem attacked_after_iff (p q : Position) (c : Color) (k s d : Sq) (pc pc' : Piece)
    (hsrc : p.pieceAt s = some (c, pc)) (hks : k ≠ s) (hkd : k ≠ d) (hsd : s ≠ d)
    (hq : q.pieceAt = moveAt p.pieceAt s d (some (c, pc'))) :
    q.attacked k c.flip = true ↔
      ∃ x, x ≠ d ∧ (contactOn p.pieceAt c.flip x k = true ∨
        (sliderOn p.pieceAt c.flip x k = true ∧ clear p.occupied x k = true ∧ d ∉ betweenList k x) ∨
        (pinsThrough p c.flip k x s ∧ d ∉ betweenList k x)) := by
  rw [attacked_after_move p s d k c pc' hks hkd hsd q hq]
  have hos : p.occupied s = true := occupied_of_piece ⟨pc, hsrc⟩
  apply exists_congr
  intro x
  constructor
  · rintro ⟨hxd, _, h | ⟨hsl, hdn, hall⟩⟩
    · exact ⟨hxd, Or.inl h⟩
    · have hdn' : d ∉ betweenList k x := fun e => hdn ((mem_between_comm k x d).1 e)
      refine ⟨hxd, Or.inr ?_⟩
      by_cases hsx : s ∈ betweenList x k
      · refine Or.inr ⟨⟨hsl, (mem_between_comm x k s).1 hsx, fun v hv ho => ?_⟩, hdn'⟩
        apply Classical.byContradiction
        intro hne
        have := hall v ((mem_between_comm k x v).1 hv) hne
        rw [this] at ho; cases ho
      · refine Or.inl ⟨hsl, ?_, hdn'⟩
        unfold clear
        simp only [List.all_eq_true, Bool.not_eq_true']
        intro u hu
        exact hall u hu (fun e => hsx (e ▸ hu))
  · rintro ⟨hxd, h | ⟨h1, h2, h3⟩ | ⟨h1, h3⟩⟩
    · exact ⟨hxd, ne_of_colors (contactOn_facts _ _ _ _ h).1 hsrc, Or.inl h⟩
    · refine ⟨hxd, ne_of_colors (sliderOn_facts _ _ _ _ h1).1 hsrc, Or.inr ⟨h1, ?_, ?_⟩⟩
      · exact fun e => h3 ((mem_between_comm x k d).1 e)
      · intro u hu _
        exact clear_forall h2 u ((mem_between_comm x k u).1 hu)
    · refine ⟨hxd, ne_of_colors (sliderOn_facts _ _ _ _ h1.1).1 hsrc, Or.inr ⟨h1.1, ?_, ?_⟩⟩
      · exact fun e => h3 ((mem_between_comm x k d).1 e)
      · intro u hu hne
        cases ho : p.occupied u with
        | false => rfl
        | true => exact absurd (h1.2.2 u ((mem_between_comm x k u).1 hu) ho) hne

/-- a checker must be captured or blocked by a safe move -/
theorem neutralise {p : Position} {c : Color} {k s d x : Sq}
    (hx : isChecker p c.flip k x)
    (hna : ¬ ∃ x, x ≠ d ∧ (contactOn p.pieceAt c.flip x k = true ∨
        (sliderOn p.pieceAt c.flip x k = true ∧ clear p.occupied x k = true ∧ d ∉ betweenList k x) ∨
        (pinsThrough p c.flip k x s ∧ d ∉ betweenList k x))) :
    d = x ∨ (sliderOn p.pieceAt c.flip x k = true ∧ clear p.occupied x k = true ∧ d ∈ betweenList k x) := by
  by_cases hdx : d = x
  · exact Or.inl hdx
  · right
    rcases hx with h | ⟨h1, h2⟩
    · exact absurd ⟨x, Ne.symm hdx, Or.inl h⟩ hna
    · refine ⟨h1, h2, ?_⟩
      apply Classical.byContradiction
      intro hn
      exact hna ⟨x, Ne.symm hdx, Or.inr (Or.inl ⟨h1, h2, hn⟩)⟩

theorem pins_constraint {p : Position} {c : Color} {k s d : Sq}
    (hna : ¬ ∃ x, x ≠ d ∧ (contactOn p.pieceAt c.flip x k = true ∨
        (sliderOn p.pieceAt c.flip x k = true ∧ clear p.occupied x k = true ∧ d ∉ betweenList k x) ∨
        (pinsThrough p c.flip k x s ∧ d ∉ betweenList k x))) :
    ∀ X, pinsThrough p c.flip k X s → (d = X ∨ d ∈ betweenList k X) := by
  intro X hX
  by_cases hdX : d = X
  · exact Or.inl hdX
  · right
    apply Classical.byContradiction
    intro hn
    exact hna ⟨X, Ne.symm hdX, Or.inr (Or.inr ⟨hX, hn⟩)⟩

/-- no check, mailbox form -/
theorem safe_no_check_abs (p q : Position) (c : Color) (k s d : Sq) (pc pc' : Piece)
    (hk : p.pieceAt k = some (c, .king)) (hsrc : p.pieceAt s = some (c, pc)) (hpc : pc ≠ .king)
    (hd : p.colorAt d ≠ some c) (hnc : ∀ x, ¬ isChecker p c.flip k x)
    (hq : q.pieceAt = moveAt p.pieceAt s d (some (c, pc'))) :
    q.attacked k c.flip = false ↔
      ∀ X, pinsThrough p c.flip k X s → (d = X ∨ d ∈ betweenList k X) := by
  obtain ⟨hks, hkd, hsd⟩ := basic_ne p c k s d pc hk hsrc hpc hd
  rw [Bool.eq_false_iff, Ne, attacked_after_iff p q c k s d pc pc' hsrc hks hkd hsd hq]
  constructor
  · exact pins_constraint
  · rintro hall ⟨x, hxd, h | ⟨h1, h2, _⟩ | ⟨h1, h2⟩⟩
    · exact hnc x (Or.inl h)
    · exact hnc x (Or.inr ⟨h1, h2⟩)
    · rcases hall x h1 with e | e
      · exact hxd e.symm
      · exact h2 e

/-- one checker, mailbox form -/
theorem safe_one_check_abs (p q : Position) (c : Color) (k s d C : Sq) (pc pc' : Piece)
    (hk : p.pieceAt k = some (c, .king)) (hsrc : p.pieceAt s = some (c, pc)) (hpc : pc ≠ .king)
    (hd : p.colorAt d ≠ some c) (hC : ∀ x, isChecker p c.flip k x ↔ x = C)
    (hq : q.pieceAt = moveAt p.pieceAt s d (some (c, pc'))) :
    q.attacked k c.flip = false ↔
      ((¬ ∃ X, pinsThrough p c.flip k X s) ∧ (d = C ∨ d ∈ betweenList k C)) := by
  obtain ⟨hks, hkd, hsd⟩ := basic_ne p c k s d pc hk hsrc hpc hd
  have hos : p.occupied s = true := occupied_of_piece ⟨pc, hsrc⟩
  rw [Bool.eq_false_iff, Ne, attacked_after_iff p q c k s d pc pc' hsrc hks hkd hsd hq]
  have hCc : isChecker p c.flip k C := (hC C).2 rfl
  have hCp := isChecker_piece hCc
  have hCo : p.occupied C = true := occupied_of_piece hCp
  have hCs : C ≠ s := ne_of_colors hCp hsrc
  constructor
  · intro hna
    have hN := neutralise hCc hna
    have hP := pins_constraint hna
    refine ⟨?_, hN.imp id (fun h => h.2.2)⟩
    rintro ⟨X, hX⟩
    have hdX := hP X hX
    have fX := sliderOn_facts _ _ _ _ hX.1
    have hXo : p.occupied X = true := occupied_of_piece fX.1
    have hXs : X ≠ s := ne_of_colors fX.1 hsrc
    rcases hN with rfl | ⟨h1, h2, h3⟩
    · rcases hdX with rfl | hdX
      · exact checker_not_pinner hCc hX hos
      · exact hCs (hX.2.2 d hdX hCo)
    · have fC := sliderOn_facts _ _ _ _ h1
      have hCX : C = X := by
        refine seg_share p.occupied k C X s d ?_ ?_ hCo hXo hCs hXs ?_ hX.2.2 (Or.inr h3) hdX
        · rw [aligned_symm]; exact fC.2
        · rw [aligned_symm]; exact fX.2
        · intro v hv ho
          have := clear_forall h2 v hv
          rw [this] at ho; cases ho
      subst hCX
      exact checker_not_pinner hCc hX hos
  · rintro ⟨hnp, hdC⟩ ⟨x, hxd, h | ⟨h1, h2, h3⟩ | ⟨h1, _⟩⟩
    · have hxC : x = C := (hC x).1 (Or.inl h)
      subst hxC
      rcases hdC with e | e
      · exact hxd e.symm
      · have hnil := (contactOn_facts _ _ _ _ h).2.1
        rw [mem_between_comm, hnil] at e
        cases e
    · have hxC : x = C := (hC x).1 (Or.inr ⟨h1, h2⟩)
      subst hxC
      rcases hdC with e | e
      · exact hxd e.symm
      · exact h3 e
    · exact hnp ⟨x, h1⟩

/-- two checkers, mailbox form -/
theorem unsafe_two_checks_abs (p q : Position) (c : Color) (k s d C1 C2 : Sq) (pc pc' : Piece)
    (hk : p.pieceAt k = some (c, .king)) (hsrc : p.pieceAt s = some (c, pc)) (hpc : pc ≠ .king)
    (hd : p.colorAt d ≠ some c) (h1 : isChecker p c.flip k C1) (h2 : isChecker p c.flip k C2)
    (hne : C1 ≠ C2)
    (hq : q.pieceAt = moveAt p.pieceAt s d (some (c, pc'))) :
    q.attacked k c.flip = true := by
  obtain ⟨hks, hkd, hsd⟩ := basic_ne p c k s d pc hk hsrc hpc hd
  apply Classical.byContradiction
  intro hna
  rw [attacked_after_iff p q c k s d pc pc' hsrc hks hkd hsd hq] at hna
  have hN1 := neutralise h1 hna
  have hN2 := neutralise h2 hna
  have hp1 := isChecker_piece h1
  have hp2 := isChecker_piece h2
  have ho1 : p.occupied C1 = true := occupied_of_piece hp1
  have ho2 : p.occupied C2 = true := occupied_of_piece hp2
  rcases hN1 with e1 | ⟨a1, b1, m1⟩
  · rcases hN2 with e2 | ⟨a2, b2, m2⟩
    · exact hne (e1.symm.trans e2)
    · subst e1
      have := clear_forall b2 d m2
      rw [this] at ho1; cases ho1
  · rcases hN2 with e2 | ⟨a2, b2, m2⟩
    · subst e2
      have := clear_forall b1 d m1
      rw [this] at ho2; cases ho2
    · apply hne
      refine seg_share p.occupied k C1 C2 s d ?_ ?_ ho1 ho2 (ne_of_colors hp1 hsrc)
        (ne_of_colors hp2 hsrc) ?_ ?_ (Or.inr m1) (Or.inr m2)
      · rw [aligned_symm]; exact (sliderOn_facts _ _ _ _ a1).2
      · rw [aligned_symm]; exact (sliderOn_facts _ _ _ _ a2).2
      · intro v hv ho
        have := clear_forall b1 v hv
        rw [this] at ho; cases ho
      · intro v hv ho
        have := clear_forall b2 v hv
        rw [this] at ho; cases ho

/-! ### the board's pin/check information -/

theorem mem_pinned_iff_pins (b : Board) (h : b.WF = true) (s : Sq) (hs : (abs b).occupied s = true) :
    BB.mem b.pinned s = true ↔ ∃ X, pinsThrough (abs b) b.turn.flip (b.kingSq b.turn) X s := by
  rw [mem_pinned_iff b h]
  apply exists_congr
  intro X
  unfold pinsThrough
  constructor
  · rintro ⟨h1, h2, _, h4⟩
    exact ⟨h1, h2, h4⟩
  · rintro ⟨h1, h2, h4⟩
    exact ⟨h1, h2, hs, h4⟩

theorem mem_checkers_iff_isChecker (b : Board) (h : b.WF = true) (x : Sq) :
    BB.mem b.checkers x = true ↔ isChecker (abs b) b.turn.flip (b.kingSq b.turn) x :=
  mem_checkers_iff b h x

theorem king_piece (b : Board) (h : b.WF = true) :
    (abs b).pieceAt (b.kingSq b.turn) = some (b.turn, .king) :=
  AbsL.king_at b (AbsL.wf_partition b h) (AbsL.wf_hasKings b h) b.turn

/-- the check mask for one checker `C`: the segment between king and checker, and the checker -/
theorem mem_checkMask_one (b : Board) (C : Sq) (hC : BB.toList b.checkers = [C]) (d : Sq) :
    BB.mem (b.checkMask true (b.kingSq b.turn)) d = (d == C || (betweenList (b.kingSq b.turn) C).contains d) := by
  have hm : BB.mem b.checkers d = (d == C) := by
    rw [BB.mem_eq_contains_toList, hC]
    simp only [List.contains_cons, List.contains_nil, Bool.or_false]
  unfold Board.checkMask
  simp only [if_true]
  rcases hp : BB.pop b.checkers with _ | ⟨c, b'⟩
  · rw [BB.toList_of_pop_none _ hp] at hC
    cases hC
  · have := BB.toList_of_pop_some _ _ _ hp
    rw [hC] at this
    injection this with hc _
    subst hc
    simp only [BB.mem_or', mem_between_tbl, hm]
    rw [Bool.or_comm]

theorem mem_checkMask_none (b : Board) (k d : Sq) : BB.mem (b.checkMask false k) d = true := by
  unfold Board.checkMask
  simp only [Bool.false_eq_true, if_false, BB.mem_full]

/-- **no check**: a move of a non-king piece is safe iff it stays on the segment from the king to
(and including) every slider that pins it -/
theorem safe_no_check (b : Board) (h : b.WF = true) (s d : Sq) (pc pc' : Piece)
    (hsrc : (abs b).pieceAt s = some (b.turn, pc)) (hpc : pc ≠ .king)
    (hd : (abs b).colorAt d ≠ some b.turn) (hnc : BB.none b.checkers = true)
    (q : Position) (hq : q.pieceAt = moveAt (abs b).pieceAt s d (some (b.turn, pc'))) :
    q.attacked (b.kingSq b.turn) b.turn.flip = false ↔
      ∀ X, pinsThrough (abs b) b.turn.flip (b.kingSq b.turn) X s → (d = X ∨ d ∈ betweenList (b.kingSq b.turn) X) := by
  refine safe_no_check_abs (abs b) q b.turn (b.kingSq b.turn) s d pc pc' (king_piece b h) hsrc hpc hd ?_ hq
  intro x hx
  have h1 := (mem_checkers_iff_isChecker b h x).2 hx
  rw [(BB.none_iff _).1 hnc x] at h1
  cases h1

/-- … in particular every move of an unpinned piece is safe -/
theorem safe_unpinned (b : Board) (h : b.WF = true) (s d : Sq) (pc pc' : Piece)
    (hsrc : (abs b).pieceAt s = some (b.turn, pc)) (hpc : pc ≠ .king)
    (hd : (abs b).colorAt d ≠ some b.turn) (hnc : BB.none b.checkers = true)
    (hup : BB.mem b.pinned s = false)
    (q : Position) (hq : q.pieceAt = moveAt (abs b).pieceAt s d (some (b.turn, pc'))) :
    q.attacked (b.kingSq b.turn) b.turn.flip = false := by
  rw [safe_no_check b h s d pc pc' hsrc hpc hd hnc q hq]
  intro X hX
  have := (mem_pinned_iff_pins b h s (occupied_of_piece ⟨pc, hsrc⟩)).2 ⟨X, hX⟩
  rw [hup] at this
  cases this

/-- **one checker** `C`: safe iff the piece is not pinned and captures the checker or interposes -/
theorem safe_one_check (b : Board) (h : b.WF = true) (s d C : Sq) (pc pc' : Piece)
    (hsrc : (abs b).pieceAt s = some (b.turn, pc)) (hpc : pc ≠ .king)
    (hd : (abs b).colorAt d ≠ some b.turn) (hC : BB.toList b.checkers = [C])
    (q : Position) (hq : q.pieceAt = moveAt (abs b).pieceAt s d (some (b.turn, pc'))) :
    q.attacked (b.kingSq b.turn) b.turn.flip = false ↔
      (BB.mem b.pinned s = false ∧ (d = C ∨ d ∈ betweenList (b.kingSq b.turn) C)) := by
  have hC' : ∀ x, isChecker (abs b) b.turn.flip (b.kingSq b.turn) x ↔ x = C := by
    intro x
    rw [← mem_checkers_iff_isChecker b h x, ← BB.mem_toList, hC, List.mem_singleton]
  rw [safe_one_check_abs (abs b) q b.turn (b.kingSq b.turn) s d C pc pc' (king_piece b h) hsrc hpc hd hC' hq,
    ← mem_pinned_iff_pins b h s (occupied_of_piece ⟨pc, hsrc⟩), Bool.not_eq_true]

/-- a set with at least two members has two distinct members -/
theorem two_members (m : BB) (h2 : 2 ≤ BB.count m) :
    ∃ C1 C2 : Sq, C1 ≠ C2 ∧ BB.mem m C1 = true ∧ BB.mem m C2 = true := by
  rw [BB.count_eq_length_toList] at h2
  have hasc := BB.toList_ascending m
  have hmem : ∀ x, x ∈ BB.toList m → BB.mem m x = true := fun x => (BB.mem_toList m x).1
  generalize BB.toList m = l at h2 hasc hmem
  match l, h2, hasc, hmem with
  | [], h2, _, _ => simp at h2
  | [_], h2, _, _ => simp at h2
  | a :: c :: t, _, hasc, hmem =>
    rw [List.pairwise_cons] at hasc
    have hlt := hasc.1 c (List.mem_cons_self ..)
    refine ⟨a, c, ?_, hmem a (List.mem_cons_self ..), hmem c (List.mem_cons_of_mem _ (List.mem_cons_self ..))⟩
    rintro rfl
    exact Nat.lt_irrefl _ hlt

/-- **two or more checkers**: no move of a non-king piece is safe -/
theorem unsafe_two_checks (b : Board) (h : b.WF = true) (s d : Sq) (pc pc' : Piece)
    (hsrc : (abs b).pieceAt s = some (b.turn, pc)) (hpc : pc ≠ .king)
    (hd : (abs b).colorAt d ≠ some b.turn) (h2 : 2 ≤ BB.count b.checkers)
    (q : Position) (hq : q.pieceAt = moveAt (abs b).pieceAt s d (some (b.turn, pc'))) :
    q.attacked (b.kingSq b.turn) b.turn.flip = true := by
  obtain ⟨C1, C2, hne, m1, m2⟩ := two_members b.checkers h2
  exact unsafe_two_checks_abs (abs b) q b.turn (b.kingSq b.turn) s d C1 C2 pc pc' (king_piece b h) hsrc hpc hd
    ((mem_checkers_iff_isChecker b h C1).1 m1) ((mem_checkers_iff_isChecker b h C2).1 m2) hne hq

end Chess.Legal
