/-
The specification side of a move, unfolded: the mailbox after each kind of move in the
`moveAt` / `moveAtEp` form of `Attack.lean`, where the mover's king stands afterwards, and
`Spec.Position.legal` for each kind of mover as "pseudo-legal and the king is not attacked
afterwards".  Pure specification-level reasoning.
-/
import ChessVerif.Proofs.Legal.Attack

namespace Chess.Legal
open Chess Chess.Spec Chess.Rays


/-- the moved piece as it arrives (promoted if a promotion piece is given) -/
def arriving (p : Position) (m : Move) : Option (Color × Piece) :=
  match p.pieceAt m.source, m.piece with
  | some (c', _), some pr => some (c', pr.toPiece)
  | x, _ => x

/-- the mailbox of `applyKind`, with the local `moved` named `arriving` -/
theorem applyKind_pieceAt (p : Position) (m : Move) (k : Position.Kind) (s : Sq) :
    (p.applyKind m k).pieceAt s =
      if s == m.dest then arriving p m
      else if s == m.source then none
      else if some s == (if k == .enPassant then Position.sqAt (fileI m.dest) (rankI m.source) else none) then none
      else if some s == (match k with | .castle sd => Position.rookHome sd p.turn | _ => none) then none
      else if some s == (match k with
        | .castle .king => Position.sqAt 5 (Position.homeRank p.turn)
        | .castle .queen => Position.sqAt 3 (Position.homeRank p.turn)
        | _ => none) then some (p.turn, .rook)
      else p.pieceAt s := rfl

theorem applyKind_normal_pieceAt (p : Position) (m : Move) :
    (p.applyKind m .normal).pieceAt = moveAt p.pieceAt m.source m.dest (arriving p m) := by
  funext x
  rw [applyKind_pieceAt]
  simp [moveAt]

theorem applyKind_double_pieceAt (p : Position) (m : Move) :
    (p.applyKind m .double).pieceAt = moveAt p.pieceAt m.source m.dest (arriving p m) := by
  funext x
  rw [applyKind_pieceAt]
  simp [moveAt]

set_option linter.unusedVariables false in
/-- en passant: the victim stands on the destination's file and the source's rank -/
theorem applyKind_ep_pieceAt (p : Position) (m : Move) (v : Sq)
    (hv : Position.sqAt (fileI m.dest) (rankI m.source) = some v) (hvd : v ≠ m.dest) (hvs : v ≠ m.source) :
    (p.applyKind m .enPassant).pieceAt = moveAtEp p.pieceAt m.source m.dest v (arriving p m) := by
  funext x
  rw [applyKind_pieceAt]
  simp [moveAtEp, hv]

/-- castling: king from `m.source` to `m.dest`, rook from its home to the square the king crossed -/
theorem applyKind_castle_pieceAt (p : Position) (m : Move) (sd : Side) (rf rt : Sq)
    (hrf : Position.rookHome sd p.turn = some rf)
    (hrt : Position.sqAt (match sd with | .king => 5 | .queen => 3) (Position.homeRank p.turn) = some rt)
    (x : Sq) :
    (p.applyKind m (.castle sd)).pieceAt x =
      if x = m.dest then arriving p m else if x = m.source then none
      else if x = rf then none else if x = rt then some (p.turn, .rook) else p.pieceAt x := by
  rw [applyKind_pieceAt]
  cases sd <;> simp [hrf] <;> simp at hrt <;> simp [hrt]

/-- side to move after any move -/
theorem applyKind_turn (p : Position) (m : Move) (k : Position.Kind) : (p.applyKind m k).turn = p.turn.flip := rfl

/-- `in check` with a single king -/
theorem inCheck_single (q : Position) (c : Color) (k : Sq) (h : q.kings c = [k]) :
    q.inCheck c = q.attacked k c.flip := by
  unfold Position.inCheck
  rw [h, List.any_cons, List.any_nil, Bool.or_false]


/-- a filter of a duplicate-free list is `[k]` when `k` is the only member satisfying the predicate -/
theorem filter_singleton_of_nodup {α : Type} (f : α → Bool) (k : α) :
    ∀ (l : List α), l.Nodup → k ∈ l → f k = true → (∀ x ∈ l, f x = true → x = k) → l.filter f = [k]
  | [], _, hk, _, _ => by cases hk
  | a :: l, hnd, hk, hfk, hall => by
    rw [List.nodup_cons] at hnd
    by_cases hak : a = k
    · subst hak
      rw [List.filter_cons_of_pos hfk]
      congr 1
      rw [List.filter_eq_nil_iff]
      intro x hx hfx
      have := hall x (List.mem_cons_of_mem _ hx) hfx
      exact hnd.1 (this ▸ hx)
    · have hfa : ¬ f a = true := fun h => hak (hall a List.mem_cons_self h)
      rw [List.filter_cons_of_neg hfa]
      have hk' : k ∈ l := by
        rcases List.mem_cons.1 hk with h | h
        · exact absurd h.symm hak
        · exact h
      exact filter_singleton_of_nodup f k l hnd.2 hk' hfk (fun x hx => hall x (List.mem_cons_of_mem _ hx))

/-- a filter of `List.finRange n` is `[k]` iff `k` is the only index satisfying the predicate -/
theorem filter_finRange_eq_singleton {n : Nat} (f : Fin n → Bool) (k : Fin n) :
    (List.finRange n).filter f = [k] ↔ (f k = true ∧ ∀ x, f x = true → x = k) := by
  constructor
  · intro h
    have hm : ∀ x, x ∈ (List.finRange n).filter f ↔ x = k := by
      intro x; rw [h]; simp
    refine ⟨?_, fun x hx => ?_⟩
    · exact (List.mem_filter.1 ((hm k).2 rfl)).2
    · exact (hm x).1 (List.mem_filter.2 ⟨List.mem_finRange x, hx⟩)
  · rintro ⟨h1, h2⟩
    exact filter_singleton_of_nodup f k _ (List.nodup_finRange n) (List.mem_finRange k) h1 (fun x _ => h2 x)

/-- exactly one king of colour `c`, on `k`, pointwise -/
theorem kings_iff (p : Position) (c : Color) (k : Sq) :
    p.kings c = [k] ↔ (p.pieceAt k = some (c, .king) ∧ ∀ x, p.pieceAt x = some (c, .king) → x = k) := by
  unfold Position.kings
  rw [filter_finRange_eq_singleton]
  simp only [beq_iff_eq]

/-- if the mailbox `q` arises from `p` (which has exactly one king of colour `c`, on `k`) by a
`moveAt`/`moveAtEp` of a non-king piece of colour `c`, the king of `c` is still exactly on `k` -/
theorem kings_after_nonking (p q : Position) (c : Color) (k s d : Sq) (mv : Option (Color × Piece))
    (hk : p.kings c = [k]) (hs : k ≠ s)
    (hmv : ∀ pc, mv = some (c, pc) → pc ≠ .king)
    (hq : ∀ x, q.pieceAt x = moveAt p.pieceAt s d mv x ∨ (q.pieceAt x = none ∧ x ≠ k ∧ x ≠ d)) :
    d ≠ k → q.kings c = [k] := by
  intro hdk
  rw [kings_iff] at hk ⊢
  obtain ⟨hk1, hk2⟩ := hk
  constructor
  · rcases hq k with h | ⟨_, h, _⟩
    · rw [h, moveAt, if_neg (Ne.symm hdk), if_neg hs, hk1]
    · exact absurd rfl h
  · intro x hx
    rcases hq x with h | ⟨h, _, _⟩
    · rw [h, moveAt] at hx
      by_cases hxd : x = d
      · rw [if_pos hxd] at hx
        exact absurd rfl (hmv _ hx)
      · rw [if_neg hxd] at hx
        by_cases hxs : x = s
        · rw [if_pos hxs] at hx; cases hx
        · rw [if_neg hxs] at hx; exact hk2 x hx
    · rw [h] at hx; cases hx

/-- … and after a king move from `k` to `d` it is exactly on `d` -/
theorem kings_after_king (p q : Position) (c : Color) (k d : Sq)
    (hk : p.kings c = [k]) (hne : k ≠ d)
    (hq : ∀ x, x = d ∨ x = k ∨ q.pieceAt x = p.pieceAt x ∨ (q.pieceAt x ≠ some (c, .king)))
    (hd : q.pieceAt d = some (c, .king)) (hkk : q.pieceAt k ≠ some (c, .king)) :
    q.kings c = [d] := by
  rw [kings_iff] at hk ⊢
  obtain ⟨hk1, hk2⟩ := hk
  refine ⟨hd, fun x hx => ?_⟩
  rcases hq x with h | h | h | h
  · exact h
  · subst h; exact absurd hx hkk
  · rw [h] at hx
    have := hk2 x hx
    subst this; exact absurd (h ▸ hx) hkk
  · exact absurd hx h


/-- the destination test of `pseudo`: no own piece and no king on the destination -/
def destOk (p : Position) (c : Color) (d : Sq) : Bool :=
  match p.pieceAt d with
  | some (c', pc') => c' != c && pc' != .king
  | none => true

/-- `pseudo` for a knight, bishop, rook or queen of the side to move -/
theorem pseudo_piece (p : Position) (m : Move) (pc : Piece)
    (hsrc : p.pieceAt m.source = some (p.turn, pc)) (hpc : pc ≠ .pawn ∧ pc ≠ .king) :
    p.pseudo m = if !destOk p p.turn m.dest then none else if m.piece.isSome then none
      else if p.attacksFrom m.source p.turn pc m.dest then some .normal else none := by
  unfold Position.pseudo
  rw [hsrc]
  simp only [bne_self_eq_false, Bool.false_eq_true, if_false]
  obtain ⟨h1, h2⟩ := hpc
  cases pc
  · exact absurd rfl h1
  · rfl
  · rfl
  · rfl
  · rfl
  · exact absurd rfl h2

theorem kings_pieceAt (p : Position) (c : Color) (k : Sq) (h : p.kings c = [k]) :
    p.pieceAt k = some (c, .king) := ((kings_iff p c k).1 h).1

theorem destOk_ne_king (p : Position) (c : Color) (d k : Sq) (hd : destOk p c d = true)
    (hk : p.pieceAt k = some (c, .king)) : d ≠ k := by
  intro h
  subst h
  unfold destOk at hd
  rw [hk] at hd
  simp at hd

/-- "not in check afterwards", stated for every position with the resulting mailbox -/
theorem not_inCheck_iff (r : Position) (c : Color) (k' : Sq) (mb : Sq → Option (Color × Piece))
    (hmb : r.pieceAt = mb) (hk : r.kings c = [k']) :
    (!r.inCheck c) = true ↔ ∀ q : Position, q.pieceAt = mb → q.attacked k' c.flip = false := by
  rw [inCheck_single r c k' hk, Bool.not_eq_true']
  constructor
  · intro h q hq
    rw [← h]
    exact attacked_congr q r (hq.trans hmb.symm) _ _
  · intro h
    exact h r hmb

/-- **knight, bishop, rook, queen**: legal iff no promotion piece, the piece attacks the destination,
the destination is acceptable, and afterwards the king is not attacked -/
theorem legal_piece_iff (p : Position) (m : Move) (pc : Piece) (k : Sq)
    (hsrc : p.pieceAt m.source = some (p.turn, pc)) (hpc : pc ≠ .pawn ∧ pc ≠ .king)
    (hk : p.kings p.turn = [k]) :
    p.legal m = true ↔
      (m.piece = none ∧ p.attacksFrom m.source p.turn pc m.dest = true ∧ destOk p p.turn m.dest = true ∧
       ∀ q : Position, q.pieceAt = moveAt p.pieceAt m.source m.dest (some (p.turn, pc)) →
         q.attacked k p.turn.flip = false) := by
  unfold Position.legal
  rw [pseudo_piece p m pc hsrc hpc]
  cases hd : destOk p p.turn m.dest
  · simp
  rcases hp : m.piece with _ | pr
  case some => simp
  cases ha : p.attacksFrom m.source p.turn pc m.dest
  · simp
  simp only [Bool.not_true, Bool.false_eq_true, if_false, Option.isSome_none, if_true, true_and]
  have hkp := kings_pieceAt p _ k hk
  have harr : arriving p m = some (p.turn, pc) := by
    unfold arriving; rw [hsrc, hp]
  have hmb : (p.applyKind m .normal).pieceAt = moveAt p.pieceAt m.source m.dest (some (p.turn, pc)) := by
    rw [applyKind_normal_pieceAt, harr]
  have hks : k ≠ m.source := by
    intro h; rw [h, hsrc] at hkp; cases hkp; exact hpc.2 rfl
  have hk' : (p.applyKind m .normal).kings p.turn = [k] :=
    kings_after_nonking p _ p.turn k m.source m.dest (some (p.turn, pc)) hk hks
      (fun pc' h => by cases h; exact hpc.2) (fun x => Or.inl (by rw [hmb]))
      (destOk_ne_king p _ _ _ hd hkp)
  exact not_inCheck_iff _ _ _ _ hmb hk'


/-- `pseudo` for a king step -/
theorem pseudo_king_step (p : Position) (m : Move)
    (hsrc : p.pieceAt m.source = some (p.turn, .king)) (hstep : kingAtt m.source m.dest = true) :
    p.pseudo m = if !destOk p p.turn m.dest then none else if m.piece.isSome then none
      else some .normal := by
  unfold Position.pseudo
  rw [hsrc]
  simp only [bne_self_eq_false, Bool.false_eq_true, if_false, hstep, if_true]
  rfl

/-- **king step** (not castling) -/
theorem legal_king_step_iff (p : Position) (m : Move) (k : Sq)
    (hsrc : p.pieceAt m.source = some (p.turn, .king)) (hk : p.kings p.turn = [k])
    (hstep : kingAtt m.source m.dest = true) :
    p.legal m = true ↔
      (m.piece = none ∧ destOk p p.turn m.dest = true ∧
       ∀ q : Position, q.pieceAt = moveAt p.pieceAt m.source m.dest (some (p.turn, .king)) →
         q.attacked m.dest p.turn.flip = false) := by
  unfold Position.legal
  rw [pseudo_king_step p m hsrc hstep]
  cases hd : destOk p p.turn m.dest
  · simp
  rcases hp : m.piece with _ | pr
  case some => simp
  simp only [Bool.not_true, Bool.false_eq_true, if_false, Option.isSome_none, true_and]
  have hsk : m.source = k := ((kings_iff p _ k).1 hk).2 _ hsrc
  have hne : m.source ≠ m.dest := by
    intro h
    unfold kingAtt at hstep
    rw [← h] at hstep
    simp at hstep
  have harr : arriving p m = some (p.turn, .king) := by
    unfold arriving; rw [hsrc, hp]
  have hmb : (p.applyKind m .normal).pieceAt = moveAt p.pieceAt m.source m.dest (some (p.turn, .king)) := by
    rw [applyKind_normal_pieceAt, harr]
  have hk' : (p.applyKind m .normal).kings p.turn = [m.dest] := by
    apply kings_after_king p _ p.turn k m.dest hk (hsk ▸ hne)
    · intro x
      by_cases h1 : x = m.dest
      · exact Or.inl h1
      · by_cases h2 : x = k
        · exact Or.inr (Or.inl h2)
        · refine Or.inr (Or.inr (Or.inl ?_))
          rw [hmb, moveAt, if_neg h1, if_neg (hsk ▸ h2)]
    · rw [hmb, moveAt, if_pos rfl]
    · rw [hmb, moveAt, if_neg (hsk ▸ hne), ← hsk, if_pos rfl]
      exact fun h => by cases h
  exact not_inCheck_iff _ _ _ _ hmb hk'


/-- `pseudo` for a pawn of the side to move, with `destOk` named -/
theorem pseudo_pawn (p : Position) (m : Move) (hsrc : p.pieceAt m.source = some (p.turn, .pawn)) :
    p.pseudo m =
      if !destOk p p.turn m.dest then none else
      if !(m.piece.isSome == (rankI m.source == Position.seventhRank p.turn)) then none else
      if some m.dest == step m.source 0 (fwd p.turn) && !p.occupied m.dest then some .normal
      else if rankI m.source == Position.secondRank p.turn && some m.dest == step m.source 0 (2 * fwd p.turn) &&
           (match step m.source 0 (fwd p.turn) with | some o => !p.occupied o | none => false) &&
           !p.occupied m.dest then some .double
      else if pawnAtt p.turn m.source m.dest then
        if p.occupied m.dest then some .normal
        else if some m.dest == p.epSquare &&
            (match Position.sqAt (fileI m.dest) (rankI m.source) with
             | some v => p.pieceAt v == some (p.turn.flip, .pawn)
             | none => false) then some .enPassant
        else none
      else none := by
  unfold Position.pseudo
  rw [hsrc]
  simp only [bne_self_eq_false, Bool.false_eq_true, if_false]
  rfl

/-- a pawn never arrives as a king -/
theorem arriving_pawn (p : Position) (m : Move) (c : Color) (hsrc : p.pieceAt m.source = some (c, .pawn)) :
    ∀ pc, arriving p m = some (c, pc) → pc ≠ .king := by
  intro pc h
  unfold arriving at h
  rw [hsrc] at h
  rcases hp : m.piece with _ | pr
  · rw [hp] at h; cases h; exact fun h => by cases h
  · rw [hp] at h; cases h; cases pr <;> exact fun h => by cases h

/-- **pawn push / capture (not en passant)**: the promotion field must match "leaving the seventh
rank"; whatever piece arrives, the king must not be attacked afterwards -/
theorem legal_pawn_normal_iff (p : Position) (m : Move) (k : Sq)
    (hsrc : p.pieceAt m.source = some (p.turn, .pawn)) (hk : p.kings p.turn = [k])
    (hnotep : ¬ (pawnAtt p.turn m.source m.dest = true ∧ p.occupied m.dest = false)) :
    p.legal m = true ↔
      (destOk p p.turn m.dest = true ∧
       (m.piece.isSome = (rankI m.source == Position.seventhRank p.turn)) ∧
       ((some m.dest = step m.source 0 (fwd p.turn) ∧ p.occupied m.dest = false) ∨
        (rankI m.source = Position.secondRank p.turn ∧ some m.dest = step m.source 0 (2 * fwd p.turn) ∧
          (match step m.source 0 (fwd p.turn) with | some o => p.occupied o = false | none => False) ∧
          p.occupied m.dest = false) ∨
        (pawnAtt p.turn m.source m.dest = true ∧ p.occupied m.dest = true)) ∧
       ∀ q : Position, q.pieceAt = moveAt p.pieceAt m.source m.dest (arriving p m) →
         q.attacked k p.turn.flip = false) := by
  unfold Position.legal
  rw [pseudo_pawn p m hsrc]
  cases hd : destOk p p.turn m.dest
  · simp
  have hkp := kings_pieceAt p _ k hk
  have hks : k ≠ m.source := by
    intro h; rw [h, hsrc] at hkp; cases hkp
  have hdk := destOk_ne_king p _ _ _ hd hkp
  have hkey : ∀ κ, κ = Position.Kind.normal ∨ κ = Position.Kind.double →
      ((!(p.applyKind m κ).inCheck p.turn) = true ↔
        ∀ q : Position, q.pieceAt = moveAt p.pieceAt m.source m.dest (arriving p m) →
          q.attacked k p.turn.flip = false) := by
    intro κ hκ
    have hmb : (p.applyKind m κ).pieceAt = moveAt p.pieceAt m.source m.dest (arriving p m) := by
      rcases hκ with h | h <;> subst h
      · exact applyKind_normal_pieceAt p m
      · exact applyKind_double_pieceAt p m
    exact not_inCheck_iff _ _ _ _ hmb
      (kings_after_nonking p _ p.turn k m.source m.dest _ hk hks (arriving_pawn p m _ hsrc)
        (fun x => Or.inl (by rw [hmb])) hdk)
  have hn := hkey _ (Or.inl rfl)
  have hdb := hkey _ (Or.inr rfl)
  generalize (∀ q : Position, q.pieceAt = moveAt p.pieceAt m.source m.dest (arriving p m) →
          q.attacked k p.turn.flip = false) = Q at hn hdb ⊢
  cases hpr : (m.piece.isSome == (rankI m.source == Position.seventhRank p.turn))
  · simp at hpr ⊢
    intro h; exact absurd h hpr
  · have hpr' : m.piece.isSome = (rankI m.source == Position.seventhRank p.turn) := by
      simpa using hpr
    simp only [Bool.not_true, Bool.false_eq_true, if_false]
    have he : (match step m.source 0 (fwd p.turn) with | some o => p.occupied o = false | none => False) ↔
        (match step m.source 0 (fwd p.turn) with | some o => !p.occupied o | none => false) = true := by
      cases step m.source 0 (fwd p.turn) <;> simp
    have e1 : (some m.dest = step m.source 0 (fwd p.turn)) ↔
        (some m.dest == step m.source 0 (fwd p.turn)) = true := by simp
    have e2 : (some m.dest = step m.source 0 (2 * fwd p.turn)) ↔
        (some m.dest == step m.source 0 (2 * fwd p.turn)) = true := by simp
    have e3 : (rankI m.source = Position.secondRank p.turn) ↔
        (rankI m.source == Position.secondRank p.turn) = true := by simp
    rw [he, e1, e2, e3]
    generalize (match step m.source 0 (fwd p.turn) with | some o => !p.occupied o | none => false) = e
    generalize (some m.dest == step m.source 0 (fwd p.turn)) = a
    generalize (some m.dest == step m.source 0 (2 * fwd p.turn)) = b
    generalize (rankI m.source == Position.secondRank p.turn) = r2
    generalize (some m.dest == p.epSquare &&
                        match Position.sqAt (fileI m.dest) (rankI m.source) with
                        | some v => p.pieceAt v == some (p.turn.flip, Piece.pawn)
                        | none => false) = z
    generalize (m.piece.isSome = (rankI m.source == Position.seventhRank p.turn)) = P at hpr'
    generalize pawnAtt p.turn m.source m.dest = t at hnotep ⊢
    generalize p.occupied m.dest = o at hnotep ⊢
    clear hkey
    cases a <;> cases o <;> cases t <;> cases r2 <;> cases b <;> cases e <;> simp_all


theorem sqAt_eq_some (f r : Int) (t : Sq) (h : Position.sqAt f r = some t) :
    fileI t = f ∧ rankI t = r := by
  unfold Position.sqAt at h
  split at h
  · rename_i hb
    have hlt : r.toNat * 8 + f.toNat < 64 := by omega
    simp only [Sq.ofNat?, hlt, dite_true, Option.some.injEq] at h
    subst h
    simp only [fileI, rankI]
    omega
  · cases h

theorem occupied_false_iff (p : Position) (s : Sq) : p.occupied s = false ↔ p.pieceAt s = none := by
  unfold Position.occupied
  cases p.pieceAt s <;> simp

/-- `pseudo` for a diagonal pawn move to an empty square: en passant or nothing -/
theorem pseudo_ep (p : Position) (m : Move) (v : Sq)
    (hsrc : p.pieceAt m.source = some (p.turn, .pawn))
    (hatt : pawnAtt p.turn m.source m.dest = true) (hocc : p.occupied m.dest = false)
    (hv : Position.sqAt (fileI m.dest) (rankI m.source) = some v) :
    p.pseudo m =
      if !(m.piece.isSome == (rankI m.source == Position.seventhRank p.turn)) then none
      else if some m.dest == p.epSquare && p.pieceAt v == some (p.turn.flip, .pawn) then some .enPassant
      else none := by
  rw [pseudo_pawn p m hsrc]
  have hdo : destOk p p.turn m.dest = true := by
    unfold destOk; rw [(occupied_false_iff p _).1 hocc]
  have hfile : fileI m.dest ≠ fileI m.source := by
    unfold pawnAtt dF absI at hatt
    simp only [Bool.and_eq_true, beq_iff_eq] at hatt
    intro h; rw [h] at hatt; simp at hatt
  have h1 : (some m.dest == step m.source 0 (fwd p.turn)) = false := by
    rw [beq_eq_false_iff_ne]
    intro h
    have := (RaysAux.step_eq_some _ _ _ _).1 h.symm
    omega
  have h2 : (some m.dest == step m.source 0 (2 * fwd p.turn)) = false := by
    rw [beq_eq_false_iff_ne]
    intro h
    have := (RaysAux.step_eq_some _ _ _ _).1 h.symm
    omega
  rw [hdo, h1, h2, hatt, hocc, hv]
  simp only [Bool.not_true, Bool.false_eq_true, if_false, Bool.false_and, Bool.and_false, if_true]


/-- a pawn capturing onto the e.p. square does not stand on its seventh rank -/
theorem ep_source_rank (p : Position) (m : Move) (hatt : pawnAtt p.turn m.source m.dest = true)
    (hep : some m.dest = p.epSquare) : (rankI m.source == Position.seventhRank p.turn) = false := by
  rw [beq_eq_false_iff_ne]
  unfold Position.epSquare at hep
  rcases hf : p.ep with _ | f
  · rw [hf] at hep; cases hep
  · rw [hf] at hep
    have hr := (sqAt_eq_some _ _ _ hep.symm).2
    unfold pawnAtt dR at hatt
    simp only [Bool.and_eq_true, beq_iff_eq] at hatt
    have h1 := hatt.1
    revert hr h1
    cases p.turn <;> simp only [Position.epTargetRank, Position.seventhRank, fwd] <;> omega

/-- **en passant** -/
theorem legal_ep_iff (p : Position) (m : Move) (k v : Sq)
    (hsrc : p.pieceAt m.source = some (p.turn, .pawn)) (hk : p.kings p.turn = [k])
    (hatt : pawnAtt p.turn m.source m.dest = true) (hocc : p.occupied m.dest = false)
    (hv : Position.sqAt (fileI m.dest) (rankI m.source) = some v) :
    p.legal m = true ↔
      (m.piece = none ∧ some m.dest = p.epSquare ∧ p.pieceAt v = some (p.turn.flip, .pawn) ∧
       ∀ q : Position, q.pieceAt = moveAtEp p.pieceAt m.source m.dest v (some (p.turn, .pawn)) →
         q.attacked k p.turn.flip = false) := by
  unfold Position.legal
  rw [pseudo_ep p m v hsrc hatt hocc hv]
  by_cases hep : some m.dest = p.epSquare
  case neg =>
    have : (some m.dest == p.epSquare) = false := by rw [beq_eq_false_iff_ne]; exact hep
    rw [this]
    simp [hep]
  rw [ep_source_rank p m hatt hep]
  have hep' : (some m.dest == p.epSquare) = true := by rw [beq_iff_eq]; exact hep
  rw [hep']
  rcases hp : m.piece with _ | pr
  case some => simp
  by_cases hvic : p.pieceAt v = some (p.turn.flip, .pawn)
  case neg => simp [hvic]
  have hvic' : (p.pieceAt v == some (p.turn.flip, .pawn)) = true := by rw [beq_iff_eq]; exact hvic
  rw [hvic']
  simp only [Option.isSome_none, BEq.rfl, Bool.not_true, Bool.false_eq_true, if_false, Bool.and_true,
    if_true, true_and, hep, hvic]
  have hkp := kings_pieceAt p _ k hk
  have hdn := (occupied_false_iff p _).1 hocc
  have hks : k ≠ m.source := by
    intro h; rw [h, hsrc] at hkp; cases hkp
  have hdk : m.dest ≠ k := by
    intro h; rw [h, hkp] at hdn; cases hdn
  have hvd : v ≠ m.dest := by
    intro h; rw [h, hdn] at hvic; cases hvic
  have hvs : v ≠ m.source := by
    intro h; rw [h, hsrc] at hvic
    injection hvic with h'
    injection h' with h''
    exact Color.flip_ne _ h''.symm
  have hvk : v ≠ k := by
    intro h; rw [h, hkp] at hvic; simp at hvic
  have harr : arriving p m = some (p.turn, .pawn) := by
    unfold arriving; rw [hsrc, hp]
  have hmb : (p.applyKind m .enPassant).pieceAt = moveAtEp p.pieceAt m.source m.dest v (some (p.turn, .pawn)) := by
    rw [applyKind_ep_pieceAt p m v hv hvd hvs, harr]
  have hk' : (p.applyKind m .enPassant).kings p.turn = [k] := by
    apply kings_after_nonking p _ p.turn k m.source m.dest (some (p.turn, .pawn)) hk hks
      (fun pc' h => by cases h; exact fun h => by cases h) _ hdk
    intro x
    rw [hmb]
    unfold moveAtEp moveAt
    by_cases h1 : x = m.dest
    · left; rw [if_pos h1, if_pos h1]
    · by_cases h2 : x = m.source
      · left; rw [if_neg h1, if_neg h1, if_pos h2, if_pos h2]
      · by_cases h3 : x = v
        · right; rw [if_neg h1, if_neg h2, if_pos h3]
          exact ⟨rfl, h3 ▸ hvk, h1⟩
        · left; rw [if_neg h1, if_neg h1, if_neg h2, if_neg h2, if_neg h3]
  exact not_inCheck_iff _ _ _ _ hmb hk'

end Chess.Legal
