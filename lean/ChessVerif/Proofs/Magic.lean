/-
Helper definitions and lemmas for C08: the Boolean checker that the kernel evaluates per square
over every subset of the magic mask, its soundness (lifting "every subset of the mask" to "every
word"), and the independence of ray casting from squares outside the mask.
-/
import ChessVerif.Model.Lookup
import ChessVerif.Spec.Geometry
import ChessVerif.Proofs.BB

namespace Chess.Magic
open Chess Chess.Spec

/-- occupancy predicate of a word -/
def occOf (occ : BB) : Sq → Bool := fun t => BB.mem occ t

/-- specification: squares reached by sliding along ranks and files up to and including the
first occupied square in each direction -/
def rookCast (s : Sq) (occ : BB) : BB := bbOfList (rookReach (occOf occ) s)
/-- … along diagonals -/
def bishopCast (s : Sq) (occ : BB) : BB := bbOfList (bishopReach (occOf occ) s)

/-- indices of the set bits of a word -/
def bitsOf (m : BB) : List Nat := (List.range 64).filter (fun i => m.getLsbD i)

/-- `P` holds for `acc ∪ x` for every subset `x` of the listed bits -/
def checkAll (P : BB → Bool) : List Nat → BB → Bool
  | [], acc => P acc
  | b :: bs, acc => checkAll P bs acc && checkAll P bs (acc ||| BitVec.twoPow 64 b)

def rookOk (s : Sq) (x : BB) : Bool :=
  decide (Lookup.rookIndex s x < Gen.RookMagic.solLen) && (Lookup.rookMoves s x == rookCast s x)
def bishopOk (s : Sq) (x : BB) : Bool :=
  decide (Lookup.bishopIndex s x < Gen.BishopMagic.solLen) && (Lookup.bishopMoves s x == bishopCast s x)

/-- the per-square obligation evaluated by the kernel: index in range and table entry = ray cast,
for every subset of the square's magic mask -/
def checkRook (s : Sq) : Bool := checkAll (rookOk s) (bitsOf (Lookup.rookMagic s).mask) 0#64
def checkBishop (s : Sq) : Bool := checkAll (bishopOk s) (bitsOf (Lookup.bishopMagic s).mask) 0#64

/-- every on-ray square that still has a successor in the ray's direction lies in the mask -/
def maskCovers (mask : BB) (dirs : List (Int × Int)) (s : Sq) : Bool :=
  dirs.all fun d => (walk d.1 d.2 7 s).all fun t => (step t d.1 d.2).isNone || BB.mem mask t

theorem mem_bitsOf (m : BB) (i : Nat) : i ∈ bitsOf m ↔ m.getLsbD i = true := by
  unfold bitsOf
  rw [List.mem_filter, List.mem_range]
  constructor
  · exact fun h => h.2
  · intro h
    refine ⟨?_, h⟩
    by_cases hi : i < 64
    · exact hi
    · have : m.getLsbD i = false := BitVec.getLsbD_of_ge m i (by omega)
      rw [this] at h; cases h

theorem checkAll_sound (P : BB → Bool) (bits : List Nat) (acc : BB)
    (h : checkAll P bits acc = true) (x : BB) (hx : ∀ i, x.getLsbD i = true → i ∈ bits) :
    P (acc ||| x) = true := by
  induction bits generalizing acc x with
  | nil =>
    have : x = 0#64 := by
      apply BitVec.eq_of_getLsbD_eq
      intro i _
      cases hb : x.getLsbD i with
      | false => simp
      | true => exact absurd (hx i hb) (by simp)
    subst this
    simpa [checkAll] using h
  | cons b bs ih =>
    simp only [checkAll, Bool.and_eq_true] at h
    cases hb : x.getLsbD b with
    | false =>
      apply ih acc h.1 x
      intro i hi
      have := hx i hi
      rcases List.mem_cons.mp this with rfl | h'
      · rw [hb] at hi; cases hi
      · exact h'
    | true =>
      have key : (acc ||| BitVec.twoPow 64 b) ||| (x &&& ~~~(BitVec.twoPow 64 b)) = acc ||| x := by
        apply BitVec.eq_of_getLsbD_eq
        intro i hi
        simp only [BitVec.getLsbD_or, BitVec.getLsbD_and, BitVec.getLsbD_not, BitVec.getLsbD_twoPow]
        by_cases hbi : b = i
        · subst hbi; simp [hi, hb]
        · simp [hbi, hi]
      rw [← key]
      apply ih _ h.2
      intro i hi
      simp only [BitVec.getLsbD_and, BitVec.getLsbD_not, BitVec.getLsbD_twoPow, Bool.and_eq_true,
        Bool.not_eq_true', Bool.and_eq_false_imp, decide_eq_true_eq] at hi
      have := hx i hi.1
      rcases List.mem_cons.mp this with rfl | h'
      · have hlt : i < 64 := by
          by_cases h64 : i < 64
          · exact h64
          · have := BitVec.getLsbD_of_ge x i (by omega); rw [this] at hb; cases hb
        have := hi.2.2 hlt
        simp at this
      · exact h'

/-- the check covers `occ ∩ mask` for every word `occ` -/
theorem checkAll_masked (P : BB → Bool) (mask : BB) (h : checkAll P (bitsOf mask) 0#64 = true)
    (occ : BB) : P (mask &&& occ) = true := by
  have := checkAll_sound P (bitsOf mask) 0#64 h (mask &&& occ) (by
    intro i hi
    rw [mem_bitsOf]
    simp only [BitVec.getLsbD_and, Bool.and_eq_true] at hi
    exact hi.1)
  simpa using this

/-! ### ray casting ignores squares outside the mask -/

theorem slide_nil_of_step_none (occ : Sq → Bool) (df dr : Int) (fuel : Nat) (t : Sq)
    (h : step t df dr = none) : slide occ df dr fuel t = [] := by
  cases fuel with
  | zero => rfl
  | succ n => simp [slide, h]

theorem slide_congr (occ occ' : Sq → Bool) (df dr : Int) (fuel : Nat) (s : Sq)
    (h : ∀ t, t ∈ walk df dr fuel s → (step t df dr).isSome = true → occ t = occ' t) :
    slide occ df dr fuel s = slide occ' df dr fuel s := by
  induction fuel generalizing s with
  | zero => rfl
  | succ n ih =>
    simp only [slide]
    cases hs : step s df dr with
    | none => rfl
    | some t =>
      simp only []
      have ht : t ∈ walk df dr (n + 1) s := by simp [walk, hs]
      have hrec : slide occ df dr n t = slide occ' df dr n t := by
        apply ih
        intro u hu hsu
        apply h u _ hsu
        simp only [walk, hs]
        exact List.mem_cons_of_mem _ hu
      cases hst : step t df dr with
      | none =>
        rw [slide_nil_of_step_none occ df dr n t hst, slide_nil_of_step_none occ' df dr n t hst]
        cases occ t <;> cases occ' t <;> rfl
      | some u =>
        have := h t ht (by rw [hst]; rfl)
        rw [this, hrec]

theorem reach_masked (dirs : List (Int × Int)) (mask occ : BB) (s : Sq)
    (hc : maskCovers mask dirs s = true) :
    dirs.flatMap (fun d => slide (occOf (mask &&& occ)) d.1 d.2 7 s) =
    dirs.flatMap (fun d => slide (occOf occ) d.1 d.2 7 s) := by
  unfold maskCovers at hc
  rw [List.all_eq_true] at hc
  induction dirs with
  | nil => rfl
  | cons d ds ih =>
    simp only [List.flatMap_cons]
    rw [ih (fun x hx => hc x (List.mem_cons_of_mem _ hx))]
    congr 1
    apply slide_congr
    intro t ht hst
    have := hc d List.mem_cons_self
    rw [List.all_eq_true] at this
    have := this t ht
    simp only [Bool.or_eq_true, Option.isNone_iff_eq_none] at this
    rcases this with hn | hm
    · rw [hn] at hst; cases hst
    · simp [occOf, hm]

theorem and_mask_idem (mask occ : BB) : mask &&& (mask &&& occ) = mask &&& occ := by
  rw [← BitVec.and_assoc, BitVec.and_self]

end Chess.Magic
