/-
Soundness of the magic-table generator's acceptance loop (`Model/MagicGen.lean`): whichever candidate multiplier
the loop accepts for a square, afterwards the table answers every occupancy correctly.

The statements of the seven main theorems are fixed; helper lemmas precede them.
-/
import ChessVerif.Model.MagicGen
import ChessVerif.Proofs.Magic

namespace Chess.MagicGen
open Chess Chess.Spec Chess.Magic

theorem getD_set_self (a : Array BB) (i : Nat) (h : i < a.size) (v : BB) :
    (a.set i v).getD i 0#64 = v := by
  simp [Array.getD, h]

theorem getD_set_ne (a : Array BB) (i j : Nat) (h : i < a.size) (v : BB) (hij : i ≠ j) :
    (a.set i v).getD j 0#64 = a.getD j 0#64 := by
  simp [Array.getD, Array.getElem_set, hij]

/-- slots the loop does not touch keep their content, and the table keeps its size -/
theorem fill_frame (magic : BB) (shift offset : Nat) (ps : List Blocker) (data data' : Array BB)
    (h : fill magic shift offset ps data = some data') :
    data'.size = data.size ∧
    ∀ i, (∀ p ∈ ps, indexOf magic shift offset p.puzzle ≠ i) → data'.getD i 0#64 = data.getD i 0#64 := by
  induction ps generalizing data with
  | nil =>
    simp only [fill, Option.some.injEq] at h
    subst h
    exact ⟨rfl, fun _ _ => rfl⟩
  | cons p ps ih =>
    simp only [fill] at h
    split at h
    · rename_i hlt
      split at h
      · obtain ⟨hs, hf⟩ := ih _ h
        refine ⟨by simpa using hs, ?_⟩
        intro i hi
        rw [hf i (fun q hq => hi q (List.mem_cons_of_mem _ hq))]
        exact getD_set_ne _ _ _ hlt _ (hi p List.mem_cons_self)
      · cases h
    · cases h

/-- a slot holding a non-empty board keeps it through an accepted run of the loop -/
theorem fill_keep (magic : BB) (shift offset : Nat) (ps : List Blocker) (data data' : Array BB)
    (h : fill magic shift offset ps data = some data') (i : Nat) (v : BB) (hv : v ≠ 0#64)
    (hi : data.getD i 0#64 = v) : data'.getD i 0#64 = v := by
  induction ps generalizing data with
  | nil =>
    simp only [fill, Option.some.injEq] at h
    subst h
    exact hi
  | cons p ps ih =>
    simp only [fill] at h
    split at h
    · rename_i hlt
      split at h
      · rename_i hc
        apply ih _ h
        by_cases e : indexOf magic shift offset p.puzzle = i
        · subst e
          rw [getD_set_self _ _ hlt]
          have hi' : data[indexOf magic shift offset p.puzzle] = v := by
            simpa [Array.getD, hlt] using hi
          rw [hi'] at hc
          simp only [Bool.or_eq_true, beq_iff_eq] at hc
          rcases hc with hc | hc
          · exact absurd hc hv
          · exact hc.symm
        · rw [getD_set_ne _ _ _ hlt _ e]; exact hi
      · cases h
    · cases h

/-- **the acceptance loop is sound**: if it accepts, every blocker set's slot holds that set's solution
(solutions are never the empty board, which the loop uses as the "unfilled" mark) -/
theorem fill_sound (magic : BB) (shift offset : Nat) (ps : List Blocker) (data data' : Array BB)
    (h : fill magic shift offset ps data = some data')
    (hne : ∀ p ∈ ps, p.solution ≠ 0#64) :
    ∀ p ∈ ps, data'.getD (indexOf magic shift offset p.puzzle) 0#64 = p.solution := by
  induction ps generalizing data with
  | nil => intro p hp; cases hp
  | cons p ps ih =>
    simp only [fill] at h
    split at h
    · rename_i hlt
      split at h
      · intro q hq
        rcases List.mem_cons.mp hq with rfl | hq
        · exact fill_keep _ _ _ _ _ _ h _ _ (hne _ List.mem_cons_self) (getD_set_self _ _ hlt _)
        · exact ih _ h (fun r hr => hne r (List.mem_cons_of_mem _ hr)) q hq
      · cases h
    · cases h

/-- `deposit bits` reaches every word whose set bits all lie in `bits` -/
theorem deposit_complete (bits : List Nat) (x : BB) (hx : ∀ i, x.getLsbD i = true → i ∈ bits) :
    ∃ idx, idx < 2 ^ bits.length ∧ deposit bits idx = x := by
  induction bits generalizing x with
  | nil =>
    refine ⟨0, by simp, ?_⟩
    simp only [deposit]
    apply BitVec.eq_of_getLsbD_eq
    intro i _
    cases hb : x.getLsbD i with
    | false => simp
    | true => exact absurd (hx i hb) (by simp)
  | cons p ps ih =>
    obtain ⟨idx', hlt, hd⟩ := ih (x &&& ~~~(BitVec.twoPow 64 p)) (by
      intro i hi
      simp only [BitVec.getLsbD_and, BitVec.getLsbD_not, BitVec.getLsbD_twoPow, Bool.and_eq_true,
        Bool.not_eq_true', Bool.and_eq_false_imp, decide_eq_true_eq] at hi
      rcases List.mem_cons.mp (hx i hi.1) with rfl | h'
      · have := hi.2.2 hi.2.1
        simp at this
      · exact h')
    refine ⟨2 * idx' + (if x.getLsbD p then 1 else 0), ?_, ?_⟩
    · simp only [List.length_cons, Nat.pow_succ]
      split <;> omega
    · simp only [deposit]
      have h2 : (2 * idx' + (if x.getLsbD p then 1 else 0)) / 2 = idx' := by split <;> omega
      rw [h2, hd]
      apply BitVec.eq_of_getLsbD_eq
      intro i hi
      cases hb : x.getLsbD p with
      | false =>
        have : ¬ (2 * idx' + 0) % 2 = 1 := by omega
        simp only [Bool.false_eq_true, if_false, this]
        simp only [BitVec.getLsbD_or, BitVec.getLsbD_and, BitVec.getLsbD_not, BitVec.getLsbD_twoPow, BitVec.getLsbD_zero]
        by_cases e : p = i
        · subst e; simp [hb]
        · simp [e, hi]
      | true =>
        have : (2 * idx' + 1) % 2 = 1 := by omega
        simp only [if_true, this]
        simp only [BitVec.getLsbD_or, BitVec.getLsbD_and, BitVec.getLsbD_not, BitVec.getLsbD_twoPow]
        by_cases e : p = i
        · subst e; simp [hb, hi]
        · simp [e, hi]

/-- **the enumeration is complete**: every subset of the mask is among the blocker sets, with its solution -/
theorem blockers_complete (mask : BB) (sol : BB → BB) (x : BB) (hx : x &&& mask = x) :
    ∃ p ∈ blockersOf mask sol, p.puzzle = x ∧ p.solution = sol x := by
  obtain ⟨idx, hlt, hd⟩ := deposit_complete (Chess.MagicGen.bitsOf mask) x (by
    intro i hi
    have e : Chess.MagicGen.bitsOf mask = Chess.Magic.bitsOf mask := rfl
    rw [e, mem_bitsOf]
    rw [← hx] at hi
    simp only [BitVec.getLsbD_and, Bool.and_eq_true] at hi
    exact hi.2)
  refine ⟨⟨deposit (Chess.MagicGen.bitsOf mask) idx, sol (deposit (Chess.MagicGen.bitsOf mask) idx)⟩, ?_, ?_, ?_⟩
  · unfold blockersOf
    rw [List.mem_map]
    exact ⟨idx, List.mem_range.mpr hlt, rfl⟩
  · exact hd
  · simp only [hd]


/-! ### a slider always attacks something -/

theorem mem_slide_first (occ : Sq → Bool) (df dr : Int) (n : Nat) (s t : Sq)
    (h : step s df dr = some t) : t ∈ slide occ df dr (n + 1) s := by
  simp only [slide, h]
  split <;> simp

set_option maxRecDepth 100000 in
theorem rook_has_step : ∀ s : Sq, rookDirs.any (fun d => (step s d.1 d.2).isSome) = true := by
  decide +kernel
set_option maxRecDepth 100000 in
theorem bishop_has_step : ∀ s : Sq, bishopDirs.any (fun d => (step s d.1 d.2).isSome) = true := by
  decide +kernel

theorem reach_ne_zero (dirs : List (Int × Int)) (s : Sq) (occ : BB)
    (h : dirs.any (fun d => (step s d.1 d.2).isSome) = true) :
    bbOfList (dirs.flatMap (fun d => slide (occOf occ) d.1 d.2 7 s)) ≠ 0#64 := by
  rw [List.any_eq_true] at h
  obtain ⟨d, hd, hs⟩ := h
  rw [Option.isSome_iff_exists] at hs
  obtain ⟨t, ht⟩ := hs
  intro h0
  have hm := (BB.eq_zero_iff _).1 h0 t
  rw [bbOfList, BB.mem_ofList] at hm
  have : t ∈ dirs.flatMap (fun d => slide (occOf occ) d.1 d.2 7 s) :=
    List.mem_flatMap.mpr ⟨d, hd, mem_slide_first _ _ _ _ _ _ ht⟩
  rw [← List.contains_iff_mem] at this
  rw [this] at hm
  cases hm

/-- a rook (a bishop) attacks at least one square whatever the occupancy -/
theorem rookCast_ne_zero (s : Sq) (occ : BB) : rookCast s occ ≠ 0#64 :=
  reach_ne_zero rookDirs s occ (rook_has_step s)
theorem bishopCast_ne_zero (s : Sq) (occ : BB) : bishopCast s occ ≠ 0#64 :=
  reach_ne_zero bishopDirs s occ (bishop_has_step s)

theorem generated_aux (sol : BB → BB) (hsol : ∀ x, sol x ≠ 0#64) (magic mask : BB) (offset : Nat)
    (data data' : Array BB) (h : trySquare magic mask sol offset data = some data') (occ : BB) :
    data'.getD (indexOf magic (shiftFor mask) offset (mask &&& occ)) 0#64 = sol (mask &&& occ) := by
  unfold trySquare at h
  obtain ⟨p, hp, hpz, hps⟩ := blockers_complete mask sol (mask &&& occ) (by
    rw [BitVec.and_comm, and_mask_idem])
  have hne : ∀ q ∈ blockersOf mask sol, q.solution ≠ 0#64 := by
    intro q hq
    unfold blockersOf at hq
    rw [List.mem_map] at hq
    obtain ⟨i, _, rfl⟩ := hq
    exact hsol _
  have := fill_sound _ _ _ _ _ _ h hne p hp
  rw [hpz, hps] at this
  exact this

/-- **generated rook table**: for a relevance mask that covers the rays' inner squares, if the loop accepts `magic`
then for EVERY occupancy the slot computed from the masked occupancy holds the ray-cast attack set -/
theorem rook_generated (s : Sq) (magic mask : BB) (offset : Nat) (data data' : Array BB)
    (hm : maskCovers mask rookDirs s = true)
    (h : trySquare magic mask (rookCast s) offset data = some data') (occ : BB) :
    data'.getD (indexOf magic (shiftFor mask) offset (mask &&& occ)) 0#64 = rookCast s occ := by
  rw [generated_aux (rookCast s) (rookCast_ne_zero s) magic mask offset data data' h occ]
  simp only [rookCast, rookReach]
  rw [reach_masked rookDirs mask occ s hm]

theorem bishop_generated (s : Sq) (magic mask : BB) (offset : Nat) (data data' : Array BB)
    (hm : maskCovers mask bishopDirs s = true)
    (h : trySquare magic mask (bishopCast s) offset data = some data') (occ : BB) :
    data'.getD (indexOf magic (shiftFor mask) offset (mask &&& occ)) 0#64 = bishopCast s occ := by
  rw [generated_aux (bishopCast s) (bishopCast_ne_zero s) magic mask offset data data' h occ]
  simp only [bishopCast, bishopReach]
  rw [reach_masked bishopDirs mask occ s hm]

end Chess.MagicGen
