/-
Exactness of `alphabeta` / `children` (Model/Engine.lean) against plain minimax `value`
(Proofs/Minimax/Defs.lean): when no poll answers true during the call, the returned score and the
minimax value lie in the same zone of the window (`Agree`).  By induction on the fuel; the moves a
node's loop visits are the list its iterator denotes (`next_spec`), the fuel 5000 of the loop
suffices on well-formed boards.
-/
import ChessVerif.Proofs.Minimax.Order
import ChessVerif.Proofs.Search

namespace Chess.Proofs.Minimax
open Chess Chess.Spec Chess.Engine Chess.MoveGen Chess.Proofs.Search

variable (pos : Bool)

/-- `alphabeta` with this fuel is exact on well-formed successors -/
def ABExact (k fuel : Nat) : Prop :=
  ∀ old mv rem cur alpha beta list st, (old.moveUnchecked mv).WF = true → ¬ sle beta alpha →
    (alphabeta pos k fuel old mv rem cur alpha beta list st).2.polls ≤ k →
    Agree alpha beta (value pos fuel old mv rem cur list) (alphabeta pos k fuel old mv rem cur alpha beta list st).1

theorem window_iff (pc : Color) (alpha beta : Score) :
    sle beta alpha ↔ leC pc (hiC pc alpha beta) (loC pc alpha beta) := by
  cases pc <;> rfl

theorem inv_lo0 {pc : Color} {lo0 hi V s lo : Score} (h : Inv pc lo0 hi V s lo) : ¬ leC pc hi lo0 := by
  obtain ⟨i1, _, i3, i4⟩ := h
  intro hh
  by_cases hV : leC pc V lo0
  · rw [(i3 hV).2] at i1
    exact i1 hh
  · rw [(i4 hV).2] at i1
    exact i1 (leC_trans hh (leC_of_not hV))

theorem agree_high {pc : Color} {lo0 hi Vf R : Score} (h0 : ¬ leC pc hi lo0) (h1 : leC pc hi Vf)
    (h2 : leC pc hi R) : AgreeC pc lo0 hi Vf R :=
  ⟨fun h => absurd (leC_trans h1 h) h0, fun _ h => absurd h1 h, fun _ => h2⟩

/-- one iteration of the `children` loop after the `alphabeta` call, the rest of the loop abstracted -/
theorem child_tail (k : Nat) (pc : Color) (lo0 hi V score alpha beta v : Score) (ab : Score × St)
    (rec : Score → Score → Score → St → Score × St) (Vrest : Score → Score)
    (hhi : hiC pc alpha beta = hi) (hI : Inv pc lo0 hi V score (loC pc alpha beta))
    (hab : ab.2.polls ≤ k → Agree alpha beta v ab.1)
    (hmono : ∀ sc a b, ab.2.polls ≤ (rec sc a b ab.2).2.polls)
    (hge : ∀ x, leC pc x (Vrest x))
    (hrec : ∀ sc a b V', hiC pc a b = hi → Inv pc lo0 hi V' sc (loC pc a b) → (rec sc a b ab.2).2.polls ≤ k →
      AgreeC pc lo0 hi (Vrest V') (rec sc a b ab.2).1)
    (hk : (if Score.le (updateCutoff pc alpha beta (bstep pc score ab.1)).2
              (updateCutoff pc alpha beta (bstep pc score ab.1)).1 = true then (bstep pc score ab.1, ab.2)
            else rec (bstep pc score ab.1) (updateCutoff pc alpha beta (bstep pc score ab.1)).1
              (updateCutoff pc alpha beta (bstep pc score ab.1)).2 ab.2).2.polls ≤ k) :
    AgreeC pc lo0 hi (Vrest (bstep pc V v))
      (if Score.le (updateCutoff pc alpha beta (bstep pc score ab.1)).2
              (updateCutoff pc alpha beta (bstep pc score ab.1)).1 = true then (bstep pc score ab.1, ab.2)
            else rec (bstep pc score ab.1) (updateCutoff pc alpha beta (bstep pc score ab.1)).1
              (updateCutoff pc alpha beta (bstep pc score ab.1)).2 ab.2).1 := by
  have hstep := fun (hp : ab.2.polls ≤ k) => inv_step pc lo0 hi V score (loC pc alpha beta) v ab.1
    (loC pc (updateCutoff pc alpha beta (bstep pc score ab.1)).1 (updateCutoff pc alpha beta (bstep pc score ab.1)).2)
    hI (by rw [← hhi]; exact (agree_iff pc alpha beta _ _).1 (hab hp))
    (updateCutoff_lo_keep pc alpha beta _) (updateCutoff_lo_raise pc alpha beta _)
  have hcut := cutoff_iff pc (updateCutoff pc alpha beta (bstep pc score ab.1)).1
    (updateCutoff pc alpha beta (bstep pc score ab.1)).2
  rw [updateCutoff_hi, hhi] at hcut
  by_cases hc : Score.le (updateCutoff pc alpha beta (bstep pc score ab.1)).2
      (updateCutoff pc alpha beta (bstep pc score ab.1)).1 = true
  · rw [if_pos hc] at hk ⊢
    obtain ⟨h1, h2⟩ := (hstep hk).1 (hcut.1 hc)
    exact agree_high (inv_lo0 hI) (leC_trans h1 (hge _)) h2
  · rw [if_neg hc] at hk ⊢
    have hp : ab.2.polls ≤ k := Nat.le_trans (hmono _ _ _) hk
    have hI' := (hstep hp).2 (fun h => hc (hcut.2 h))
    exact hrec _ _ _ _ (by rw [updateCutoff_hi, hhi]) hI' hk

theorem children_exact (k fuel : Nat) (hAB : ABExact pos k fuel)
    (board : Board) (pc : Color) (rem cur : Nat) (list : BoardList) (lo0 hi : Score) :
    ∀ n moves score alpha beta st V, Good moves → (mvsAt moves).length < n →
      (∀ m ∈ mvsAt moves, (board.moveUnchecked m).WF = true) →
      hiC pc alpha beta = hi → Inv pc lo0 hi V score (loC pc alpha beta) →
      (children pos k fuel board pc rem cur list n moves score alpha beta st).2.polls ≤ k →
      AgreeC pc lo0 hi
        (((mvsAt moves).map (fun m => value pos fuel board m rem cur list)).foldl (bstep pc) V)
        (children pos k fuel board pc rem cur list n moves score alpha beta st).1 := by
  intro n
  induction n with
  | zero => intro moves score alpha beta st V _ hl; omega
  | succ n ih =>
    intro moves score alpha beta st V hg hl hwf hhi hI hk
    rw [children.eq_2] at hk ⊢
    obtain ⟨s1, s2, s3⟩ := next_spec moves hg
    cases hn : moves.next with
    | mk o moves' =>
      rw [hn] at s1 s2 s3 hk
      simp only at s1 s2 s3 hk ⊢
      cases hm : mvsAt moves with
      | nil =>
        rw [hm] at s1
        simp only [List.head?_nil] at s1
        subst s1
        simp only [List.map_nil, List.foldl_nil]
        exact inv_final pc lo0 hi V score _ hI
      | cons a t =>
        rw [hm] at s1 s2 hl hwf
        simp only [List.head?_cons, List.tail_cons, List.length_cons] at s1 s2 hl
        subst s1
        simp only [poll] at hk ⊢
        by_cases hd : st.polls ≥ k
        · simp only [hd, decide_true, if_true] at hk
          have hk' : st.polls + 1 ≤ k := hk
          omega
        · simp only [hd, decide_false, Bool.false_eq_true, if_false] at hk ⊢
          have hwa := hwf a List.mem_cons_self
          have hab := hAB board a rem cur alpha beta list { polls := st.polls + 1, evals := st.evals } hwa
            (fun h => hI.1 (by rw [← hhi]; exact (window_iff pc alpha beta).1 h))
          simp only [List.map_cons, List.foldl_cons]
          exact child_tail k pc lo0 hi V score alpha beta (value pos fuel board a rem cur list)
            (alphabeta pos k fuel board a rem cur alpha beta list { polls := st.polls + 1, evals := st.evals })
            (fun sc a b s => children pos k fuel board pc rem cur list n moves' sc a b s)
            (fun x => (t.map (fun m => value pos fuel board m rem cur list)).foldl (bstep pc) x)
            hhi hI hab
            (fun sc a b => (children_spec pos k fuel (alphabeta_spec pos k fuel) n board pc rem cur list moves' sc a b _).1)
            (fun x => foldl_bstep_ge pc _ x)
            (fun sc a b V' h1 h2 h3 => by
              have := ih moves' sc a b _ V' s3 (by rw [s2]; omega)
                (by rw [s2]; exact fun m hm => hwf m (List.mem_cons_of_mem _ hm)) h1 h2 h3
              rw [s2] at this
              exact this)
            hk

theorem succ_WF (b : Board) (hwf : b.WF = true) (m : Move) (hm : m ∈ mvsOf (MoveGen.legals b)) :
    (b.moveUnchecked m).WF = true := by
  apply Props.C02.move_WF b hwf m
  rw [Props.C01.isLegal_iff, Search.legalsList_eq b hwf]
  exact hm

/-- the part of `alphabeta` after the draw tests -/
theorem node_exact (k fuel : Nat) (hAB : ABExact pos k fuel) (board : Board) (hwf : board.WF = true)
    (rem cur : Nat) (alpha beta : Score) (list : BoardList) (st : St) (hw : ¬ sle beta alpha)
    (c : Bool) (moves : MoveGen) (h0 : moves.promoIdx = 0) (hlen : moves.moves.length ≤ 18)
    (hsub : ∀ m ∈ mvsOf moves, m ∈ mvsOf (MoveGen.legals board))
    (hk : (if c = true then (eval pos board, ({ polls := st.polls, evals := st.evals + 1 } : St))
      else children pos k fuel board board.turn rem cur list 5000 moves (worst board.turn) alpha beta st).2.polls ≤ k) :
    Agree alpha beta
      (if c = true then eval pos board
       else best board.turn ((mvsOf moves).map (fun m => value pos fuel board m rem cur list)))
      (if c = true then (eval pos board, ({ polls := st.polls, evals := st.evals + 1 } : St))
      else children pos k fuel board board.turn rem cur list 5000 moves (worst board.turn) alpha beta st).1 := by
  cases c with
  | true => exact agree_refl _ _ _
  | false =>
    simp only [Bool.false_eq_true, if_false] at hk ⊢
    rw [agree_iff board.turn]
    have hat := mvsAt_of_zero moves h0
    have := children_exact pos k fuel hAB board board.turn rem cur list (loC board.turn alpha beta)
      (hiC board.turn alpha beta) 5000 moves (worst board.turn) alpha beta st (worst board.turn)
      (good_of_zero moves h0) (by rw [hat]; exact Entries.mvsOf_length_lt moves hlen)
      (by rw [hat]; exact fun m hm => succ_WF board hwf m (hsub m hm)) rfl
      (inv_init _ _ _ (fun h => hw ((window_iff board.turn alpha beta).2 h))) hk
    rw [hat] at this
    exact this

theorem alphabeta_succ_exact (k fuel : Nat) (hAB : ABExact pos k fuel) : ABExact pos k (fuel + 1) := by
  intro old mv rem cur alpha beta list st hwf hw hk
  rw [alphabeta.eq_2] at hk ⊢
  rw [value.eq_2]
  generalize (if (old.raw.get mv.dest).isSome = true then BoardList.new (old.moveUnchecked mv) list.table
    else list.add (old.moveUnchecked mv)) = list' at hk ⊢
  simp only [] at hk ⊢
  by_cases h1 : ((old.raw.get mv.dest).isSome && insufficientMaterial (old.moveUnchecked mv)) = true
  · simp only [h1, if_true]
    exact agree_refl _ _ _
  simp only [h1, Bool.false_eq_true, if_false] at hk ⊢
  by_cases h2 : (MoveGen.legals (old.moveUnchecked mv)).isEmpty = true
  · simp only [h2, if_true]
    exact agree_refl _ _ _
  simp only [h2, Bool.false_eq_true, if_false] at hk ⊢
  by_cases h3 : (old.moveUnchecked mv).half ≥ 100
  · simp only [h3, if_true]
    exact agree_refl _ _ _
  simp only [h3, if_false] at hk ⊢
  by_cases h4 : (list'.headCount == 3) = true
  · simp only [h4, if_true]
    exact agree_refl _ _ _
  simp only [h4, Bool.false_eq_true, if_false] at hk ⊢
  have hlen : (MoveGen.legals (old.moveUnchecked mv)).moves.length ≤ 18 := Legal.wf_entries_le _ hwf
  by_cases h5 : (rem == 0 && (old.raw.get mv.dest).isSome) = true
  · simp only [h5, if_true] at hk ⊢
    exact node_exact pos k fuel hAB (old.moveUnchecked mv) hwf (rem - 1) (cur + 1) alpha beta list' st hw _ _ rfl
      (by
        show (compact _ _).length ≤ 18
        rw [(compact_perm _ _).length_eq]
        exact hlen)
      (fun m hm => (avail_legals_iff _ m).1 ((mem_mvsOf_setMask _ _ m).1 hm).1) hk
  · simp only [h5, Bool.false_eq_true, if_false] at hk ⊢
    exact node_exact pos k fuel hAB (old.moveUnchecked mv) hwf (rem - 1) (cur + 1) alpha beta list' st hw _ _ rfl
      hlen (fun m hm => hm) hk

theorem alphabeta_exact (k : Nat) : ∀ fuel, ABExact pos k fuel := by
  intro fuel
  induction fuel with
  | zero =>
    intro old mv rem cur alpha beta list st _ _ _
    rw [alphabeta.eq_1, value.eq_1]
    exact agree_refl _ _ _
  | succ fuel ih => exact alphabeta_succ_exact pos k fuel ih

end Chess.Proofs.Minimax
