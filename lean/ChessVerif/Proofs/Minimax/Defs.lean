/-
Plain minimax over the same game tree as the engine's `alphabeta` (C13): no window, no polls, the
moves of a node taken as the list the iterator denotes.  `value` follows `alphabeta` line by line
(same draw rules, same capture extension, same fuel), `rootValue` is what a complete deepening
pass at `depth` must report, `pass` is one deepening pass of `deepen` and `completed` the list of
(depth, score) of the passes a search completes.
-/
import ChessVerif.Model.Engine
import ChessVerif.Proofs.Iter

namespace Chess.Engine
open Chess Chess.MoveGen

/-- the best of a list of scores for the side `pc`, first one kept among equals (`is_better` is strict) -/
def best (pc : Color) (scores : List Score) : Score :=
  scores.foldl (fun acc s => if isBetter pc acc s then s else acc) (worst pc)

/-- `alphabeta` without window and polls -/
def value (pos : Bool) : Nat → Board → Move → (rem cur : Nat) → BoardList → Score
  | 0, _, _, _, _, _ => .raw 0
  | fuel + 1, old, mv, rem, cur, list =>
    let board := old.moveUnchecked mv
    let pc := board.turn
    let wasCapture := (old.raw.get mv.dest).isSome
    let list := if wasCapture then BoardList.new board list.table else list.add board
    if wasCapture && insufficientMaterial board then .raw 0 else
    let moves := MoveGen.legals board
    if moves.isEmpty then
      (if board.inCheck then
        (match pc with | .white => Score.blackMateIn cur | .black => Score.whiteMateIn cur)
       else .raw 0)
    else if board.half ≥ 100 then .raw 0
    else if list.headCount == 3 then .raw 0
    else
      let (isComplete, moves) :=
        if rem == 0 && wasCapture then
          let m := moves.setMask (board.raw.color pc.flip)
          (m.isEmpty, m)
        else (rem == 0, moves)
      if isComplete then eval pos board
      else best pc ((mvsOf moves).map fun m => value pos fuel board m (rem - 1) (cur + 1) list)

/-- the score a complete deepening pass at `depth` reports: the best root move by plain minimax -/
def rootValue (pos : Bool) (b : Board) (tf : ThreeFold) (depth : Nat) : Score :=
  best b.turn ((mvsOf (MoveGen.legals b)).map fun m => value pos (depth + 40) b m depth 1 (BoardList.new b tf))

/-- one deepening pass of `deepen` (its loop body up to and including the closing poll):
`(some p, st)` when the pass completed, `(none, st)` when a poll cut it short -/
def pass (pos : Bool) (k : Nat) (board : Board) (pc : Color) (tf : ThreeFold) (depth : Nat) (bestMv : Option Move)
    (st : St) : Option Pass × St :=
  let p0 : Pass := ⟨worst pc, none, .min, .max⟩
  let moves := MoveGen.legals board
  let (stop, p1, moves, st) : Bool × Pass × MoveGen × St :=
    match bestMv with
    | some mv =>
      let moves := (moves.removeMove mv).1
      match rootMove pos k board pc depth tf mv p0 st with
      | (none, st) => (true, p0, moves, st)
      | (some p, st) => (false, p, moves, st)
    | none => (false, p0, moves, st)
  if stop then (none, st) else
  let moves := moves.setMask (board.raw.color pc.flip)
  let (p2, moves, st) := rootLoop pos k board pc depth tf 5000 moves p1 st
  let moves := moves.setMask BB.full
  let (p3, _, st) := rootLoop pos k board pc depth tf 5000 moves p2 st
  let (done, st) := poll k st
  if done then (none, st) else (some p3, st)

/-- the (depth, score) of every pass the deepening loop completes, in order -/
def completed (pos : Bool) (k : Nat) (board : Board) (pc : Color) (tf : ThreeFold) :
    Nat → (depth : Nat) → (bestMv : Option Move) → St → List (Nat × Score)
  | 0, _, _, _ => []
  | passes + 1, depth, bestMv, st =>
    match pass pos k board pc tf depth bestMv st with
    | (none, _) => []
    | (some p3, st) =>
      (depth, p3.score) ::
        (match p3.score with
         | .blackMateIn _ | .whiteMateIn _ => []
         | _ => completed pos k board pc tf passes (if depth + 1 ≥ 65535 then 65535 else depth + 1) p3.best st)

/-- the completed passes of `search pos board tf k` -/
def searchPasses (pos : Bool) (board : Board) (tf : ThreeFold) (k : Nat) : List (Nat × Score) :=
  completed pos k board board.turn tf (k + 2) 0 none ⟨0, 0⟩

end Chess.Engine
