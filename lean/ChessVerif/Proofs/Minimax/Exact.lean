/-
Layer M of the C13 argument: a deepening pass that no poll cuts short reports exactly the
plain-minimax value of the root (`rootValue`), whatever the order in which the moves are tried and
whatever the previous best move was: alpha-beta with the engine's fail-soft bookkeeping is exact
inside its window and the root window is (`Min`, `Max`).  Statements fixed; proofs below.
Everything here holds for both values of the engine's `positional` flag `pos` (the argument uses of the evaluation
only that it is a function of the board returning a numeric score).
-/
import ChessVerif.Proofs.Minimax.Defs
import ChessVerif.Proofs.Search
import ChessVerif.Props.C14
import ChessVerif.Proofs.Minimax.RootExact

namespace Chess.Proofs.Minimax
open Chess Chess.Spec Chess.Engine Chess.MoveGen Chess.Proofs.Search

variable (pos : Bool)

/-- **exactness of one pass**: for a well-formed root without promotion moves (the property's
hypothesis; `remove_move` of a promotion drops all four choices, finding F11), a pass that
completes reports the plain-minimax value, and its best move is again a legal move -/
theorem pass_exact (b : Board) (hwf : b.WF = true) (tf : ThreeFold) (k depth : Nat)
    (bestMv : Option Move) (st st' : St) (p : Pass)
    (hnp : ∀ m ∈ mvsOf (legals b), m.piece = none)
    (hb : ∀ m, bestMv = some m → m ∈ mvsOf (legals b))
    (h : pass pos k b b.turn tf depth bestMv st = (some p, st')) :
    p.score = rootValue pos b tf depth ∧ (∀ m, p.best = some m → m ∈ mvsOf (legals b)) := by
  have := pass_exact' pos b hwf b.turn tf k depth bestMv st st' p hnp hb h
  exact ⟨this.1, this.2.2.2.2⟩

/-- every pass the deepening loop completes reports the plain-minimax value of its depth, as long
as the best move carried into it is a legal move -/
theorem completed_exact (b : Board) (hwf : b.WF = true) (tf : ThreeFold) (k : Nat)
    (hnp : ∀ m ∈ mvsOf (legals b), m.piece = none) :
    ∀ passes depth bestMv st, (∀ m, bestMv = some m → m ∈ mvsOf (legals b)) →
      ∀ ds ∈ completed pos k b b.turn tf passes depth bestMv st, ds.2 = rootValue pos b tf ds.1 := by
  intro passes
  induction passes with
  | zero =>
    intro depth bestMv st _ ds hds
    rw [completed.eq_1] at hds
    cases hds
  | succ passes ih =>
    intro depth bestMv st hb ds hds
    rw [completed.eq_2] at hds
    cases hp : pass pos k b b.turn tf depth bestMv st with
    | mk op st' =>
      rw [hp] at hds
      cases op with
      | none => cases hds
      | some p3 =>
        obtain ⟨e1, e2⟩ := pass_exact pos b hwf tf k depth bestMv st st' p3 hnp hb hp
        simp only at hds
        rcases List.mem_cons.1 hds with rfl | hrest
        · exact e1
        · split at hrest
          · cases hrest
          · cases hrest
          · exact ih _ _ _ e2 ds hrest

/-- every completed pass of a search reports the plain-minimax value of its depth -/
theorem searchPasses_exact (b : Board) (hwf : b.WF = true) (tf : ThreeFold) (k : Nat)
    (hnp : ∀ m ∈ mvsOf (legals b), m.piece = none) :
    ∀ ds ∈ searchPasses pos b tf k, ds.2 = rootValue pos b tf ds.1 :=
  completed_exact pos b hwf tf k hnp (k + 2) 0 none ⟨0, 0⟩ (fun m hm => by cases hm)

/-- what `deepen` does with the outcome of a pass -/
def afterPass (k : Nat) (b : Board) (pc : Color) (tf : ThreeFold) (passes depth : Nat)
    (bestMv : Option Move) (bestScore : Score) (maxDepth : Nat) (r : Option Pass × St) : Result :=
  match r with
  | (none, st') => ⟨bestMv, bestScore, maxDepth, st'.evals, st'.polls⟩
  | (some p3, st') =>
    match p3.score with
    | .blackMateIn _ | .whiteMateIn _ => ⟨p3.best, p3.score, depth, st'.evals, st'.polls⟩
    | _ => deepen pos k b pc tf passes (if depth + 1 ≥ 65535 then 65535 else depth + 1) p3.best p3.score depth st'

theorem passTail_passEnd (k : Nat) (b : Board) (pc : Color) (tf : ThreeFold) (passes depth : Nat)
    (bestMv : Option Move) (bestScore : Score) (maxDepth : Nat) (p1 : Pass) (moves : MoveGen) (st : St) :
    passTail pos k b pc tf passes depth bestMv bestScore maxDepth p1 moves st =
      afterPass pos k b pc tf passes depth bestMv bestScore maxDepth (passEnd pos k b pc tf depth p1 moves st) := by
  rw [passTail_eq pos k b pc tf passes depth bestMv bestScore maxDepth p1 moves st _ _ rfl rfl]
  unfold passEnd
  simp only
  generalize rootLoop pos k b pc depth tf 5000 (MoveGen.setMask _ BB.full) _ _ = l2
  by_cases hd : l2.2.2.polls ≥ k
  · rw [if_pos hd, if_pos hd]
    rfl
  · rw [if_neg hd, if_neg hd]
    rfl

theorem deepen_pass (k : Nat) (b : Board) (pc : Color) (tf : ThreeFold) (passes depth : Nat)
    (bestMv : Option Move) (bestScore : Score) (maxDepth : Nat) (st : St) :
    deepen pos k b pc tf (passes + 1) depth bestMv bestScore maxDepth st =
      afterPass pos k b pc tf passes depth bestMv bestScore maxDepth (pass pos k b pc tf depth bestMv st) := by
  cases bestMv with
  | none => rw [deepen_none, pass_none_eq, passTail_passEnd]
  | some mv =>
    rw [deepen_some, pass_some_eq]
    cases hr : rootMove pos k b pc depth tf mv (pass0 pc) st with
    | mk op st' =>
      cases op with
      | none => rfl
      | some p => simp only; rw [passTail_passEnd]

theorem deepen_reports (k : Nat) (b : Board) (pc : Color) (tf : ThreeFold) :
    ∀ passes depth bestMv bestScore maxDepth st,
      ((completed pos k b pc tf passes depth bestMv st).getLast? = none →
        (deepen pos k b pc tf passes depth bestMv bestScore maxDepth st).score = bestScore ∧
          (deepen pos k b pc tf passes depth bestMv bestScore maxDepth st).move = bestMv ∧
          (deepen pos k b pc tf passes depth bestMv bestScore maxDepth st).maxDepth = maxDepth) ∧
      (∀ d s, (completed pos k b pc tf passes depth bestMv st).getLast? = some (d, s) →
        (deepen pos k b pc tf passes depth bestMv bestScore maxDepth st).score = s ∧
          (deepen pos k b pc tf passes depth bestMv bestScore maxDepth st).maxDepth = d) := by
  intro passes
  induction passes with
  | zero =>
    intro depth bestMv bestScore maxDepth st
    rw [completed.eq_1, deepen.eq_1]
    exact ⟨fun _ => ⟨rfl, rfl, rfl⟩, fun d s h => by cases h⟩
  | succ passes ih =>
    intro depth bestMv bestScore maxDepth st
    rw [completed.eq_2, deepen_pass]
    cases hp : pass pos k b pc tf depth bestMv st with
    | mk op st' =>
      cases op with
      | none =>
        simp only [afterPass]
        refine ⟨fun _ => ?_, fun d s h => by cases h⟩
        first | exact ⟨rfl, rfl, rfl⟩ | simp only [and_self]
      | some p3 =>
        simp only [afterPass]
        have hih := ih (if depth + 1 ≥ 65535 then 65535 else depth + 1) p3.best p3.score depth st'
        have hcons : ∀ rest : List (Nat × Score),
            (rest.getLast? = none → ((depth, p3.score) :: rest).getLast? = some (depth, p3.score)) ∧
            (∀ x, rest.getLast? = some x → ((depth, p3.score) :: rest).getLast? = some x) := by
          intro rest
          cases rest with
          | nil => exact ⟨fun _ => rfl, fun x h => by cases h⟩
          | cons y t =>
            refine ⟨fun h => ?_, fun x h => ?_⟩
            · rw [List.getLast?_eq_none_iff] at h; cases h
            · rw [List.getLast?_cons_cons]; exact h
        have fin : ∀ R : Result,
            (((completed pos k b pc tf passes (if depth + 1 ≥ 65535 then 65535 else depth + 1) p3.best st').getLast? = none →
              R.score = p3.score ∧ R.move = p3.best ∧ R.maxDepth = depth) ∧
            (∀ d s, (completed pos k b pc tf passes (if depth + 1 ≥ 65535 then 65535 else depth + 1) p3.best st').getLast? = some (d, s) →
              R.score = s ∧ R.maxDepth = d)) →
            ((((depth, p3.score) :: completed pos k b pc tf passes (if depth + 1 ≥ 65535 then 65535 else depth + 1) p3.best st').getLast? = none →
              R.score = bestScore ∧ R.move = bestMv ∧ R.maxDepth = maxDepth) ∧
            (∀ d s, ((depth, p3.score) :: completed pos k b pc tf passes (if depth + 1 ≥ 65535 then 65535 else depth + 1) p3.best st').getLast? = some (d, s) →
              R.score = s ∧ R.maxDepth = d)) := by
          intro R hR
          generalize completed pos k b pc tf passes (if depth + 1 ≥ 65535 then 65535 else depth + 1) p3.best st' = rest at hR
          obtain ⟨c1, c2⟩ := hcons rest
          refine ⟨fun h => ?_, fun d s h => ?_⟩
          · cases hl : rest.getLast? with
            | none => rw [c1 hl] at h; cases h
            | some x => rw [c2 x hl] at h; cases h
          · cases hl : rest.getLast? with
            | none =>
              rw [c1 hl] at h
              cases h
              have := hR.1 hl
              exact ⟨this.1, this.2.2⟩
            | some x =>
              rw [c2 x hl] at h
              cases h
              exact hR.2 _ _ hl
        cases hs : p3.score with
        | blackMateIn n =>
          simp only []
          refine ⟨fun h => ?_, fun d s h => ?_⟩
          · rw [List.getLast?_singleton] at h; cases h
          · rw [List.getLast?_singleton] at h; cases h; exact ⟨rfl, rfl⟩
        | whiteMateIn n =>
          simp only []
          refine ⟨fun h => ?_, fun d s h => ?_⟩
          · rw [List.getLast?_singleton] at h; cases h
          · rw [List.getLast?_singleton] at h; cases h; exact ⟨rfl, rfl⟩
        | min => rw [hs] at hih fin; exact fin _ hih
        | max => rw [hs] at hih fin; exact fin _ hih
        | raw y => rw [hs] at hih fin; exact fin _ hih

/-- what `search` returns is the last completed pass (or the initial values if none completed) -/
theorem search_reports (b : Board) (tf : ThreeFold) (k prev : Nat) :
    match (searchPasses pos b tf k).getLast? with
    | none => (search pos b tf k prev).score = worst b.turn ∧ (search pos b tf k prev).move = none ∧
        (search pos b tf k prev).maxDepth = prev
    | some (d, s) => (search pos b tf k prev).score = s ∧ (search pos b tf k prev).maxDepth = d := by
  have h := deepen_reports pos k b b.turn tf (k + 2) 0 none (worst b.turn) prev ⟨0, 0⟩
  split
  · rename_i heq
    exact h.1 heq
  · rename_i d s heq
    exact h.2 d s heq

end Chess.Proofs.Minimax
