/-
C13, assembled: the scores two searches (shipped configuration, `positional = false`) — of a position and of its
colour mirror — report for the same completed depth are negations of each other.
-/
import ChessVerif.Proofs.Minimax.Exact
import ChessVerif.Proofs.Minimax.Sym

namespace Chess.Proofs.Minimax
open Chess Chess.Spec Chess.Engine Chess.MoveGen Chess.Proofs.BoardSym

/-- a root without promotion moves stays one under the mirror -/
theorem noPromo_mirror (b : Board) (hwf : b.WF = true)
    (hnp : ∀ m ∈ mvsOf (legals b), m.piece = none) :
    ∀ m ∈ mvsOf (legals b.mirror), m.piece = none := by
  intro m hm
  have hm' := (legals_mirror b hwf).mem_iff.mp hm
  obtain ⟨m0, hm0, rfl⟩ := List.mem_map.mp hm'
  simpa [Move.mirror] using hnp m0 hm0

/-- **C13**: well-formed position, no promotion move at the root, empty repetition history; any two
expiry indices `k`, `k'`: whenever both searches complete depth `d`, the reported scores are
negations (a white mate in n becomes a black mate in n) -/
theorem search_mirror (b : Board) (hwf : b.WF = true)
    (hnp : ∀ m ∈ mvsOf (legals b), m.piece = none) (k k' d : Nat) (s s' : Score)
    (h : (d, s) ∈ searchPasses false b [] k) (h' : (d, s') ∈ searchPasses false b.mirror [] k') :
    s' = negScore s := by
  have e1 := searchPasses_exact false b hwf [] k hnp (d, s) h
  have e2 := searchPasses_exact false b.mirror (mirror_WF b hwf) [] k' (noPromo_mirror b hwf hnp) (d, s') h'
  simp only at e1 e2
  rw [e2, e1, rootValue_mirror b hwf d]

end Chess.Proofs.Minimax
