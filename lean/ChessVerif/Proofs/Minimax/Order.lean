/-
Order toolkit for the exactness proof of alpha-beta (Layer M of C13): the score order as a
proposition (`sle`), the same order seen from the side that maximises/minimises (`leC pc`), the
engine's policy operations (`isBetter`, `updateCutoff`, the cut-off test) in these terms, the
"same zone of the window" relation `Agree` between the true value and the value alpha-beta returns,
and the two purely order-theoretic loop steps (inner node, root).
-/
import ChessVerif.Props.C14
import ChessVerif.Model.Engine
import ChessVerif.Proofs.Minimax.Defs

namespace Chess.Proofs.Minimax
open Chess Chess.Spec Chess.Engine Chess.Gen.ScoreFns

/-- `a ≤ b` in the score order -/
def sle (a b : Score) : Prop := cmp a b ≠ .gt

theorem sle_refl (a : Score) : sle a a := by
  unfold sle; rw [Props.C14.cmp_refl]; decide

theorem sle_trans {a b c : Score} (h1 : sle a b) (h2 : sle b c) : sle a c := by
  unfold sle at *
  rw [Props.C14.cmp_eq_spec] at *
  unfold scoreCmp lexCmp at *
  grind

theorem sle_total (a b : Score) : sle a b ∨ sle b a := by
  unfold sle
  rw [Props.C14.cmp_swap b a]
  cases cmp a b <;> simp [Ordering.swap]

theorem sle_antisymm {a b : Score} (h1 : sle a b) (h2 : sle b a) : a = b := by
  unfold sle at *
  rw [Props.C14.cmp_swap b a] at h2
  apply (Props.C14.cmp_eq_iff a b).1
  cases h : cmp a b
  · rw [h] at h2; exact absurd rfl h2
  · rfl
  · exact absurd h h1

theorem lt_iff_not_sle (a b : Score) : cmp a b = .lt ↔ ¬ sle b a := by
  unfold sle
  rw [Props.C14.cmp_swap b a]
  cases cmp a b <;> simp [Ordering.swap]

theorem gt_iff_not_sle (a b : Score) : cmp a b = .gt ↔ ¬ sle a b := by
  unfold sle
  simp

/-- the order seen from side `pc`: White prefers greater, Black prefers smaller scores -/
def leC (pc : Color) (a b : Score) : Prop :=
  match pc with
  | .white => sle a b
  | .black => sle b a

theorem leC_refl (pc : Color) (a : Score) : leC pc a a := by cases pc <;> exact sle_refl a

theorem leC_trans {pc : Color} {a b c : Score} (h1 : leC pc a b) (h2 : leC pc b c) : leC pc a c := by
  cases pc
  · exact sle_trans h1 h2
  · exact sle_trans h2 h1

theorem leC_total (pc : Color) (a b : Score) : leC pc a b ∨ leC pc b a := by
  cases pc
  · exact sle_total a b
  · exact sle_total b a

theorem leC_antisymm {pc : Color} {a b : Score} (h1 : leC pc a b) (h2 : leC pc b a) : a = b := by
  cases pc
  · exact sle_antisymm h1 h2
  · exact sle_antisymm h2 h1

theorem leC_of_not {pc : Color} {a b : Score} (h : ¬ leC pc a b) : leC pc b a := by
  rcases leC_total pc a b with h' | h'
  · exact absurd h' h
  · exact h'

/-- the best score of all for `pc` -/
def top (pc : Color) : Score := worst pc.flip

theorem worst_leC (pc : Color) (a : Score) : leC pc (worst pc) a := by
  cases pc
  · exact Props.C14.min_least a
  · exact Props.C14.max_greatest a

theorem leC_top (pc : Color) (a : Score) : leC pc a (top pc) := by
  cases pc
  · exact Props.C14.max_greatest a
  · exact Props.C14.min_least a

/-- not one of the two sentinels -/
def NSc (s : Score) : Prop := s ≠ .min ∧ s ≠ .max

theorem not_top_leC (pc : Color) (a : Score) (h : NSc a) : ¬ leC pc (top pc) a := by
  intro hle
  have := leC_antisymm hle (leC_top pc a)
  cases pc
  · exact h.2 this.symm
  · exact h.1 this.symm

theorem not_leC_worst (pc : Color) (a : Score) (h : NSc a) : ¬ leC pc a (worst pc) := by
  intro hle
  have := leC_antisymm hle (worst_leC pc a)
  cases pc
  · exact h.1 this
  · exact h.2 this

theorem not_top_leC_worst (pc : Color) : ¬ leC pc (top pc) (worst pc) := by
  cases pc <;> (unfold leC sle top worst; decide)

theorem isBetter_iff (pc : Color) (s n : Score) : isBetter pc s n = true ↔ ¬ leC pc n s := by
  cases pc
  · simp only [isBetter, Score.lt, Props.C14.partialCmp_eq, beq_iff_eq, Option.some.injEq, leC]
    exact lt_iff_not_sle s n
  · simp only [isBetter, Score.gt, Props.C14.partialCmp_eq, beq_iff_eq, Option.some.injEq, leC]
    exact gt_iff_not_sle s n

/-- the bound of the window that `pc` raises, and the one it leaves alone -/
def loC (pc : Color) (alpha beta : Score) : Score := match pc with | .white => alpha | .black => beta
def hiC (pc : Color) (alpha beta : Score) : Score := match pc with | .white => beta | .black => alpha

theorem updateCutoff_hi (pc : Color) (alpha beta s : Score) :
    hiC pc (updateCutoff pc alpha beta s).1 (updateCutoff pc alpha beta s).2 = hiC pc alpha beta := by
  cases pc <;> rfl

theorem updateCutoff_lo_keep (pc : Color) (alpha beta s : Score) (h : leC pc s (loC pc alpha beta)) :
    loC pc (updateCutoff pc alpha beta s).1 (updateCutoff pc alpha beta s).2 = loC pc alpha beta := by
  cases pc
  · simp only [loC, updateCutoff, Score.maxS, Score.lt, Props.C14.partialCmp_eq, beq_iff_eq,
      Option.some.injEq]
    simp only [leC, loC] at h
    rw [if_neg]
    rw [lt_iff_not_sle]
    exact fun hn => hn h
  · simp only [loC, updateCutoff, Score.minS, Score.lt, Props.C14.partialCmp_eq, beq_iff_eq,
      Option.some.injEq]
    simp only [leC, loC] at h
    split
    · rfl
    · rename_i hn
      rw [lt_iff_not_sle] at hn
      have h2 : sle s beta := Classical.not_not.1 hn
      exact sle_antisymm h2 h

theorem updateCutoff_lo_raise (pc : Color) (alpha beta s : Score) (h : leC pc (loC pc alpha beta) s) :
    loC pc (updateCutoff pc alpha beta s).1 (updateCutoff pc alpha beta s).2 = s := by
  cases pc
  · simp only [loC, updateCutoff, Score.maxS, Score.lt, Props.C14.partialCmp_eq, beq_iff_eq,
      Option.some.injEq]
    simp only [leC, loC] at h
    split
    · rfl
    · rename_i hn
      rw [lt_iff_not_sle] at hn
      have h2 : sle s alpha := Classical.not_not.1 hn
      exact sle_antisymm h h2
  · simp only [loC, updateCutoff, Score.minS, Score.lt, Props.C14.partialCmp_eq, beq_iff_eq,
      Option.some.injEq]
    simp only [leC, loC] at h
    rw [if_neg]
    rw [lt_iff_not_sle]
    exact fun hn => hn h

theorem cutoff_iff (pc : Color) (alpha beta : Score) :
    Score.le beta alpha = true ↔ leC pc (hiC pc alpha beta) (loC pc alpha beta) := by
  have : Score.le beta alpha = true ↔ sle beta alpha := by
    unfold Score.le sle
    simp only [Props.C14.partialCmp_eq, Bool.or_eq_true, beq_iff_eq, Option.some.injEq]
    cases cmp beta alpha <;> simp
  rw [this]
  cases pc <;> rfl

/-- the true value `v` and the returned value `r` lie in the same zone of the window
(`alpha`, `beta`): both at or below `alpha`, both at or above `beta`, or equal -/
def Agree (alpha beta v r : Score) : Prop :=
  (sle v alpha → sle r alpha) ∧ (¬ sle v alpha → ¬ sle beta v → r = v) ∧ (sle beta v → sle beta r)

/-- the same seen from side `pc` -/
def AgreeC (pc : Color) (lo hi v r : Score) : Prop :=
  (leC pc v lo → leC pc r lo) ∧ (¬ leC pc v lo → ¬ leC pc hi v → r = v) ∧ (leC pc hi v → leC pc hi r)

theorem agree_refl (alpha beta v : Score) : Agree alpha beta v v := ⟨id, fun _ _ => rfl, id⟩

theorem agree_iff (pc : Color) (alpha beta v r : Score) :
    Agree alpha beta v r ↔ AgreeC pc (loC pc alpha beta) (hiC pc alpha beta) v r := by
  cases pc
  · exact Iff.rfl
  · simp only [Agree, AgreeC, loC, hiC, leC]
    constructor
    · rintro ⟨h1, h2, h3⟩
      exact ⟨h3, fun a b => h2 b a, h1⟩
    · rintro ⟨h1, h2, h3⟩
      exact ⟨h3, fun a b => h2 b a, h1⟩

/-- the step of `best` -/
def bstep (pc : Color) (acc s : Score) : Score := if isBetter pc acc s then s else acc

theorem bstep_ge (pc : Color) (acc s : Score) : leC pc acc (bstep pc acc s) := by
  unfold bstep
  split
  · rename_i h
    exact leC_of_not ((isBetter_iff pc acc s).1 h)
  · exact leC_refl pc acc

theorem bstep_ge' (pc : Color) (acc s : Score) : leC pc s (bstep pc acc s) := by
  unfold bstep
  split
  · exact leC_refl pc s
  · rename_i h
    rw [isBetter_iff] at h
    exact Classical.not_not.1 h

theorem bstep_cases (pc : Color) (acc s : Score) : bstep pc acc s = acc ∨ bstep pc acc s = s := by
  unfold bstep
  split
  · exact Or.inr rfl
  · exact Or.inl rfl

/-- loop invariant of an inner node: `V` the best true value so far, `s` the running score, `lo`
the raised bound; `lo0` the bound the node was entered with -/
def Inv (pc : Color) (lo0 hi V s lo : Score) : Prop :=
  ¬ leC pc hi lo ∧ ¬ leC pc hi V ∧ (leC pc V lo0 → leC pc s lo0 ∧ lo = lo0) ∧ (¬ leC pc V lo0 → s = V ∧ lo = V)

theorem inv_init (pc : Color) (lo0 hi : Score) (h : ¬ leC pc hi lo0) : Inv pc lo0 hi (worst pc) (worst pc) lo0 := by
  refine ⟨h, ?_, fun _ => ⟨worst_leC pc lo0, rfl⟩, fun hn => absurd (worst_leC pc lo0) hn⟩
  intro h2
  exact h (leC_trans h2 (worst_leC pc lo0))

theorem inv_final (pc : Color) (lo0 hi V s lo : Score) (h : Inv pc lo0 hi V s lo) : AgreeC pc lo0 hi V s := by
  obtain ⟨_, h2, h3, h4⟩ := h
  exact ⟨fun hv => (h3 hv).1, fun hv _ => (h4 hv).1, fun hv => absurd hv h2⟩

theorem bstep_pos {pc : Color} {acc s : Score} (h : ¬ leC pc s acc) : bstep pc acc s = s := by
  unfold bstep
  rw [if_pos]
  rw [isBetter_iff]
  exact h

theorem bstep_neg {pc : Color} {acc s : Score} (h : leC pc s acc) : bstep pc acc s = acc := by
  unfold bstep
  rw [if_neg]
  rw [isBetter_iff]
  exact fun hn => hn h

theorem inv_step' (pc : Color) (lo0 hi V s lo v r lo' V' s' : Score)
    (hI : Inv pc lo0 hi V s lo) (hA : AgreeC pc lo hi v r)
    (eV : V' = bstep pc V v) (es : s' = bstep pc s r)
    (hk : leC pc s' lo → lo' = lo) (hr : leC pc lo s' → lo' = s') :
    (leC pc hi lo' → leC pc hi V' ∧ leC pc hi s') ∧ (¬ leC pc hi lo' → Inv pc lo0 hi V' s' lo') := by
  obtain ⟨i1, i2, i3, i4⟩ := hI
  obtain ⟨a1, a2, a3⟩ := hA
  have hlt : ∀ {a b c : Score}, leC pc a b → ¬ leC pc c b → ¬ leC pc c a := fun h1 h2 h3 => h2 (leC_trans h3 h1)
  by_cases hV : leC pc V lo0
  · obtain ⟨hs, hlo⟩ := i3 hV
    subst hlo
    by_cases h1 : leC pc v lo
    · -- nothing above the entry bound yet
      have hr1 := a1 h1
      have hV' : leC pc V' lo := by
        rcases bstep_cases pc V v with e | e <;> rw [eV, e] <;> assumption
      have hs' : leC pc s' lo := by
        rcases bstep_cases pc s r with e | e <;> rw [es, e] <;> assumption
      have hlo := hk hs'
      subst hlo
      exact ⟨fun h => absurd h i1, fun _ => ⟨i1, hlt hV' i1, fun _ => ⟨hs', rfl⟩, fun hn => absurd hV' hn⟩⟩
    · have hVv : V' = v := by
        rw [eV]; exact bstep_pos (fun h => h1 (leC_trans h hV))
      subst hVv
      by_cases h2 : leC pc hi V'
      · have hr2 := a3 h2
        have hsr : s' = r := by
          rw [es]; exact bstep_pos (fun h => i1 (leC_trans hr2 (leC_trans h hs)))
        subst hsr
        have hlo := hr (leC_of_not (fun h => i1 (leC_trans hr2 h)))
        subst hlo
        exact ⟨fun _ => ⟨h2, hr2⟩, fun hn => absurd hr2 hn⟩
      · have hrv := a2 h1 h2
        subst hrv
        have hsr : s' = r := by
          rw [es]; exact bstep_pos (fun h => h1 (leC_trans h hs))
        subst hsr
        have hlo := hr (leC_of_not h1)
        subst hlo
        exact ⟨fun h => absurd h h2, fun _ => ⟨h2, h2, fun h => absurd h h1, fun _ => ⟨rfl, rfl⟩⟩⟩
  · obtain ⟨hsV, hloV⟩ := i4 hV
    rw [hloV] at a1 a2 i1 hk hr
    rw [hsV] at es
    clear hsV hloV i3 i4
    by_cases h1 : leC pc v V
    · have hr1 := a1 h1
      have hVv : V' = V := by rw [eV]; exact bstep_neg h1
      have hsr : s' = V := by rw [es]; exact bstep_neg hr1
      subst hVv
      subst hsr
      have hlo := hk (leC_refl pc _)
      subst hlo
      exact ⟨fun h => absurd h i1, fun _ => ⟨i1, i2, fun h => absurd h hV, fun _ => ⟨rfl, rfl⟩⟩⟩
    · have hVv : V' = v := by rw [eV]; exact bstep_pos h1
      subst hVv
      by_cases h2 : leC pc hi V'
      · have hr2 := a3 h2
        have hsr : s' = r := by
          rw [es]; exact bstep_pos (fun h => i1 (leC_trans hr2 h))
        subst hsr
        have hlo := hr (leC_of_not (fun h => i1 (leC_trans hr2 h)))
        subst hlo
        exact ⟨fun _ => ⟨h2, hr2⟩, fun hn => absurd hr2 hn⟩
      · have hrv := a2 h1 h2
        subst hrv
        have hsr : s' = r := by rw [es]; exact bstep_pos h1
        subst hsr
        have hlo := hr (leC_of_not h1)
        subst hlo
        refine ⟨fun h => absurd h h2, fun _ => ⟨h2, h2, fun h => ?_, fun _ => ⟨rfl, rfl⟩⟩⟩
        exact absurd (leC_trans (leC_of_not h1) h) hV

/-- one iteration of an inner node's loop, in terms of the order alone -/
theorem inv_step (pc : Color) (lo0 hi V s lo v r lo' : Score)
    (hI : Inv pc lo0 hi V s lo) (hA : AgreeC pc lo hi v r)
    (hk : leC pc (bstep pc s r) lo → lo' = lo) (hr : leC pc lo (bstep pc s r) → lo' = bstep pc s r) :
    (leC pc hi lo' → leC pc hi (bstep pc V v) ∧ leC pc hi (bstep pc s r)) ∧
    (¬ leC pc hi lo' → Inv pc lo0 hi (bstep pc V v) (bstep pc s r) lo') :=
  inv_step' pc lo0 hi V s lo v r lo' _ _ hI hA rfl rfl hk hr

theorem root_step' (pc : Color) (V v r lo' V' s' : Score) (hV : V = worst pc ∨ NSc V) (hv : NSc v)
    (hA : AgreeC pc V (top pc) v r) (eV : V' = bstep pc V v) (es : s' = bstep pc V r)
    (hk : leC pc s' V → lo' = V) (hr : leC pc V s' → lo' = s') :
    s' = V' ∧ lo' = V' ∧ (V' = worst pc ∨ NSc V') := by
  obtain ⟨a1, a2, _⟩ := hA
  by_cases h1 : leC pc v V
  · have hr1 := a1 h1
    have hVv : V' = V := by rw [eV]; exact bstep_neg h1
    have hsr : s' = V := by rw [es]; exact bstep_neg hr1
    subst hVv
    subst hsr
    exact ⟨rfl, hk (leC_refl pc _), hV⟩
  · have hrv := a2 h1 (not_top_leC pc v hv)
    subst hrv
    have hVv : V' = r := by rw [eV]; exact bstep_pos h1
    have hsr : s' = r := by rw [es]; exact bstep_pos h1
    subst hVv
    subst hsr
    exact ⟨rfl, hr (leC_of_not h1), Or.inr hv⟩

/-- one accepted root move, in terms of the order alone: the window is (`V`, `top`) -/
theorem root_step (pc : Color) (V v r lo' : Score) (hV : V = worst pc ∨ NSc V) (hv : NSc v)
    (hA : AgreeC pc V (top pc) v r)
    (hk : leC pc (bstep pc V r) V → lo' = V) (hr : leC pc V (bstep pc V r) → lo' = bstep pc V r) :
    bstep pc V r = bstep pc V v ∧ lo' = bstep pc V v ∧ (bstep pc V v = worst pc ∨ NSc (bstep pc V v)) :=
  root_step' pc V v r lo' _ _ hV hv hA rfl rfl hk hr

/-! ### `best` -/

theorem best_eq_foldl (pc : Color) (l : List Score) : best pc l = l.foldl (bstep pc) (worst pc) := rfl

theorem foldl_bstep_ge (pc : Color) (l : List Score) (V : Score) : leC pc V (l.foldl (bstep pc) V) := by
  induction l generalizing V with
  | nil => exact leC_refl pc V
  | cons a l ih => exact leC_trans (bstep_ge pc V a) (ih _)

theorem foldl_bstep_ub (pc : Color) (l : List Score) (V x : Score) (hx : x ∈ l) :
    leC pc x (l.foldl (bstep pc) V) := by
  induction l generalizing V with
  | nil => cases hx
  | cons a l ih =>
    rcases List.mem_cons.1 hx with rfl | h
    · exact leC_trans (bstep_ge' pc V x) (foldl_bstep_ge pc l _)
    · exact ih _ h

theorem foldl_bstep_mem (pc : Color) (l : List Score) (V : Score) :
    l.foldl (bstep pc) V = V ∨ l.foldl (bstep pc) V ∈ l := by
  induction l generalizing V with
  | nil => exact Or.inl rfl
  | cons a l ih =>
    rw [List.foldl_cons]
    rcases ih (bstep pc V a) with h | h
    · rcases bstep_cases pc V a with e | e
      · left; rw [h, e]
      · right; rw [h, e]; exact List.mem_cons_self
    · right; exact List.mem_cons_of_mem _ h

/-- the best of a list depends only on the set of its elements -/
theorem best_congr_set (pc : Color) (l l' : List Score) (h : ∀ x, x ∈ l ↔ x ∈ l') : best pc l = best pc l' := by
  have key : ∀ l l' : List Score, (∀ x, x ∈ l → x ∈ l') → leC pc (best pc l) (best pc l') := by
    intro l l' hsub
    rcases foldl_bstep_mem pc l (worst pc) with e | e
    · rw [best_eq_foldl, e]; exact worst_leC pc _
    · exact foldl_bstep_ub pc l' (worst pc) _ (hsub _ e)
  exact leC_antisymm (key l l' (fun x hx => (h x).1 hx)) (key l' l (fun x hx => (h x).2 hx))

theorem best_nonempty_mem (pc : Color) (l : List Score) (hne : l ≠ []) (hns : ∀ x ∈ l, NSc x) :
    best pc l ∈ l := by
  rcases foldl_bstep_mem pc l (worst pc) with e | e
  · exfalso
    cases l with
    | nil => exact hne rfl
    | cons a t =>
      have := foldl_bstep_ub pc (a :: t) (worst pc) a List.mem_cons_self
      rw [e] at this
      exact not_leC_worst pc a (hns a List.mem_cons_self) this
  · exact e

end Chess.Proofs.Minimax
