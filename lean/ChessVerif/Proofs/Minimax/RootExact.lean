/-
Exactness at the root (Layer M of C13): every accepted `rootMove` keeps "the pass score is the best
minimax value of the moves tried so far, the window is (score, top)"; a root loop that no poll cuts
short folds over exactly the moves its iterator denotes; the two loops of a pass together visit
exactly the moves the iterator held.
-/
import ChessVerif.Proofs.Minimax.ABExact

namespace Chess.Proofs.Minimax
open Chess Chess.Spec Chess.Engine Chess.MoveGen Chess.Proofs.Search

variable (pos : Bool)

/-! ### minimax values are never sentinels -/

theorem value_NS : ∀ fuel old mv rem cur list, NSc (value pos fuel old mv rem cur list) := by
  intro fuel
  induction fuel with
  | zero =>
    intro old mv rem cur list
    rw [value.eq_1]
    exact NS_raw 0
  | succ fuel ih =>
    intro old mv rem cur list
    rw [value.eq_2]
    generalize (if (old.raw.get mv.dest).isSome = true then BoardList.new (old.moveUnchecked mv) list.table
      else list.add (old.moveUnchecked mv)) = list'
    simp only []
    split
    · exact NS_raw 0
    split
    · split
      · split <;> exact ⟨nofun, nofun⟩
      · exact NS_raw 0
    rename_i hne
    split
    · exact NS_raw 0
    split
    · exact NS_raw 0
    have fin : ∀ (c : Bool) (moves : MoveGen), (c = false → mvsOf moves ≠ []) →
        NSc (if c = true then eval pos (old.moveUnchecked mv)
          else best (old.moveUnchecked mv).turn
            ((mvsOf moves).map (fun m => value pos fuel (old.moveUnchecked mv) m (rem - 1) (cur + 1) list'))) := by
      intro c moves hc
      cases c with
      | true =>
        obtain ⟨x, hx⟩ := eval_raw pos (old.moveUnchecked mv)
        rw [if_pos rfl, hx]
        exact NS_raw x
      | false =>
        rw [if_neg (by decide)]
        have hmem := best_nonempty_mem (old.moveUnchecked mv).turn
          ((mvsOf moves).map (fun m => value pos fuel (old.moveUnchecked mv) m (rem - 1) (cur + 1) list'))
          (by
            intro h
            rw [List.map_eq_nil_iff] at h
            exact hc rfl h)
          (by
            intro x hx
            obtain ⟨m, _, rfl⟩ := List.mem_map.1 hx
            exact ih _ _ _ _ _)
        obtain ⟨m, _, hm⟩ := List.mem_map.1 hmem
        rw [← hm]
        exact ih _ _ _ _ _
    have hnil : ∀ g : MoveGen, g.isEmpty = false → mvsOf g ≠ [] := by
      intro g hg h
      rw [isEmpty_eq_mvsOf, h] at hg
      cases hg
    split
    · exact fin _ _ (fun hc => hnil _ hc)
    · exact fin _ _ (fun _ => hnil _ (by simpa using hne))

/-! ### one root move -/

/-- the minimax value of a root move at `depth` -/
abbrev rootVal (b : Board) (tf : ThreeFold) (depth : Nat) (m : Move) : Score :=
  value pos (depth + 40) b m depth 1 (BoardList.new b tf)

/-- invariant of the pass state: `V` is the best minimax value of the root moves tried so far -/
def RInv (b : Board) (pc : Color) (V : Score) (p : Pass) : Prop :=
  p.score = V ∧ loC pc p.alpha p.beta = V ∧ hiC pc p.alpha p.beta = top pc ∧ (V = worst pc ∨ NSc V) ∧
    (∀ m, p.best = some m → m ∈ mvsOf (MoveGen.legals b))

theorem rinv_pass0 (b : Board) (pc : Color) : RInv b pc (worst pc) (pass0 pc) := by
  refine ⟨rfl, ?_, ?_, Or.inl rfl, fun m hm => by cases hm⟩
  · cases pc <;> rfl
  · cases pc <;> rfl

theorem rootMove_exact (k : Nat) (b : Board) (hwf : b.WF = true) (pc : Color) (depth : Nat) (tf : ThreeFold)
    (mv : Move) (p : Pass) (st : St) (p' : Pass) (st' : St) (V : Score)
    (hmv : mv ∈ mvsOf (MoveGen.legals b)) (hI : RInv b pc V p)
    (hr : rootMove pos k b pc depth tf mv p st = (some p', st')) :
    RInv b pc (bstep pc V (rootVal pos b tf depth mv)) p' := by
  obtain ⟨i1, i2, i3, i4, i5⟩ := hI
  rw [rootMove_eq] at hr
  split at hr
  · cases hr
  rename_i hlt
  simp only [Prod.mk.injEq, Option.some.injEq] at hr
  have hp := hr.1.symm
  subst hp
  have hw : ¬ sle p.beta p.alpha := by
    rw [window_iff pc, i2, i3]
    rcases i4 with h | h
    · rw [h]; exact not_top_leC_worst pc
    · exact not_top_leC pc V h
  have hA := alphabeta_exact pos k (depth + 40) b mv depth 1 p.alpha p.beta (BoardList.new b tf) st
    (succ_WF b hwf mv hmv) hw (by
      have : ¬ (rootAB pos k b depth tf mv p st).2.polls ≥ k := hlt
      show (rootAB pos k b depth tf mv p st).2.polls ≤ k
      omega)
  rw [agree_iff pc, i2, i3] at hA
  have hst := root_step' pc V (rootVal pos b tf depth mv) (rootAB pos k b depth tf mv p st).1
    (loC pc (accept pc p mv (rootAB pos k b depth tf mv p st).1).alpha (accept pc p mv (rootAB pos k b depth tf mv p st).1).beta)
    (bstep pc V (rootVal pos b tf depth mv)) (accept pc p mv (rootAB pos k b depth tf mv p st).1).score
    i4 (value_NS pos _ _ _ _ _ _) hA rfl (by rw [← i1]; rfl)
    (by
      intro h
      rw [← i2]
      exact updateCutoff_lo_keep pc p.alpha p.beta _ (by rw [i2]; exact h))
    (by
      intro h
      exact updateCutoff_lo_raise pc p.alpha p.beta _ (by rw [i2]; exact h))
  refine ⟨hst.1, hst.2.1, ?_, hst.2.2, ?_⟩
  · rw [← i3]
    exact updateCutoff_hi pc p.alpha p.beta _
  · intro m hm
    rcases accept_best pc p mv (rootAB pos k b depth tf mv p st).1 with h | h
    · rw [h] at hm; cases hm; exact hmv
    · rw [h] at hm; exact i5 m hm

/-! ### a root loop -/

theorem rootLoop_exact (k : Nat) (b : Board) (hwf : b.WF = true) (pc : Color) (depth : Nat) (tf : ThreeFold) :
    ∀ n g p st V, Good g → (mvsAt g).length < n → (∀ m ∈ mvsAt g, m ∈ mvsOf (MoveGen.legals b)) →
      RInv b pc V p → (rootLoop pos k b pc depth tf n g p st).2.2.polls ≤ k →
      RInv b pc (((mvsAt g).map (rootVal pos b tf depth)).foldl (bstep pc) V) (rootLoop pos k b pc depth tf n g p st).1 := by
  intro n
  induction n with
  | zero => intro g p st V _ hl; omega
  | succ n ih =>
    intro g p st V hg hl hleg hI hk
    rw [rootLoop.eq_2] at hk ⊢
    obtain ⟨s1, s2, s3⟩ := next_spec g hg
    cases hn : g.next with
    | mk o g' =>
      rw [hn] at s1 s2 s3 hk
      simp only at s1 s2 s3 hk ⊢
      cases hm : mvsAt g with
      | nil =>
        rw [hm] at s1
        simp only [List.head?_nil] at s1
        subst s1
        exact hI
      | cons a t =>
        rw [hm] at s1 s2 hl hleg
        simp only [List.head?_cons, List.tail_cons, List.length_cons] at s1 s2 hl
        subst s1
        simp only at hk ⊢
        cases hr : rootMove pos k b pc depth tf a p st with
        | mk op st' =>
          rw [hr] at hk
          cases op with
          | none =>
            simp only at hk
            have := rootMove_none hr
            omega
          | some p' =>
            simp only at hk ⊢
            have hI' := rootMove_exact pos k b hwf pc depth tf a p st p' st' V (hleg a List.mem_cons_self) hI hr
            have := ih g' p' st' _ s3 (by rw [s2]; omega)
              (by rw [s2]; exact fun m hm => hleg m (List.mem_cons_of_mem _ hm)) hI' hk
            rw [s2] at this
            exact this

/-! ### a pass -/

/-- the two root loops and the closing poll of a pass -/
def passEnd (k : Nat) (b : Board) (pc : Color) (tf : ThreeFold) (depth : Nat) (p1 : Pass) (moves : MoveGen)
    (st : St) : Option Pass × St :=
  let l1 := rootLoop pos k b pc depth tf 5000 (moves.setMask (b.raw.color pc.flip)) p1 st
  let l2 := rootLoop pos k b pc depth tf 5000 (l1.2.1.setMask BB.full) l1.1 l1.2.2
  if l2.2.2.polls ≥ k then (none, ⟨l2.2.2.polls + 1, l2.2.2.evals⟩)
  else (some l2.1, ⟨l2.2.2.polls + 1, l2.2.2.evals⟩)

theorem passEnd_eq (k : Nat) (b : Board) (pc : Color) (tf : ThreeFold) (depth : Nat) (p1 : Pass)
    (moves : MoveGen) (st : St) :
    (let moves := moves.setMask (b.raw.color pc.flip)
     let (p2, moves, st) := rootLoop pos k b pc depth tf 5000 moves p1 st
     let moves := moves.setMask BB.full
     let (p3, _, st) := rootLoop pos k b pc depth tf 5000 moves p2 st
     let (done, st) := poll k st
     if done then (none, st) else (some p3, st)) = passEnd pos k b pc tf depth p1 moves st := by
  unfold passEnd
  simp only
  generalize rootLoop pos k b pc depth tf 5000 (moves.setMask (b.raw.color pc.flip)) p1 st = l1
  obtain ⟨p2, g2, st2⟩ := l1
  simp only
  generalize rootLoop pos k b pc depth tf 5000 (g2.setMask BB.full) p2 st2 = l2
  obtain ⟨p3, g3, st3⟩ := l2
  simp only [poll]
  by_cases hd : st3.polls ≥ k
  · simp only [hd, decide_true, if_true]
  · simp only [hd, decide_false, Bool.false_eq_true, if_false]

theorem pass_none_eq (k : Nat) (b : Board) (pc : Color) (tf : ThreeFold) (depth : Nat) (st : St) :
    pass pos k b pc tf depth none st = passEnd pos k b pc tf depth (pass0 pc) (MoveGen.legals b) st := by
  rw [← passEnd_eq]
  unfold pass pass0
  simp only [Bool.false_eq_true, if_false]

theorem pass_some_eq (k : Nat) (b : Board) (pc : Color) (tf : ThreeFold) (depth : Nat) (mv : Move) (st : St) :
    pass pos k b pc tf depth (some mv) st =
      match rootMove pos k b pc depth tf mv (pass0 pc) st with
      | (none, st') => (none, st')
      | (some p, st') => passEnd pos k b pc tf depth p ((MoveGen.legals b).removeMove mv).1 st' := by
  unfold pass pass0
  simp only
  cases hr : rootMove pos k b pc depth tf mv ⟨worst pc, none, .min, .max⟩ st with
  | mk op st' =>
    cases op with
    | none => simp only [if_true]
    | some p =>
      simp only [Bool.false_eq_true, if_false]
      rw [← passEnd_eq]

/-- the two loops of a pass that completes visit exactly the moves the iterator held -/
theorem passEnd_exact (k : Nat) (b : Board) (hwf : b.WF = true) (pc : Color) (tf : ThreeFold) (depth : Nat)
    (p1 : Pass) (moves : MoveGen) (st : St) (V1 : Score) (p : Pass) (st' : St)
    (h0 : moves.promoIdx = 0) (hlen : moves.moves.length ≤ 18)
    (hleg : ∀ x, Avail moves x → x ∈ mvsOf (MoveGen.legals b)) (hI : RInv b pc V1 p1)
    (h : passEnd pos k b pc tf depth p1 moves st = (some p, st')) :
    ∃ L : List Move, (∀ x, x ∈ L ↔ Avail moves x) ∧
      RInv b pc ((L.map (rootVal pos b tf depth)).foldl (bstep pc) V1) p := by
  unfold passEnd at h
  simp only at h
  have hst1 := rootLoop_struct pos k b pc depth tf 5000 (moves.setMask (b.raw.color pc.flip)) p1 st
  have hex1 := rootLoop_exhaust pos k b pc depth tf 5000 (moves.setMask (b.raw.color pc.flip)) p1 st
  have hx1 := rootLoop_exact pos k b hwf pc depth tf 5000 (moves.setMask (b.raw.color pc.flip)) p1 st V1
  generalize rootLoop pos k b pc depth tf 5000 (moves.setMask (b.raw.color pc.flip)) p1 st = l1 at h hst1 hex1 hx1
  have hst2 := rootLoop_struct pos k b pc depth tf 5000 (l1.2.1.setMask BB.full) l1.1 l1.2.2
  have hx2 := rootLoop_exact pos k b hwf pc depth tf 5000 (l1.2.1.setMask BB.full) l1.1 l1.2.2
  generalize rootLoop pos k b pc depth tf 5000 (l1.2.1.setMask BB.full) l1.1 l1.2.2 = l2 at h hst2 hx2
  split at h
  · cases h
  rename_i hlt
  simp only [Prod.mk.injEq, Option.some.injEq] at h
  have hp := h.1
  subst hp
  have hk2 : l2.2.2.polls ≤ k := by omega
  have hk1 : l1.2.2.polls ≤ k := Nat.le_trans hst2.1 hk2
  -- first loop
  have hp0 : (moves.setMask (b.raw.color pc.flip)).promoIdx = 0 := h0
  have hat1 := mvsAt_of_zero _ hp0
  have hlen1 : (mvsAt (moves.setMask (b.raw.color pc.flip))).length < 5000 := by
    rw [hat1]
    apply Entries.mvsOf_length_lt
    show (compact _ moves.moves).length ≤ 18
    rw [(compact_perm _ moves.moves).length_eq]
    exact hlen
  have hI1 := hx1 (good_of_zero _ hp0) hlen1
    (by
      rw [hat1]
      intro m hm
      exact hleg m ((mem_mvsOf_setMask moves _ m).1 hm).1) hI hk1
  have hpi := hex1 (good_of_zero _ hp0) hlen1 hk1
  -- second loop
  have hp2 : (l1.2.1.setMask BB.full).promoIdx = 0 := hpi
  have hat2 := mvsAt_of_zero _ hp2
  have hlen2 : (mvsAt (l1.2.1.setMask BB.full)).length < 5000 := by
    rw [hat2]
    apply Entries.mvsOf_length_lt
    show (compact BB.full l1.2.1.moves).length ≤ 18
    rw [(compact_perm _ _).length_eq, hst1.2.2.1]
    show (compact _ moves.moves).length ≤ 18
    rw [(compact_perm _ moves.moves).length_eq]
    exact hlen
  have hsub2 : ∀ m, m ∈ mvsOf (l1.2.1.setMask BB.full) → Avail moves m := by
    intro m hm
    exact (avail_setMask moves _ m).1 (hst1.2.2.2.1 m ((mem_mvsOf_setMask _ _ m).1 hm).1)
  have hI2 := hx2 _ (good_of_zero _ hp2) hlen2
    (by
      rw [hat2]
      intro m hm
      exact hleg m (hsub2 m hm)) hI1 hk2
  rw [hat1, hat2] at hI2
  refine ⟨mvsOf (moves.setMask (b.raw.color pc.flip)) ++ mvsOf (l1.2.1.setMask BB.full), ?_, ?_⟩
  · intro x
    rw [List.mem_append]
    constructor
    · rintro (hx | hx)
      · exact ((mem_mvsOf_setMask moves _ x).1 hx).1
      · exact hsub2 x hx
    · intro hx
      by_cases hmem : BB.mem (b.raw.color pc.flip) x.dest = true
      · exact Or.inl ((mem_mvsOf_setMask moves _ x).2 ⟨hx, hmem⟩)
      · right
        have hav1 : Avail l1.2.1 x := by
          apply hst1.2.2.2.2 x ((avail_setMask moves _ x).2 hx)
          show BB.mem (b.raw.color pc.flip) x.dest = false
          simpa using hmem
        exact (mem_mvsOf_setMask _ _ x).2 ⟨hav1, BB.mem_full _⟩
  · rw [List.map_append, List.foldl_append]
    exact hI2

/-- `remove_move` of a plain move keeps every other plain move -/
theorem avail_removeMove_of_ne (g : MoveGen) (mv x : Move) (hx : Avail g x) (hne : x ≠ mv)
    (hxp : x.piece = none) (hmp : mv.piece = none) : Avail (g.removeMove mv).1 x := by
  obtain ⟨e, he, h1, h3⟩ := hx
  unfold removeMove Avail
  simp only [List.mem_map]
  refine ⟨_, ⟨e, he, rfl⟩, ?_⟩
  split
  · rename_i hs
    refine ⟨?_, h3⟩
    show BB.mem (BB.clear e.moves mv.dest) x.dest = true
    rw [BB.mem_clear, h1, Bool.true_and, bne_iff_ne]
    intro hd
    apply hne
    have hsrc := (mem_destMoves h3).1
    obtain ⟨xs, xd, xp⟩ := x
    obtain ⟨ms, md, mp⟩ := mv
    simp only at hd hsrc hxp hmp hs
    subst hd hxp hmp
    rw [hsrc, hs]
  · exact ⟨h1, h3⟩

theorem best_map_congr (pc : Color) (f : Move → Score) (L L' : List Move) (h : ∀ x, x ∈ L ↔ x ∈ L') :
    best pc (L.map f) = best pc (L'.map f) := by
  apply best_congr_set
  intro y
  simp only [List.mem_map]
  constructor
  · rintro ⟨x, hx, rfl⟩
    exact ⟨x, (h x).1 hx, rfl⟩
  · rintro ⟨x, hx, rfl⟩
    exact ⟨x, (h x).2 hx, rfl⟩

theorem pass_exact' (b : Board) (hwf : b.WF = true) (pc : Color) (tf : ThreeFold) (k depth : Nat)
    (bestMv : Option Move) (st st' : St) (p : Pass)
    (hnp : ∀ m ∈ mvsOf (MoveGen.legals b), m.piece = none)
    (hb : ∀ m, bestMv = some m → m ∈ mvsOf (MoveGen.legals b))
    (h : pass pos k b pc tf depth bestMv st = (some p, st')) :
    RInv b pc (best pc ((mvsOf (MoveGen.legals b)).map (rootVal pos b tf depth))) p := by
  have hlen : (MoveGen.legals b).moves.length ≤ 18 := Legal.wf_entries_le b hwf
  cases bestMv with
  | none =>
    rw [pass_none_eq] at h
    obtain ⟨L, hL, hI⟩ := passEnd_exact pos k b hwf pc tf depth (pass0 pc) (MoveGen.legals b) st (worst pc) p st'
      rfl hlen (fun x hx => (avail_legals_iff b x).1 hx) (rinv_pass0 b pc) h
    rw [← best_eq_foldl] at hI
    rw [best_map_congr pc (rootVal pos b tf depth) (mvsOf (MoveGen.legals b)) L (fun x => ((hL x).trans (avail_legals_iff b x)).symm)]
    exact hI
  | some mv =>
    have hmv := hb mv rfl
    rw [pass_some_eq] at h
    cases hr : rootMove pos k b pc depth tf mv (pass0 pc) st with
    | mk op st1 =>
      rw [hr] at h
      cases op with
      | none => simp only [Prod.mk.injEq] at h; cases h.1
      | some p1 =>
        simp only at h
        have hI1 := rootMove_exact pos k b hwf pc depth tf mv (pass0 pc) st p1 st1 (worst pc) hmv (rinv_pass0 b pc) hr
        obtain ⟨L, hL, hI⟩ := passEnd_exact pos k b hwf pc tf depth p1 ((MoveGen.legals b).removeMove mv).1 st1 _ p st'
          rfl (by
            show (List.map _ _).length ≤ 18
            rw [List.length_map]
            exact hlen)
          (fun x hx => (avail_legals_iff b x).1 (avail_removeMove _ mv x hx)) hI1 h
        have e : (L.map (rootVal pos b tf depth)).foldl (bstep pc) (bstep pc (worst pc) (rootVal pos b tf depth mv)) =
            best pc ((mv :: L).map (rootVal pos b tf depth)) := rfl
        rw [e] at hI
        rw [best_map_congr pc (rootVal pos b tf depth) (mvsOf (MoveGen.legals b)) (mv :: L) (fun x => by
          rw [List.mem_cons, hL x]
          constructor
          · intro hx
            by_cases hxm : x = mv
            · exact Or.inl hxm
            · exact Or.inr (avail_removeMove_of_ne _ mv x ((avail_legals_iff b x).2 hx) hxm (hnp x hx) (hnp mv hmv))
          · rintro (rfl | hx)
            · exact hmv
            · exact (avail_legals_iff b x).1 (avail_removeMove _ mv x hx))]
        exact hI

end Chess.Proofs.Minimax
