/-
Layer S of the C13 argument: plain minimax is colour-symmetric — the value of the mirrored root is
the negated value of the root.  Uses Layer B (`BoardSym`: legal moves, successors, evaluation, draw
rules and board equality commute with the mirror).  Statements fixed; proofs below.
-/
import ChessVerif.Proofs.Minimax.Defs
import ChessVerif.Proofs.Mirror.BoardSym
import ChessVerif.Props.C13.Basic
import ChessVerif.Proofs.IterMask

namespace Chess.Proofs.Minimax
open Chess Chess.Spec Chess.Engine Chess.MoveGen

open Chess.Gen.ScoreFns
open Chess.Proofs.BoardSym

/-! ### `best` -/

theorem foldl_neg (pc : Color) (l : List Score) (a : Score) :
    (l.map negScore).foldl (fun acc s => if isBetter pc.flip acc s then s else acc) (negScore a) =
      negScore (l.foldl (fun acc s => if isBetter pc acc s then s else acc) a) := by
  induction l generalizing a with
  | nil => rfl
  | cons x xs ih =>
    simp only [List.map_cons, List.foldl_cons, Props.C13.isBetter_dual]
    by_cases h : isBetter pc a x = true
    · simp only [h, if_true]; exact ih x
    · simp only [h]; exact ih a

/-- the step of `best` in terms of the strict order -/
theorem isBetter_white (a s : Score) : isBetter .white a s = decide (cmp a s = .lt) := by
  simp only [isBetter, Score.lt, partialCmp]
  cases cmp a s <;> rfl

theorem isBetter_black (a s : Score) : isBetter .black a s = decide (cmp s a = .lt) := by
  simp only [isBetter, Score.gt, partialCmp]
  rw [Props.C14.cmp_swap s a]
  cases cmp a s <;> rfl

theorem cmp_irrefl (a : Score) : cmp a a ≠ .lt := by rw [Props.C14.cmp_refl]; decide

/-- the step of `best` is left-commutative (it computes the maximum of a strict total order) -/
theorem step_comm (pc : Color) (a x y : Score) :
    (let f := fun acc s => if isBetter pc acc s then s else acc; f (f a x) y = f (f a y) x) := by
  have t := Props.C14.cmp_trans
  have i := cmp_irrefl
  have tot := Props.C14.cmp_total
  cases pc
  · simp only [isBetter_white, decide_eq_true_eq]
    grind
  · simp only [isBetter_black, decide_eq_true_eq]
    grind

/-- the best of the negated scores for the other side is the negated best; the best of a permuted
list is the same -/
theorem best_neg (pc : Color) (l : List Score) :
    best pc.flip (l.map negScore) = negScore (best pc l) := by
  unfold best
  rw [← Props.C13.neg_worst]
  exact foldl_neg pc l (worst pc)

theorem best_perm (pc : Color) (l l' : List Score) (h : l.Perm l') : best pc l = best pc l' := by
  unfold best
  exact h.foldl_eq' (fun x _ y _ z => step_comm pc z x y) _

/-! ### the mirror relation on boards and repetition contexts -/

/-- the children of a node and of its mirror image -/
theorem children_mirror (pc : Color) (ms ms' : List Move) (hp : ms'.Perm (ms.map Move.mirror))
    (F F' : Move → Score) (hF : ∀ x ∈ ms, F' x.mirror = negScore (F x)) :
    best pc.flip (ms'.map F') = negScore (best pc (ms.map F)) := by
  rw [best_perm _ _ _ (hp.map F'), List.map_map, ← best_neg, List.map_map]
  congr 1
  apply List.map_congr_left
  intro x hx
  exact hF x hx

/-- boards related by the mirror, up to the full-move counter -/
def Rel (b b' : Board) : Prop := b.WF = true ∧ b'.noFull = b.mirror.noFull

theorem Rel.refl (b : Board) (h : b.WF = true) : Rel b b.mirror := ⟨h, rfl⟩

theorem Rel.read {α : Type} (f : Board → α) (hf : ∀ x, f x.noFull = f x) {b b' : Board} (h : Rel b b') :
    f b' = f b.mirror := by
  rw [← hf b', h.2, hf]

theorem mem_legal {b : Board} (h : b.WF = true) {m : Move} (hm : m ∈ mvsOf (legals b)) :
    b.isLegal m = true := by
  rw [Props.C01.isLegal_iff, IterMask.legalsList_eq b h]
  exact hm

theorem Rel.move {b b' : Board} (h : Rel b b') {m : Move} (hm : m ∈ mvsOf (legals b)) :
    Rel (b.moveUnchecked m) (b'.moveUnchecked m.mirror) := by
  refine ⟨Props.C02.move_WF b h.1 m (mem_legal h.1 hm), ?_⟩
  rw [← noFull_move b', h.2, noFull_move, move_mirror b h.1 m hm]

theorem Rel.beq {a a' b b' : Board} (h1 : Rel a a') (h2 : Rel b b') : Board.beq a' b' = Board.beq a b := by
  rw [← (noFull_beq a' b').1, ← (noFull_beq a'.noFull b').2, h1.2, h2.2, (noFull_beq _ _).1,
    (noFull_beq _ _).2, beq_mirror _ _ h1.1 h2.1]

theorem Rel.turn {b b' : Board} (h : Rel b b') : b'.turn = b.turn.flip := by
  rw [h.read Board.turn (fun _ => rfl), mirror_turn]

theorem Rel.half {b b' : Board} (h : Rel b b') : b'.half = b.half := by
  rw [h.read Board.half (fun _ => rfl), mirror_half]

theorem Rel.inCheck {b b' : Board} (h : Rel b b') : b'.inCheck = b.inCheck := by
  rw [h.read Board.inCheck (fun _ => rfl), inCheck_mirror b h.1]

theorem Rel.insufficient {b b' : Board} (h : Rel b b') : insufficientMaterial b' = insufficientMaterial b := by
  rw [h.read insufficientMaterial (fun _ => rfl), insufficient_mirror]

theorem Rel.eval_neg {b b' : Board} (h : Rel b b') : eval false b' = negScore (eval false b) := by
  rw [h.read (Engine.eval false) (noFull_eval false), eval_mirror b h.1]

theorem Rel.capture {b b' : Board} (h : Rel b b') (m : Move) :
    (b'.raw.get m.mirror.dest).isSome = (b.raw.get m.dest).isSome := by
  rw [h.read Board.raw (fun _ => rfl), capture_mirror]

theorem Rel.perm {b b' : Board} (h : Rel b b') :
    (mvsOf (legals b')).Perm ((mvsOf (legals b)).map Move.mirror) := by
  rw [h.read MoveGen.legals noFull_legals]
  exact legals_mirror b h.1

theorem Rel.isEmpty {b b' : Board} (h : Rel b b') : (legals b').isEmpty = (legals b).isEmpty := by
  rw [h.read MoveGen.legals noFull_legals, isEmpty_mirror b h.1]

theorem Rel.capMask {b b' : Board} (h : Rel b b') :
    (legals b').setMask (b'.raw.color b'.turn.flip) =
      (legals b.mirror).setMask (b.mirror.raw.color b.mirror.turn.flip) :=
  h.read (fun x => (MoveGen.legals x).setMask (x.raw.color x.turn.flip))
    (fun x => by show (MoveGen.legals x.noFull).setMask _ = _; rw [noFull_legals]; rfl)

theorem Rel.captures {b b' : Board} (h : Rel b b') :
    (mvsOf ((legals b').setMask (b'.raw.color b'.turn.flip))).Perm
      ((mvsOf ((legals b).setMask (b.raw.color b.turn.flip))).map Move.mirror) := by
  rw [h.capMask]
  exact captures_mirror b h.1

theorem Rel.captures_isEmpty {b b' : Board} (h : Rel b b') :
    ((legals b').setMask (b'.raw.color b'.turn.flip)).isEmpty =
      ((legals b).setMask (b.raw.color b.turn.flip)).isEmpty := by
  rw [h.capMask, captures_isEmpty_mirror b h.1]

theorem mem_of_mem_setMask {b : Board} {mask : BB} {x : Move}
    (hx : x ∈ mvsOf ((legals b).setMask mask)) : x ∈ mvsOf (legals b) := by
  have := (IterMask.setMask_perm_filter (legals b) mask).subset hx
  exact (List.mem_filter.1 this).1

/-! ### repetition contexts -/

def ERel (e e' : Board × Nat) : Prop := Rel e.1 e'.1 ∧ e'.2 = e.2

def LRel : List (Board × Nat) → List (Board × Nat) → Prop
  | [], [] => True
  | e :: t, e' :: t' => ERel e e' ∧ LRel t t'
  | _, _ => False

theorem LRel.find {t t' : List (Board × Nat)} (h : LRel t t') {b b' : Board} (hb : Rel b b') :
    (t'.find? (fun e => Board.beq e.1 b')).map Prod.snd = (t.find? (fun e => Board.beq e.1 b)).map Prod.snd := by
  induction t generalizing t' with
  | nil => cases t' with
    | nil => rfl
    | cons => exact h.elim
  | cons e t ih => cases t' with
    | nil => exact h.elim
    | cons e' t' =>
      obtain ⟨he, ht⟩ := h
      simp only [List.find?_cons, he.1.beq hb]
      cases Board.beq e.1 b
      · exact ih ht
      · simp [he.2]

theorem get_eq (t : ThreeFold) (b : Board) :
    t.get b = ((t.find? (fun e => Board.beq e.1 b)).map Prod.snd).getD 0 := by
  unfold ThreeFold.get; cases t.find? (fun e => Board.beq e.1 b) <;> rfl

theorem count_eq (l : BoardList) (b : Board) :
    l.count b = ((l.chain.find? (fun e => Board.beq e.1 b)).map Prod.snd).getD (l.table.get b) := by
  unfold BoardList.count; cases l.chain.find? (fun e => Board.beq e.1 b) <;> rfl

def CRel (l l' : BoardList) : Prop := LRel l.chain l'.chain ∧ LRel l.table l'.table

theorem LRel.get {t t' : ThreeFold} (h : LRel t t') {b b' : Board} (hb : Rel b b') : t'.get b' = t.get b := by
  rw [get_eq, get_eq, h.find hb]

theorem CRel.count {l l' : BoardList} (h : CRel l l') {b b' : Board} (hb : Rel b b') :
    l'.count b' = l.count b := by
  rw [count_eq, count_eq, h.1.find hb, h.2.get hb]

theorem CRel.add {l l' : BoardList} (h : CRel l l') {b b' : Board} (hb : Rel b b') :
    CRel (l.add b) (l'.add b') :=
  ⟨⟨⟨hb, by show satAdd8 _ = satAdd8 _; rw [h.count hb]⟩, h.1⟩, h.2⟩

theorem CRel.new {t t' : ThreeFold} (h : LRel t t') {b b' : Board} (hb : Rel b b') :
    CRel (BoardList.new b t) (BoardList.new b' t') :=
  ⟨⟨⟨hb, h.get hb⟩, trivial⟩, h⟩

theorem CRel.headCount {l l' : BoardList} (h : CRel l l') : l'.headCount = l.headCount := by
  obtain ⟨c, t⟩ := l
  obtain ⟨c', t'⟩ := l'
  cases c <;> cases c'
  · rfl
  · exact h.1.elim
  · exact h.1.elim
  · exact h.1.1.2


/-- one node of `value`, the successor board, the capture flag and the new context given -/
def node (fuel : Nat) (board : Board) (cap : Bool) (rem cur : Nat) (list : BoardList) : Score :=
  if cap && insufficientMaterial board then .raw 0
  else if (MoveGen.legals board).isEmpty then
    (if board.inCheck then
      (match board.turn with | .white => Score.blackMateIn cur | .black => Score.whiteMateIn cur)
     else .raw 0)
  else if board.half ≥ 100 then .raw 0
  else if list.headCount == 3 then .raw 0
  else if rem == 0 && cap then
    (if ((MoveGen.legals board).setMask (board.raw.color board.turn.flip)).isEmpty then eval false board
     else best board.turn ((mvsOf ((MoveGen.legals board).setMask (board.raw.color board.turn.flip))).map
       fun m => value false fuel board m (rem - 1) (cur + 1) list))
  else if rem == 0 then eval false board
  else best board.turn ((mvsOf (MoveGen.legals board)).map fun m => value false fuel board m (rem - 1) (cur + 1) list)

theorem value_succ (fuel : Nat) (old : Board) (mv : Move) (rem cur : Nat) (list : BoardList) :
    value false (fuel + 1) old mv rem cur list =
      node fuel (old.moveUnchecked mv) (old.raw.get mv.dest).isSome rem cur
        (if (old.raw.get mv.dest).isSome then BoardList.new (old.moveUnchecked mv) list.table
         else list.add (old.moveUnchecked mv)) := by
  rw [value]
  unfold node
  by_cases h : (rem == 0 && (old.raw.get mv.dest).isSome) = true
  · simp only [h, if_true]
    rfl
  · simp only [h]
    rfl

theorem node_mirror (fuel : Nat)
    (ih : ∀ (b b' : Board) (m : Move) (rem cur : Nat) (l l' : BoardList),
      Rel b b' → m ∈ mvsOf (legals b) → CRel l l' →
      value false fuel b' m.mirror rem cur l' = negScore (value false fuel b m rem cur l))
    (board board' : Board) (cap : Bool) (rem cur : Nat) (l l' : BoardList)
    (R : Rel board board') (hL : CRel l l') :
    node fuel board' cap rem cur l' = negScore (node fuel board cap rem cur l) := by
  unfold node
  simp only [R.insufficient, R.isEmpty, R.inCheck, R.half, hL.headCount, R.captures_isEmpty]
  have z : negScore (.raw 0) = .raw 0 := by simp [negScore]
  split
  · exact z.symm
  split
  · split
    · rw [R.turn]; cases board.turn <;> rfl
    · exact z.symm
  split
  · exact z.symm
  split
  · exact z.symm
  split
  · split
    · exact R.eval_neg
    · refine Eq.trans (congrArg (fun c => best c _) R.turn) ?_
      exact children_mirror _ _ _ R.captures (fun m => value false fuel board m (rem - 1) (cur + 1) l)
        (fun m => value false fuel board' m (rem - 1) (cur + 1) l')
        (fun x hx => ih _ _ _ _ _ _ _ R (mem_of_mem_setMask hx) hL)
  split
  · exact R.eval_neg
  · rw [R.turn]
    exact children_mirror _ _ _ R.perm (fun m => value false fuel board m (rem - 1) (cur + 1) l)
      (fun m => value false fuel board' m (rem - 1) (cur + 1) l')
      (fun x hx => ih _ _ _ _ _ _ _ R hx hL)

theorem value_mirror (fuel : Nat) : ∀ (b b' : Board) (m : Move) (rem cur : Nat) (l l' : BoardList),
    Rel b b' → m ∈ mvsOf (legals b) → CRel l l' →
    value false fuel b' m.mirror rem cur l' = negScore (value false fuel b m rem cur l) := by
  induction fuel with
  | zero => intros; simp [value, negScore]
  | succ fuel ih =>
    intro b b' m rem cur l l' hR hm hC
    have R := hR.move hm
    rw [value_succ, value_succ, hR.capture m]
    apply node_mirror fuel ih _ _ _ _ _ _ _ R
    split
    · exact CRel.new hC.2 R
    · exact hC.add R

/-- **symmetry of the minimax value**: with an empty repetition history, the value of the mirrored
root at every depth is the negated value of the root -/
theorem rootValue_mirror (b : Board) (hwf : b.WF = true) (depth : Nat) :
    rootValue false b.mirror [] depth = negScore (rootValue false b [] depth) := by
  unfold rootValue
  rw [mirror_turn]
  exact children_mirror _ _ _ (legals_mirror b hwf)
    (fun m => value false (depth + 40) b m depth 1 (BoardList.new b []))
    (fun m => value false (depth + 40) b.mirror m depth 1 (BoardList.new b.mirror []))
    (fun x hx => value_mirror _ _ _ _ _ _ _ _ (Rel.refl b hwf) hx
      (CRel.new (t := []) (t' := []) trivial (Rel.refl b hwf)))

end Chess.Proofs.Minimax
