/-
Layer B helpers (2): fields of the mirrored board, the mirrored mailbox, castling bits, partition.
-/
import ChessVerif.Proofs.Mirror.BSBits
import ChessVerif.Spec.Mirror
import ChessVerif.Proofs.Legal.AbsL

namespace Chess.Proofs.BoardSym
open Chess Chess.Spec

/-! ### fields -/

theorem mirror_raw (b : Board) : b.mirror.raw = b.raw.mirror := rfl
theorem mirror_turn' (b : Board) : b.mirror.turn = b.turn.flip := rfl
theorem mirror_castle (b : Board) : b.mirror.castle = Castle.mirror b.castle := rfl
theorem mirror_ep (b : Board) : b.mirror.ep = b.ep := rfl
theorem mirror_half' (b : Board) : b.mirror.half = b.half := rfl
theorem mirror_full (b : Board) : b.mirror.full = b.full := rfl
theorem mirror_zobrist (b : Board) : b.mirror.zobrist = b.raw.mirror.pieceHash := rfl

theorem raw_mirror_color (r : RawBoard) (c : Color) : r.mirror.color c = BB.flipRanks (r.color c.flip) := by
  cases c <;> rfl
theorem raw_mirror_color' (r : RawBoard) (c : Color) : r.mirror.color c.flip = BB.flipRanks (r.color c) := by
  cases c <;> rfl
theorem raw_mirror_piece (r : RawBoard) (p : Piece) : r.mirror.piece p = BB.flipRanks (r.piece p) := by
  cases p <;> rfl
theorem raw_mirror_all (r : RawBoard) : r.mirror.all = BB.flipRanks r.all := by
  unfold RawBoard.all
  rw [flip_or, BitVec.or_comm]
  rfl

theorem raw_mirror_mirror (r : RawBoard) : r.mirror.mirror = r := by
  obtain ⟨w, bl, pa, kn, bi, ro, qu, ki⟩ := r
  simp only [RawBoard.mirror, flip_flip]

/-! ### castling bits -/

theorem castle_mirror_lt (cr : Nat) : Castle.mirror cr < 16 := by
  unfold Castle.mirror; omega

theorem castle_mirror_mirror_fin : ∀ cr : Fin 16, Castle.mirror (Castle.mirror cr.val) = cr.val := by decide

theorem castle_mirror_mirror (cr : Nat) (h : cr < 16) : Castle.mirror (Castle.mirror cr) = cr :=
  castle_mirror_mirror_fin ⟨cr, h⟩

theorem castle_mirror_contains : ∀ (cr : Fin 16) (sd : Side) (c : Color),
    Castle.contains (Castle.mirror cr.val) sd c = Castle.contains cr.val sd c.flip := by
  intro cr sd c
  cases sd <;> cases c <;> revert cr <;> decide

theorem castle_mirror_contains' (cr : Nat) (h : cr < 16) (sd : Side) (c : Color) :
    Castle.contains (Castle.mirror cr) sd c = Castle.contains cr sd c.flip :=
  castle_mirror_contains ⟨cr, h⟩ sd c

theorem castle_mirror_containsColor (cr : Nat) (h : cr < 16) (c : Color) :
    Castle.containsColor (Castle.mirror cr) c = Castle.containsColor cr c.flip := by
  unfold Castle.containsColor
  rw [castle_mirror_contains' cr h, castle_mirror_contains' cr h]

/-! ### the partition and the mailbox -/

theorem sqOk_mirror (r : RawBoard) (s : Sq) : r.mirror.sqOk s = r.sqOk s.flipRank := by
  simp only [RawBoard.sqOk, RawBoard.mirror, mem_flip]
  generalize BB.mem r.white s.flipRank = w
  generalize BB.mem r.black s.flipRank = bl
  generalize BB.mem r.pawn s.flipRank = pa
  generalize BB.mem r.knight s.flipRank = kn
  generalize BB.mem r.bishop s.flipRank = bi
  generalize BB.mem r.rook s.flipRank = ro
  generalize BB.mem r.queen s.flipRank = qu
  generalize BB.mem r.king s.flipRank = ki
  cases w <;> cases bl <;> rfl

theorem partitionOk_mirror (r : RawBoard) (h : r.partitionOk = true) : r.mirror.partitionOk = true := by
  rw [RawBoard.partitionOk_iff_sqOk] at h ⊢
  intro s
  rw [sqOk_mirror]
  exact h _

theorem partitionOk_mirror_eq (r : RawBoard) : r.mirror.partitionOk = r.partitionOk := by
  rw [Bool.eq_iff_iff]
  constructor
  · intro h
    have := partitionOk_mirror _ h
    rwa [raw_mirror_mirror] at this
  · exact partitionOk_mirror r

def flipCP (cp : Color × Piece) : Color × Piece := (cp.1.flip, cp.2)

theorem at_mirror (r : RawBoard) (s : Sq) (o : Option (Color × Piece)) (h : RawBoard.At r s.flipRank o) :
    RawBoard.At r.mirror s (o.map (fun cp => (cp.1.flip, cp.2))) := by
  obtain ⟨hc, hp⟩ := h
  constructor
  · intro c
    rw [raw_mirror_color, mem_flip, hc]
    rcases o with _ | ⟨c', p'⟩
    · rfl
    · cases c <;> cases c' <;> rfl
  · intro p
    rw [raw_mirror_piece, mem_flip, hp]
    rcases o with _ | ⟨c', p'⟩
    · rfl
    · rfl

theorem pieceOn_mirror (r : RawBoard) (hp : r.partitionOk = true) (s : Sq) :
    pieceOn r.mirror s = (pieceOn r s.flipRank).map (fun cp => (cp.1.flip, cp.2)) :=
  (at_mirror r s _ (RawBoard.at_of_sqOk _ _ ((RawBoard.partitionOk_iff_sqOk _).1 hp _))).pieceOn

theorem abs_mirror' (b : Board) (hp : b.raw.partitionOk = true) (hc : b.castle < 16) :
    abs b.mirror = (abs b).mirror := by
  unfold abs Position.mirror
  simp only [mirror_raw, mirror_turn', mirror_castle, mirror_ep, mirror_half', mirror_full]
  congr 1
  · funext s
    exact pieceOn_mirror _ hp s
  · funext sd c
    exact castle_mirror_contains' _ hc sd c

/-! ### `get`, material -/

theorem colorOf_isSome_mirror (r : RawBoard) (s : Sq) :
    (r.mirror.colorOf s.flipRank).isSome = (r.colorOf s).isSome := by
  simp only [RawBoard.colorOf, BB.contains_eq_mem, RawBoard.mirror, mem_flip']
  cases BB.mem r.white s <;> cases BB.mem r.black s <;> rfl

theorem get_isSome (r : RawBoard) (s : Sq) : (r.get s).isSome = (r.colorOf s).isSome := by
  unfold RawBoard.get
  cases r.colorOf s <;> rfl

theorem get_isSome_mirror (r : RawBoard) (s : Sq) :
    (r.mirror.get s.flipRank).isSome = (r.get s).isSome := by
  rw [get_isSome, get_isSome, colorOf_isSome_mirror]

theorem count_color_piece_mirror (r : RawBoard) (c : Color) (p : Piece) :
    BB.count (r.mirror.color c.flip &&& r.mirror.piece p) = BB.count (r.color c &&& r.piece p) := by
  rw [raw_mirror_color', raw_mirror_piece, ← flip_and, count_flip]

end Chess.Proofs.BoardSym
