/-
Layer B helpers (7): `between` is symmetric under the rank flip (4096 pairs, by kernel evaluation,
split into four blocks of 16 rows).
-/
import ChessVerif.Proofs.Mirror.BSBits
import ChessVerif.Model.Lookup

namespace Chess.Proofs.BoardSym
open Chess

def betweenFlipRow (a : Sq) : Bool :=
  decide (∀ b : Sq, Lookup.between a.flipRank b.flipRank = BB.flipRanks (Lookup.between a b))

def betweenFlipRows (k : Fin 4) : Bool :=
  decide (∀ i : Fin 16, betweenFlipRow ⟨16 * k.val + i.val, by omega⟩ = true)

set_option maxRecDepth 100000 in
theorem between_flip_rows_0 : betweenFlipRows 0 = true := by decide +kernel
set_option maxRecDepth 100000 in
theorem between_flip_rows_1 : betweenFlipRows 1 = true := by decide +kernel
set_option maxRecDepth 100000 in
theorem between_flip_rows_2 : betweenFlipRows 2 = true := by decide +kernel
set_option maxRecDepth 100000 in
theorem between_flip_rows_3 : betweenFlipRows 3 = true := by decide +kernel

theorem between_flip (a b : Sq) : Lookup.between a.flipRank b.flipRank = BB.flipRanks (Lookup.between a b) := by
  have hk : ∀ k : Fin 4, betweenFlipRows k = true := by
    intro k
    match k with
    | 0 => exact between_flip_rows_0
    | 1 => exact between_flip_rows_1
    | 2 => exact between_flip_rows_2
    | 3 => exact between_flip_rows_3
  have := hk ⟨a.val / 16, by omega⟩
  simp only [betweenFlipRows, decide_eq_true_eq] at this
  have := this ⟨a.val % 16, by omega⟩
  have e : (⟨16 * (a.val / 16) + a.val % 16, by omega⟩ : Sq) = a := by ext; simp; omega
  rw [e] at this
  simp only [betweenFlipRow, decide_eq_true_eq] at this
  exact this b

end Chess.Proofs.BoardSym
