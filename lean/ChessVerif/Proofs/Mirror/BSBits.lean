/-
Layer B helpers (1): the rank flip on squares and bitboards — homomorphism, involution, counting.
-/
import ChessVerif.Proofs.BB
import ChessVerif.Proofs.Legal.Entries

namespace Chess.Proofs.BoardSym
open Chess

theorem flipRank_flipRank : ∀ s : Sq, s.flipRank.flipRank = s := by decide +kernel

theorem flipRank_inj {s t : Sq} (h : s.flipRank = t.flipRank) : s = t := by
  have := congrArg Sq.flipRank h
  rwa [flipRank_flipRank, flipRank_flipRank] at this

theorem flipRank_eq_iff (s t : Sq) : s.flipRank = t ↔ s = t.flipRank := by
  constructor
  · intro h; rw [← h, flipRank_flipRank]
  · intro h; rw [h, flipRank_flipRank]

theorem flipRank_file : ∀ s : Sq, s.flipRank.file = s.file := by decide +kernel
theorem flipRank_rank : ∀ s : Sq, s.flipRank.rank = Sq.flipRankR s.rank := by decide +kernel

theorem mem_flip (x : BB) (s : Sq) : BB.mem (BB.flipRanks x) s = BB.mem x s.flipRank := BB.mem_flipRanks x s

theorem mem_flip' (x : BB) (s : Sq) : BB.mem (BB.flipRanks x) s.flipRank = BB.mem x s := by
  rw [mem_flip, flipRank_flipRank]

theorem flip_or (x y : BB) : BB.flipRanks (x ||| y) = BB.flipRanks x ||| BB.flipRanks y :=
  BB.ext_mem fun s => by simp only [mem_flip, BB.mem_or']
theorem flip_and (x y : BB) : BB.flipRanks (x &&& y) = BB.flipRanks x &&& BB.flipRanks y :=
  BB.ext_mem fun s => by simp only [mem_flip, BB.mem_and']
theorem flip_xor (x y : BB) : BB.flipRanks (x ^^^ y) = BB.flipRanks x ^^^ BB.flipRanks y :=
  BB.ext_mem fun s => by simp only [mem_flip, BB.mem_xor']
theorem flip_not (x : BB) : BB.flipRanks (~~~x) = ~~~(BB.flipRanks x) :=
  BB.ext_mem fun s => by simp only [mem_flip, BB.mem_not']
theorem flip_zero : BB.flipRanks (0#64) = 0#64 :=
  BB.ext_mem fun s => by simp only [mem_flip, BB.mem_zero]
theorem flip_full : BB.flipRanks BB.full = BB.full :=
  BB.ext_mem fun s => by simp only [mem_flip, BB.mem_full]
theorem flip_flip (x : BB) : BB.flipRanks (BB.flipRanks x) = x :=
  BB.ext_mem fun s => by simp only [mem_flip, flipRank_flipRank]
theorem flip_ofSq (s : Sq) : BB.flipRanks (BB.ofSq s) = BB.ofSq s.flipRank :=
  BB.ext_mem fun t => by
    simp only [mem_flip, BB.mem_ofSq]
    rw [Bool.eq_iff_iff, beq_iff_eq, beq_iff_eq, flipRank_eq_iff]

theorem flip_inj {x y : BB} (h : BB.flipRanks x = BB.flipRanks y) : x = y := by
  have := congrArg BB.flipRanks h
  rwa [flip_flip, flip_flip] at this

theorem flip_eq_zero_iff (x : BB) : BB.flipRanks x = 0#64 ↔ x = 0#64 := by
  constructor
  · intro h; apply flip_inj; rw [h, flip_zero]
  · intro h; rw [h, flip_zero]

theorem flip_set (x : BB) (s : Sq) : BB.flipRanks (BB.set x s) = BB.set (BB.flipRanks x) s.flipRank := by
  unfold BB.set; rw [flip_or, flip_ofSq]
theorem flip_clear (x : BB) (s : Sq) : BB.flipRanks (BB.clear x s) = BB.clear (BB.flipRanks x) s.flipRank := by
  unfold BB.clear BB.diff; rw [flip_and, flip_not, flip_ofSq]
theorem flip_diff (x y : BB) : BB.flipRanks (BB.diff x y) = BB.diff (BB.flipRanks x) (BB.flipRanks y) := by
  unfold BB.diff; rw [flip_and, flip_not]

theorem none_flip (x : BB) : BB.none (BB.flipRanks x) = BB.none x := by
  unfold BB.none
  rw [Bool.eq_iff_iff, beq_iff_eq, beq_iff_eq, flip_eq_zero_iff]
theorem any_flip (x : BB) : BB.any (BB.flipRanks x) = BB.any x := by
  unfold BB.any
  rw [Bool.eq_iff_iff, bne_iff_ne, bne_iff_ne, Ne, flip_eq_zero_iff]

/-! ### counting -/

theorem nodup_map_flip {l : List Sq} (h : l.Nodup) : (l.map Sq.flipRank).Nodup :=
  List.Pairwise.map Sq.flipRank (fun _ _ hne he => hne (flipRank_inj he)) h

theorem finRange_flip_perm : ((List.finRange 64).map Sq.flipRank).Perm (List.finRange 64) := by
  apply (List.perm_ext_iff_of_nodup ?_ (List.nodup_finRange 64)).2
  · intro s
    simp only [List.mem_map, List.mem_finRange, true_and, iff_true]
    exact ⟨Sq.flipRank s, flipRank_flipRank s⟩
  · exact nodup_map_flip (List.nodup_finRange 64)

theorem count_flip (x : BB) : BB.count (BB.flipRanks x) = BB.count x := by
  rw [Entries.count_eq_countP, Entries.count_eq_countP]
  have h1 : (List.finRange 64).countP (BB.mem (BB.flipRanks x)) =
      ((List.finRange 64).map Sq.flipRank).countP (BB.mem x) := by
    rw [List.countP_map]
    apply List.countP_congr
    intro s _
    simp only [Function.comp, mem_flip]
  rw [h1]
  exact finRange_flip_perm.countP_eq _

theorem toList_flip_perm (x : BB) : (BB.toList (BB.flipRanks x)).Perm ((BB.toList x).map Sq.flipRank) := by
  apply (List.perm_ext_iff_of_nodup ?_ ?_).2
  · intro s
    rw [BB.mem_toList, mem_flip, List.mem_map]
    constructor
    · intro h
      exact ⟨s.flipRank, (BB.mem_toList _ _).2 h, flipRank_flipRank s⟩
    · rintro ⟨t, ht, rfl⟩
      rw [flipRank_flipRank]
      exact (BB.mem_toList _ _).1 ht
  · exact (List.nodup_finRange 64).filter _
  · exact nodup_map_flip ((List.nodup_finRange 64).filter _)

theorem mem_toList_flip (x : BB) (s : Sq) : s ∈ BB.toList (BB.flipRanks x) ↔ s.flipRank ∈ BB.toList x := by
  rw [BB.mem_toList, BB.mem_toList, mem_flip]

/-- `all` over the members of a flipped set -/
theorem all_toList_flip (x : BB) (f : Sq → Bool) :
    (BB.toList (BB.flipRanks x)).all f = (BB.toList x).all (fun s => f s.flipRank) := by
  rw [(toList_flip_perm x).all_eq, List.all_map]
  rfl

end Chess.Proofs.BoardSym
