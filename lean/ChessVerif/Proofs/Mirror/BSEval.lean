/-
Layer B helpers (9): the static evaluation (`positional = false`) of the mirror image is the negated evaluation.
-/
import ChessVerif.Proofs.Mirror.BSKing
import ChessVerif.Spec.ScoreNeg

namespace Chess.Proofs.BoardSym
open Chess Chess.Spec Chess.Engine Chess.MoveGen

theorem scorePieces_mirror (b : Board) (c : Color) : scorePieces b.mirror c.flip = scorePieces b c := by
  unfold scorePieces
  simp only [mirror_color_flip, mirror_queen, mirror_rook, mirror_bishop, mirror_knight, mirror_pawn,
    ← flip_and, count_flip]

theorem evalEndgame_mirror (b : Board) (h : b.WF = true) (c : Color) :
    evalEndgame b.mirror c.flip = evalEndgame b c := by
  have hk := AbsL.wf_hasKings b h
  unfold evalEndgame
  simp only [kingSq_mirror b hk, len_kingLegals_mirror b h, distance_flip, distFromEdge_flip]

/-- the one fact about the numbers of the evaluation that colour symmetry needs: both "ahead" branches of `eval`
use the same material limit (re-checked against the source on every run; piece values and weights are free) -/
theorem limits_agree : Gen.EngineConsts.limitBlackAhead = Gen.EngineConsts.limitWhiteAhead := by decide

/-- for the shipped configuration `positional = false` (with the piece-square maps the evaluation is NOT colour-symmetric:
the Black branch of `score_pieces` intersects with the rank-flipped image of all rooks/bishops/pawns) -/
theorem eval_mirror' (b : Board) (h : b.WF = true) : eval false b.mirror = negScore (eval false b) := by
  rw [eval_false, eval_false]
  unfold evalMaterial
  rw [limits_agree]
  generalize Gen.EngineConsts.limitWhiteAhead = lim
  rw [mirror_half']
  by_cases hh : b.half ≥ 100
  · rw [if_pos hh, if_pos hh]; rfl
  · rw [if_neg hh, if_neg hh]
    have h1 : scorePieces b.mirror .white = scorePieces b .black := scorePieces_mirror b .black
    have h2 : scorePieces b.mirror .black = scorePieces b .white := scorePieces_mirror b .white
    have h3 : evalEndgame b.mirror .white = evalEndgame b .black := evalEndgame_mirror b h .black
    have h4 : evalEndgame b.mirror .black = evalEndgame b .white := evalEndgame_mirror b h .white
    simp only [h1, h2, h3, h4]
    generalize scorePieces b .white = w
    generalize scorePieces b .black = k
    generalize evalEndgame b .white = ew
    generalize evalEndgame b .black = eb
    simp only [negScore]
    congr 1
    by_cases c1 : w - k < 0
    · have c1' : ¬ (k - w < 0) := by omega
      have c1'' : ¬ (k - w = 0) := by omega
      simp only [c1, c1', c1'', if_true, if_false]
      by_cases c2 : k < lim <;> simp only [c2, if_true, if_false] <;> omega
    · by_cases c3 : w - k = 0
      · have c3'' : k - w = 0 := by omega
        simp only [c3, c3'', Int.lt_irrefl, if_true, if_false]
        omega
      · have c4 : k - w < 0 := by omega
        simp only [c1, c3, c4, if_true, if_false]
        by_cases c2 : w < lim <;> simp only [c2, if_true, if_false] <;> omega

end Chess.Proofs.BoardSym
