/-
Layer B helpers (3): board extensionality, `updatePinInfo` reads only placement and side to move,
nothing reads the full-move counter.
-/
import ChessVerif.Proofs.Mirror.BSBasic
import ChessVerif.Proofs.MoveAbs

namespace Chess.Proofs.BoardSym
open Chess Chess.Spec

theorem board_ext (a b : Board) (h1 : a.zobrist = b.zobrist) (h2 : a.turn = b.turn) (h3 : a.castle = b.castle)
    (h4 : a.ep = b.ep) (h5 : a.half = b.half) (h6 : a.full = b.full) (h7 : a.pinned = b.pinned)
    (h8 : a.checkers = b.checkers) (h9 : a.raw = b.raw) : a = b := by
  cases a; cases b; simp only at *; simp only [*]

/-- the from-scratch pin/check state depends only on placement and side to move -/
theorem upi_congr (a b : Board) (hr : a.raw = b.raw) (ht : a.turn = b.turn) :
    a.updatePinInfo.pinned = b.updatePinInfo.pinned ∧ a.updatePinInfo.checkers = b.updatePinInfo.checkers := by
  unfold Board.updatePinInfo Board.kingSq Board.kingSq? Board.kingBB
  simp only [hr, ht]
  exact ⟨trivial, trivial⟩

/-- the board handed to `updatePinInfo` by `Board.mirror` -/
def preMirror (b : Board) : Board :=
  { zobrist := b.raw.mirror.pieceHash, turn := b.turn.flip, castle := Castle.mirror b.castle, ep := b.ep,
    half := b.half, full := b.full, pinned := 0#64, checkers := 0#64, raw := b.raw.mirror }

theorem mirror_eq (b : Board) : b.mirror = (preMirror b).updatePinInfo := rfl

theorem mirror_pinned (b : Board) : b.mirror.pinned = (preMirror b).updatePinInfo.pinned := rfl
theorem mirror_checkers (b : Board) : b.mirror.checkers = (preMirror b).updatePinInfo.checkers := rfl

/-- the derived fields of a mirror image depend only on placement and side to move -/
theorem mirror_pins_congr (a b : Board) (hr : a.raw = b.raw) (ht : a.turn = b.turn) :
    a.mirror.pinned = b.mirror.pinned ∧ a.mirror.checkers = b.mirror.checkers := by
  rw [mirror_pinned, mirror_pinned, mirror_checkers, mirror_checkers]
  apply upi_congr
  · show a.raw.mirror = b.raw.mirror
    rw [hr]
  · show a.turn.flip = b.turn.flip
    rw [ht]

/-- a mirror image carries from-scratch pin/check state -/
theorem mirror_pinInfoOk (b : Board) : b.mirror.pinInfoOk = true := by
  have h := upi_congr b.mirror (preMirror b) rfl rfl
  simp only [Board.pinInfoOk, Bool.and_eq_true, beq_iff_eq]
  exact ⟨(mirror_pinned b).trans h.1.symm, (mirror_checkers b).trans h.2.symm⟩

/-! ### the full-move counter -/

def setFull (b : Board) (n : Nat) : Board := { b with full := n }

@[simp] theorem setFull_zobrist (b : Board) (n : Nat) : (setFull b n).zobrist = b.zobrist := rfl
@[simp] theorem setFull_turn (b : Board) (n : Nat) : (setFull b n).turn = b.turn := rfl
@[simp] theorem setFull_castle (b : Board) (n : Nat) : (setFull b n).castle = b.castle := rfl
@[simp] theorem setFull_ep (b : Board) (n : Nat) : (setFull b n).ep = b.ep := rfl
@[simp] theorem setFull_half (b : Board) (n : Nat) : (setFull b n).half = b.half := rfl
@[simp] theorem setFull_full (b : Board) (n : Nat) : (setFull b n).full = n := rfl
@[simp] theorem setFull_pinned (b : Board) (n : Nat) : (setFull b n).pinned = b.pinned := rfl
@[simp] theorem setFull_checkers (b : Board) (n : Nat) : (setFull b n).checkers = b.checkers := rfl
@[simp] theorem setFull_raw (b : Board) (n : Nat) : (setFull b n).raw = b.raw := rfl
theorem setFull_setFull (b : Board) (n k : Nat) : setFull (setFull b n) k = setFull b k := rfl

theorem setFull_mirror (b : Board) (n : Nat) : (setFull b n).mirror = setFull b.mirror n := by
  have hp := mirror_pins_congr (setFull b n) b rfl rfl
  apply board_ext
  · simp only [mirror_zobrist, setFull_zobrist, setFull_raw]
  · simp only [mirror_turn', setFull_turn]
  · simp only [mirror_castle, setFull_castle]
  · simp only [mirror_ep, setFull_ep]
  · simp only [mirror_half', setFull_half]
  · simp only [mirror_full, setFull_full]
  · rw [setFull_pinned]; exact hp.1
  · rw [setFull_checkers]; exact hp.2
  · simp only [mirror_raw, setFull_raw]

theorem mvBase_setFull (b : Board) (n : Nat) (m : Move) :
    Board.mvBase (setFull b n) m = setFull (Board.mvBase b m) (satAdd16 n b.turn.idx) := by
  unfold Board.mvBase
  simp only [setFull]
  split <;> rfl

theorem mvSpecial_congr (b b' : Board) (hr : b'.raw = b.raw) (ht : b'.turn = b.turn) (he : b'.ep = b.ep)
    (m : Move) (o : Board) : Board.mvSpecial b' m o = Board.mvSpecial b m o := by
  obtain ⟨z, t, c, e, h, f, p, ck, r⟩ := b
  obtain ⟨z', t', c', e', h', f', p', ck', r'⟩ := b'
  simp only at hr ht he
  subst hr ht he
  rfl

theorem mvSpecial_setFull (b : Board) (k : Nat) (m : Move) (o : Board) :
    Board.mvSpecial b m (setFull o k) = setFull (Board.mvSpecial b m o) k := by
  unfold Board.mvSpecial
  simp only [setFull]
  repeat' split
  all_goals rfl

theorem move_setFull (b : Board) (n : Nat) (m : Move) :
    (setFull b n).moveUnchecked m = setFull (b.moveUnchecked m) (satAdd16 n b.turn.idx) := by
  rw [Board.moveUnchecked_eq, Board.moveUnchecked_eq, mvBase_setFull,
    mvSpecial_congr b (setFull b n) rfl rfl rfl, mvSpecial_setFull]
  rfl

end Chess.Proofs.BoardSym
