/-
Layer B helpers (8): the king-move generator (`king_legals`, for either colour) commutes with the
mirror.
-/
import ChessVerif.Proofs.Mirror.BSWF
import ChessVerif.Proofs.Mirror.BSTables
import ChessVerif.Proofs.Mirror.BSBetween
import ChessVerif.Proofs.IterMask
import ChessVerif.Proofs.Legal.King

namespace Chess.Proofs.BoardSym
open Chess Chess.Spec Chess.Engine Chess.MoveGen
open Chess.Proofs.IterMask (kStep kCastle kMoves)

/-! ### fields of the mirrored placement -/

theorem mirror_white (b : Board) : b.mirror.raw.white = BB.flipRanks b.raw.black := rfl
theorem mirror_black (b : Board) : b.mirror.raw.black = BB.flipRanks b.raw.white := rfl
theorem mirror_pawn (b : Board) : b.mirror.raw.pawn = BB.flipRanks b.raw.pawn := rfl
theorem mirror_knight (b : Board) : b.mirror.raw.knight = BB.flipRanks b.raw.knight := rfl
theorem mirror_bishop (b : Board) : b.mirror.raw.bishop = BB.flipRanks b.raw.bishop := rfl
theorem mirror_rook (b : Board) : b.mirror.raw.rook = BB.flipRanks b.raw.rook := rfl
theorem mirror_queen (b : Board) : b.mirror.raw.queen = BB.flipRanks b.raw.queen := rfl
theorem mirror_king (b : Board) : b.mirror.raw.king = BB.flipRanks b.raw.king := rfl
theorem mirror_all (b : Board) : b.mirror.raw.all = BB.flipRanks b.raw.all := raw_mirror_all b.raw
theorem mirror_color_flip (b : Board) (c : Color) : b.mirror.raw.color c.flip = BB.flipRanks (b.raw.color c) :=
  raw_mirror_color' b.raw c

/-! ### the king squares -/

theorem hasKings_mirror (r : RawBoard) (h : r.hasKings = true) : r.mirror.hasKings = true := by
  simp only [RawBoard.hasKings, Bool.and_eq_true, beq_iff_eq] at h ⊢
  obtain ⟨⟨h1, h2⟩, h3⟩ := h
  simp only [RawBoard.mirror, ← flip_and, count_flip]
  exact ⟨⟨h1, h3⟩, h2⟩

theorem kingBB_mirror (b : Board) (c : Color) : b.mirror.kingBB c.flip = BB.flipRanks (b.kingBB c) := by
  unfold Board.kingBB
  rw [mirror_color_flip, mirror_king, flip_and]

theorem kingSq_mirror (b : Board) (hk : b.raw.hasKings = true) (c : Color) :
    b.mirror.kingSq c.flip = (b.kingSq c).flipRank := by
  have hk' : b.mirror.raw.hasKings = true := hasKings_mirror _ hk
  have h1 := AbsL.toList_kingBB b.mirror hk' c.flip
  have h2 := AbsL.toList_kingBB b hk c
  have h3 := toList_flip_perm (b.kingBB c)
  rw [← kingBB_mirror, h1, h2] at h3
  have := h3.mem_iff (a := b.mirror.kingSq c.flip)
  simp only [List.map_cons, List.map_nil, List.mem_singleton, true_iff] at this
  exact this

/-! ### `is_legal_king_position` -/

theorem isLegalKingPosition_mirror (b : Board) (hk : b.raw.hasKings = true) (kp : Sq) :
    b.mirror.isLegalKingPosition kp.flipRank = b.isLegalKingPosition kp := by
  unfold Board.isLegalKingPosition
  simp only [mirror_turn', kingSq_mirror b hk, mirror_color_flip, mirror_queen, mirror_bishop, mirror_rook,
    mirror_king, mirror_knight, mirror_pawn, mirror_all, bishopRays_flip, rookRays_flip, kingMoves_flip,
    knightMoves_flip, pawnAttacks_flip, ← flip_ofSq, ← flip_or, ← flip_and, ← flip_xor, all_toList_flip,
    between_flip, none_flip]

/-! ### the king steps -/

theorem mem_kStep' (b : Board) (c : Color) (mask : BB) (d : Sq) :
    BB.mem (kStep b c mask) d = (BB.mem (Lookup.kingMoves (b.kingSq c) &&& mask) d && b.isLegalKingPosition d) := by
  unfold kStep
  rw [Legal.King.mem_foldl_clear, ← BB.mem_eq_contains_toList]
  show (BB.mem (Lookup.kingMoves (b.kingSq c) &&& mask) d &&
    (!BB.mem (Lookup.kingMoves (b.kingSq c) &&& mask) d || b.isLegalKingPosition d)) = _
  cases BB.mem (Lookup.kingMoves (b.kingSq c) &&& mask) d <;> rfl

theorem kStep_mirror (b : Board) (hk : b.raw.hasKings = true) (c : Color) (mask : BB) :
    kStep b.mirror c.flip (BB.flipRanks mask) = BB.flipRanks (kStep b c mask) := by
  apply BB.ext_mem
  intro d
  rw [mem_flip, mem_kStep', mem_kStep', kingSq_mirror b hk, kingMoves_flip, ← flip_and, mem_flip]
  have := isLegalKingPosition_mirror b hk d.flipRank
  rw [flipRank_flipRank] at this
  rw [this]

/-! ### castling -/

theorem kCastle_mirror (b : Board) (hk : b.raw.hasKings = true) (hc : b.castle < 16) (c : Color) (mask moves : BB)
    (side : Side) (cf sf : BB) (hcf : BB.flipRanks cf = cf) (hsf : BB.flipRanks sf = sf) :
    kCastle b.mirror c.flip (BB.flipRanks mask) (BB.flipRanks moves) side cf sf =
      BB.flipRanks (kCastle b c mask moves side cf sf) := by
  unfold kCastle
  have h1 : Castle.contains b.mirror.castle side c.flip = Castle.contains b.castle side c := by
    rw [mirror_castle, castle_mirror_contains' _ hc, Color.flip_flip]
  have h2 : cf &&& Lookup.backrankBB c.flip = BB.flipRanks (cf &&& Lookup.backrankBB c) := by
    rw [flip_and, hcf, backrank_flip]
  have h3 : sf &&& Lookup.backrankBB c.flip = BB.flipRanks (sf &&& Lookup.backrankBB c) := by
    rw [flip_and, hsf, backrank_flip]
  have h4 : (BB.toList (BB.flipRanks (sf &&& Lookup.backrankBB c))).all (fun d => b.mirror.isLegalKingPosition d) =
      (BB.toList (sf &&& Lookup.backrankBB c)).all (fun d => b.isLegalKingPosition d) := by
    rw [all_toList_flip]
    simp only [isLegalKingPosition_mirror b hk]
  rw [h1, h2, h3, h4, mirror_all, ← flip_and, none_flip]
  have h5 : BB.flipRanks moves ^^^
      (BB.flipRanks (cf &&& Lookup.backrankBB c) &&& Gen.Consts.castleMoves &&& BB.flipRanks mask) =
      BB.flipRanks (moves ^^^ (cf &&& Lookup.backrankBB c &&& Gen.Consts.castleMoves &&& mask)) := by
    simp only [flip_xor, flip_and, castleMoves_flip]
  rw [h5]
  split
  · rfl
  · split
    · split <;> rfl
    · rfl

theorem kMoves_mirror (b : Board) (hk : b.raw.hasKings = true) (hc : b.castle < 16) (ic : Bool) (c : Color) (mask : BB) :
    kMoves b.mirror ic c.flip (BB.flipRanks mask) = BB.flipRanks (kMoves b ic c mask) := by
  unfold kMoves
  cases ic
  · simp only [Bool.false_eq_true, if_false]
    rw [kStep_mirror b hk, kCastle_mirror b hk hc _ _ _ _ _ _ ksFiles_flip ksSafe_flip,
      kCastle_mirror b hk hc _ _ _ _ _ _ qsFiles_flip qsSafe_flip]
  · simp only [if_true]
    exact kStep_mirror b hk c mask

/-! ### the number of king moves -/

theorem len_kingLegals (b : Board) (c : Color) :
    (MoveGen.kingLegals b c).len = BB.count (kMoves b (!BB.none b.checkers) c (~~~(b.raw.color c))) := by
  have he : (MoveGen.kingLegals b c) =
      ⟨if BB.none (kMoves b (!BB.none b.checkers) c (~~~(b.raw.color c))) then []
        else [⟨b.kingSq c, kMoves b (!BB.none b.checkers) c (~~~(b.raw.color c)), false⟩], 0, BB.full, 0⟩ := rfl
  rw [he]
  unfold MoveGen.len
  by_cases hn : BB.none (kMoves b (!BB.none b.checkers) c (~~~(b.raw.color c))) = true
  · rw [if_pos hn, Entries.count_of_none _ hn]
    rfl
  · rw [if_neg hn]
    have hfull : ∀ x : BB, x &&& BB.full = x := fun x =>
      BB.ext_mem fun s => by rw [BB.mem_and', BB.mem_full, Bool.and_true]
    simp only [List.drop_zero, List.foldl_cons, List.foldl_nil, hfull, Bool.false_eq_true, if_false]
    split
    · rename_i h0
      simp only [beq_iff_eq] at h0
      rw [h0]
    · exact Nat.zero_add _

theorem len_kingLegals_mirror (b : Board) (h : b.WF = true) (c : Color) :
    (MoveGen.kingLegals b.mirror c.flip).len = (MoveGen.kingLegals b c).len := by
  rw [len_kingLegals, len_kingLegals]
  have hic : (!BB.none b.mirror.checkers) = (!BB.none b.checkers) := by
    have := inCheck_mirror' b h
    simp only [Board.inCheck, BB.any] at this
    simp only [BB.none]
    rw [Bool.eq_iff_iff] at this ⊢
    simp only [bne_iff_ne, ne_eq, Bool.not_eq_true', beq_eq_false_iff_ne] at this ⊢
    exact this
  rw [hic, mirror_color_flip, ← flip_not, kMoves_mirror b (AbsL.wf_hasKings b h) (AbsL.wf_castle b h), count_flip]

end Chess.Proofs.BoardSym
