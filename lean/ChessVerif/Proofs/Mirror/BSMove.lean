/-
Layer B helpers (5): the successor of the mirror image is the mirror image of the successor;
board equality of mirror images.
-/
import ChessVerif.Proofs.Mirror.BSWF
import ChessVerif.Proofs.Legal.Reach

namespace Chess.Proofs.BoardSym
open Chess Chess.Spec Chess.Engine Chess.MoveGen

/-! ### extensionality of well-formed boards -/

theorem raw_ext' (a b : RawBoard) (ha : a.partitionOk = true) (hb : b.partitionOk = true)
    (h : pieceOn a = pieceOn b) : a = b := by
  have hA : ∀ s, RawBoard.At a s (pieceOn a s) := fun s =>
    RawBoard.at_of_sqOk _ _ ((RawBoard.partitionOk_iff_sqOk _).1 ha s)
  have hB : ∀ s, RawBoard.At b s (pieceOn a s) := fun s => by
    rw [h]; exact RawBoard.at_of_sqOk _ _ ((RawBoard.partitionOk_iff_sqOk _).1 hb s)
  have hc : ∀ c, a.color c = b.color c := fun c =>
    BB.ext_mem fun s => ((hA s).1 c).trans ((hB s).1 c).symm
  have hp : ∀ p, a.piece p = b.piece p := fun p =>
    BB.ext_mem fun s => ((hA s).2 p).trans ((hB s).2 p).symm
  obtain ⟨w, bl, pa, kn, bi, ro, qu, ki⟩ := a
  obtain ⟨w', bl', pa', kn', bi', ro', qu', ki'⟩ := b
  have h1 := hc .white; have h2 := hc .black
  have h3 := hp .pawn; have h4 := hp .knight; have h5 := hp .bishop; have h6 := hp .rook
  have h7 := hp .queen; have h8 := hp .king
  simp only [RawBoard.color, RawBoard.piece] at h1 h2 h3 h4 h5 h6 h7 h8
  subst h1 h2 h3 h4 h5 h6 h7 h8
  rfl

/-- two well-formed boards with the same placement, side to move, rights, marker and half-move
clock are equal up to the full-move counter -/
theorem wf_ext (a b : Board) (ha : a.WF = true) (hb : b.WF = true) (hr : a.raw = b.raw) (ht : a.turn = b.turn)
    (hc : a.castle = b.castle) (he : a.ep = b.ep) (hh : a.half = b.half) : setFull a 0 = setFull b 0 := by
  have hpin := Props.C03.pinInfo_determined a b hr ht (AbsL.wf_all a ha).2.2.2.1 (AbsL.wf_all b hb).2.2.2.1
  apply board_ext
  · simp only [setFull_zobrist]; rw [AbsL.wf_hash a ha, AbsL.wf_hash b hb, hr]
  · simpa only [setFull_turn] using ht
  · simpa only [setFull_castle] using hc
  · simpa only [setFull_ep] using he
  · simpa only [setFull_half] using hh
  · rfl
  · simpa only [setFull_pinned] using hpin.1
  · simpa only [setFull_checkers] using hpin.2
  · simpa only [setFull_raw] using hr

/-! ### unconditional field facts -/

theorem pieceOfUnchecked_mirror (r : RawBoard) (s : Sq) :
    r.mirror.pieceOfUnchecked s.flipRank = r.pieceOfUnchecked s := by
  simp only [RawBoard.pieceOfUnchecked, BB.contains_eq_mem, RawBoard.mirror, ← flip_or, mem_flip']

theorem pieceOf_isSome_mirror (r : RawBoard) (s : Sq) :
    (r.mirror.pieceOf s.flipRank).isSome = (r.pieceOf s).isSome := by
  have h := colorOf_isSome_mirror r s
  unfold RawBoard.pieceOf
  cases h1 : r.mirror.colorOf s.flipRank <;> cases h2 : r.colorOf s <;> simp_all

set_option maxRecDepth 100000 in
theorem removeForSq_mirror_fin : ∀ (c : Color) (s : Sq) (cr : Fin 16),
    Castle.removeForSq (Castle.mirror cr.val) c.flip s.flipRank = Castle.mirror (Castle.removeForSq cr.val c s) := by
  intro c
  cases c
  · decide +kernel
  · decide +kernel

theorem removeForSq_mirror (cr : Nat) (h : cr < 16) (c : Color) (s : Sq) :
    Castle.removeForSq (Castle.mirror cr) c.flip s.flipRank = Castle.mirror (Castle.removeForSq cr c s) :=
  removeForSq_mirror_fin c s ⟨cr, h⟩

theorem pawnDoubleMove_flip (c : Color) : Lookup.pawnDoubleMove c.flip = BB.flipRanks (Lookup.pawnDoubleMove c) := by
  cases c <;> decide +kernel

theorem move_turn_mirror (b : Board) (m : Move) :
    (b.mirror.moveUnchecked m.mirror).turn = (b.moveUnchecked m).mirror.turn := by
  rw [Props.C02.move_turn, mirror_turn', mirror_turn', Props.C02.move_turn]

theorem move_half_mirror (b : Board) (m : Move) :
    (b.mirror.moveUnchecked m.mirror).half = (b.moveUnchecked m).mirror.half := by
  simp only [Props.C02.move_half, mirror_half', mirror_raw]
  show (if b.raw.mirror.pieceOfUnchecked m.source.flipRank = Piece.pawn ∨
      (b.raw.mirror.pieceOf m.dest.flipRank).isSome = true then 0 else satAdd16 b.half 1) = _
  rw [pieceOfUnchecked_mirror, pieceOf_isSome_mirror]

theorem move_castle_mirror (b : Board) (hc : b.castle < 16) (m : Move) :
    (b.mirror.moveUnchecked m.mirror).castle = (b.moveUnchecked m).mirror.castle := by
  rw [Props.C02.move_castle, mirror_castle, mirror_castle, Props.C02.move_castle, mirror_turn']
  show Castle.removeForSq (Castle.removeForSq (Castle.mirror b.castle) b.turn.flip.flip m.dest.flipRank)
      b.turn.flip m.source.flipRank = _
  rw [removeForSq_mirror _ hc, removeForSq_mirror _ (Legal.removeForSq_lt _ hc _ _)]

theorem move_ep_mirror (b : Board) (m : Move) :
    (b.mirror.moveUnchecked m.mirror).ep = (b.moveUnchecked m).mirror.ep := by
  rw [Props.C02.move_ep, mirror_ep, Props.C02.move_ep, mirror_raw, mirror_turn']
  show (if b.raw.mirror.pieceOfUnchecked m.source.flipRank = Piece.pawn ∧ m.piece = none ∧
      ((BB.ofSq m.source.flipRank ^^^ BB.ofSq m.dest.flipRank) &&& Lookup.pawnDoubleMove b.turn.flip) =
        (BB.ofSq m.source.flipRank ^^^ BB.ofSq m.dest.flipRank) then some m.dest.flipRank.file else none) = _
  rw [pieceOfUnchecked_mirror, pawnDoubleMove_flip, ← flip_ofSq, ← flip_ofSq, ← flip_xor, ← flip_and, flipRank_file]
  have : (BB.flipRanks ((BB.ofSq m.source ^^^ BB.ofSq m.dest) &&& Lookup.pawnDoubleMove b.turn) =
      BB.flipRanks (BB.ofSq m.source ^^^ BB.ofSq m.dest)) ↔
      ((BB.ofSq m.source ^^^ BB.ofSq m.dest) &&& Lookup.pawnDoubleMove b.turn) = (BB.ofSq m.source ^^^ BB.ofSq m.dest) :=
    ⟨flip_inj, fun h => by rw [h]⟩
  simp only [this]

/-! ### the placement of the successor -/

theorem move_raw_mirror (b : Board) (h : b.WF = true) (m : Move) (hl : (abs b).legal m = true) :
    (b.mirror.moveUnchecked m.mirror).raw = (b.moveUnchecked m).mirror.raw := by
  have hp := AbsL.wf_partition b h
  have hc := AbsL.wf_castle b h
  have h' := mirror_WF' b h
  have hl' : (abs b.mirror).legal m.mirror = true := by
    rw [legal_mirror_iff b h, move_mirror_mirror]; exact hl
  have hil : b.isLegal m = true := by rw [Legal.isLegal_iff_spec b h]; exact hl
  have hil' : b.mirror.isLegal m.mirror = true := by rw [Legal.isLegal_iff_spec _ h']; exact hl'
  have hw1 := Legal.move_WF b h m hil
  have hw2 := Legal.move_WF _ h' _ hil'
  obtain ⟨κ, hps⟩ := Legal.pseudo_of_legal _ _ hl
  have hps' : (abs b.mirror).pseudo m.mirror = some κ := by
    rw [abs_mirror' b hp hc, Position.pseudo_mirror]; exact hps
  rw [mirror_raw]
  apply raw_ext' _ _ (AbsL.wf_partition _ hw2) (partitionOk_mirror _ (AbsL.wf_partition _ hw1))
  funext s
  rw [Legal.move_placement _ h' _ κ hps' s, pieceOn_mirror _ (AbsL.wf_partition _ hw1),
    Legal.move_placement b h m κ hps, abs_mirror' b hp hc]
  exact congrFun (Position.applyKind_mirror (abs b) m κ).1 s

theorem move_mirror' (b : Board) (h : b.WF = true) (m : Move) (hm : m ∈ mvsOf (legals b)) :
    setFull (b.mirror.moveUnchecked m.mirror) 0 = setFull (b.moveUnchecked m).mirror 0 := by
  have hl : (abs b).legal m = true := (mem_mvsOf_legals b h m).1 hm
  have h' := mirror_WF' b h
  have hl' : (abs b.mirror).legal m.mirror = true := by
    rw [legal_mirror_iff b h, move_mirror_mirror]; exact hl
  have hil : b.isLegal m = true := by rw [Legal.isLegal_iff_spec b h]; exact hl
  have hil' : b.mirror.isLegal m.mirror = true := by rw [Legal.isLegal_iff_spec _ h']; exact hl'
  have hw1 := Legal.move_WF b h m hil
  have hw2 := Legal.move_WF _ h' _ hil'
  exact wf_ext _ _ hw2 (mirror_WF' _ hw1) (move_raw_mirror b h m hl) (move_turn_mirror b m)
    (move_castle_mirror b (AbsL.wf_castle b h) m) (move_ep_mirror b m) (move_half_mirror b m)

/-! ### board equality -/

theorem raw_mirror_inj {r r' : RawBoard} (h : r.mirror = r'.mirror) : r = r' := by
  have := congrArg RawBoard.mirror h
  rwa [raw_mirror_mirror, raw_mirror_mirror] at this

theorem castle_mirror_inj {x y : Nat} (hx : x < 16) (hy : y < 16) (h : Castle.mirror x = Castle.mirror y) : x = y := by
  have := congrArg Castle.mirror h
  rwa [castle_mirror_mirror _ hx, castle_mirror_mirror _ hy] at this

theorem color_flip_inj {c c' : Color} (h : c.flip = c'.flip) : c = c' := by
  cases c <;> cases c' <;> first | rfl | cases h

theorem beq_iff (a b : Board) :
    Board.beq a b = true ↔ (a.turn = b.turn ∧ a.castle = b.castle ∧ a.ep = b.ep ∧ a.raw = b.raw) := by
  unfold Board.beq
  simp only [Bool.and_eq_true, decide_eq_true_eq, beq_iff_eq]
  constructor
  · rintro ⟨⟨⟨h1, h2⟩, h3⟩, h4⟩; exact ⟨h1, h2, h3, h4⟩
  · rintro ⟨h1, h2, h3, h4⟩; exact ⟨⟨⟨h1, h2⟩, h3⟩, h4⟩

theorem beq_mirror' (a b : Board) (ha : a.castle < 16) (hb : b.castle < 16) :
    Board.beq a.mirror b.mirror = Board.beq a b := by
  rw [Bool.eq_iff_iff, beq_iff, beq_iff, mirror_turn', mirror_turn', mirror_castle, mirror_castle,
    mirror_ep, mirror_ep, mirror_raw, mirror_raw]
  constructor
  · rintro ⟨h1, h2, h3, h4⟩
    exact ⟨color_flip_inj h1, castle_mirror_inj ha hb h2, h3, raw_mirror_inj h4⟩
  · rintro ⟨h1, h2, h3, h4⟩
    exact ⟨by rw [h1], by rw [h2], h3, by rw [h4]⟩

end Chess.Proofs.BoardSym
