/-
Layer B helpers (6): the lookup tables and constants read by `king_legals` are symmetric under the
rank flip (closed facts, by kernel evaluation).
-/
import ChessVerif.Proofs.Mirror.BSBits
import ChessVerif.Model.Engine

namespace Chess.Proofs.BoardSym
open Chess

theorem kingMoves_flip : ∀ s : Sq, Lookup.kingMoves s.flipRank = BB.flipRanks (Lookup.kingMoves s) := by
  decide +kernel
theorem knightMoves_flip : ∀ s : Sq, Lookup.knightMoves s.flipRank = BB.flipRanks (Lookup.knightMoves s) := by
  decide +kernel
theorem bishopRays_flip : ∀ s : Sq, Lookup.bishopRays s.flipRank = BB.flipRanks (Lookup.bishopRays s) := by
  decide +kernel
theorem rookRays_flip : ∀ s : Sq, Lookup.rookRays s.flipRank = BB.flipRanks (Lookup.rookRays s) := by
  decide +kernel
theorem pawnAttacks_flip_white : ∀ s : Sq,
    Lookup.pawnAttacksMoves s.flipRank .black = BB.flipRanks (Lookup.pawnAttacksMoves s .white) := by
  decide +kernel
theorem pawnAttacks_flip_black : ∀ s : Sq,
    Lookup.pawnAttacksMoves s.flipRank .white = BB.flipRanks (Lookup.pawnAttacksMoves s .black) := by
  decide +kernel
theorem pawnAttacks_flip (s : Sq) (c : Color) :
    Lookup.pawnAttacksMoves s.flipRank c.flip = BB.flipRanks (Lookup.pawnAttacksMoves s c) := by
  cases c
  · exact pawnAttacks_flip_white s
  · exact pawnAttacks_flip_black s

theorem backrank_flip (c : Color) : Lookup.backrankBB c.flip = BB.flipRanks (Lookup.backrankBB c) := by
  cases c <;> decide +kernel

theorem castleMoves_flip : BB.flipRanks Gen.Consts.castleMoves = Gen.Consts.castleMoves := by decide +kernel
theorem ksFiles_flip : BB.flipRanks Gen.Consts.kingsideCastleFiles = Gen.Consts.kingsideCastleFiles := by decide +kernel
theorem qsFiles_flip : BB.flipRanks Gen.Consts.queensideCastleFiles = Gen.Consts.queensideCastleFiles := by decide +kernel
theorem ksSafe_flip : BB.flipRanks Gen.Consts.kingsideCastleSafeFiles = Gen.Consts.kingsideCastleSafeFiles := by decide +kernel
theorem qsSafe_flip : BB.flipRanks Gen.Consts.queensideCastleSafeFiles = Gen.Consts.queensideCastleSafeFiles := by decide +kernel

theorem distance_flip : ∀ a b : Sq, Lookup.distance a.flipRank b.flipRank = Lookup.distance a b := by
  decide +kernel
theorem distFromEdge_flip : ∀ s : Sq, Engine.distFromEdge s.flipRank = Engine.distFromEdge s := by
  decide +kernel

end Chess.Proofs.BoardSym
