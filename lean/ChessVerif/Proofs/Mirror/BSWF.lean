/-
Layer B helpers (4): the mirror image of a well-formed board is well-formed, the mirror is an
involution, and the legal moves / check status of the mirror image.
-/
import ChessVerif.Proofs.Mirror.BSFull
import ChessVerif.Proofs.Mirror.SpecSym
import ChessVerif.Proofs.Mirror.Valid
import ChessVerif.Props.C01
import ChessVerif.Props.C02
import ChessVerif.Props.C03
import ChessVerif.Proofs.Iter
import ChessVerif.Proofs.IterMask

namespace Chess.Proofs.BoardSym
open Chess Chess.Spec Chess.Engine Chess.MoveGen

theorem mirror_WF' (b : Board) (h : b.WF = true) : b.mirror.WF = true := by
  have hp := AbsL.wf_partition b h
  have hc := AbsL.wf_castle b h
  have hp' : b.mirror.raw.partitionOk = true := partitionOk_mirror _ hp
  have hc' : b.mirror.castle < 16 := castle_mirror_lt _
  have hv : b.mirror.validate = .ok () := by
    rw [Proofs.Valid.validate_iff_valid _ hp' hc', abs_mirror' b hp hc, Position.valid_mirror]
    exact Proofs.Valid.wf_valid b h
  simp only [Board.WF, Bool.and_eq_true, beq_iff_eq, decide_eq_true_eq]
  refine ⟨⟨⟨⟨hp', ?_⟩, hc'⟩, mirror_pinInfoOk b⟩, by rw [mirror_zobrist, mirror_raw]⟩
  rw [hv]

theorem mirror_mirror' (b : Board) (h : b.WF = true) : b.mirror.mirror = b := by
  have hraw : b.mirror.mirror.raw = b.raw := by
    rw [mirror_raw, mirror_raw, raw_mirror_mirror]
  have hturn : b.mirror.mirror.turn = b.turn := by
    rw [mirror_turn', mirror_turn', Color.flip_flip]
  have hpin := Props.C03.pinInfo_determined b.mirror.mirror b hraw hturn (mirror_pinInfoOk _) (AbsL.wf_all b h).2.2.2.1
  apply board_ext
  · rw [mirror_zobrist, mirror_raw, raw_mirror_mirror, AbsL.wf_hash b h]
  · exact hturn
  · rw [mirror_castle, mirror_castle, castle_mirror_mirror _ (AbsL.wf_castle b h)]
  · rfl
  · rfl
  · rfl
  · exact hpin.1
  · exact hpin.2
  · exact hraw

theorem move_mirror_mirror (m : Move) : m.mirror.mirror = m := by
  obtain ⟨s, d, p⟩ := m
  simp only [Move.mirror, flipRank_flipRank]

theorem move_mirror_inj {m m' : Move} (h : m.mirror = m'.mirror) : m = m' := by
  have := congrArg Move.mirror h
  rwa [move_mirror_mirror, move_mirror_mirror] at this

theorem mvsOf_legals_eq (b : Board) (h : b.WF = true) : mvsOf (legals b) = b.legalsList :=
  (Proofs.IterMask.legalsList_eq b h).symm

theorem mem_mvsOf_legals (b : Board) (h : b.WF = true) (m : Move) :
    m ∈ mvsOf (legals b) ↔ (abs b).legal m = true := by
  rw [mvsOf_legals_eq b h]; exact Props.C01.legals_iff b h m

theorem nodup_mvsOf_legals (b : Board) (h : b.WF = true) : (mvsOf (legals b)).Nodup := by
  rw [mvsOf_legals_eq b h]; exact Props.C01.legals_nodup b h

theorem legal_mirror_iff (b : Board) (h : b.WF = true) (m : Move) :
    (abs b.mirror).legal m = (abs b).legal m.mirror := by
  rw [abs_mirror' b (AbsL.wf_partition b h) (AbsL.wf_castle b h)]
  have := Position.legal_mirror (abs b) m.mirror
  rw [move_mirror_mirror] at this
  exact this

theorem legals_mirror' (b : Board) (h : b.WF = true) :
    (mvsOf (legals b.mirror)).Perm ((mvsOf (legals b)).map Move.mirror) := by
  have h' := mirror_WF' b h
  apply (List.perm_ext_iff_of_nodup (nodup_mvsOf_legals _ h') ?_).2
  · intro m
    rw [mem_mvsOf_legals _ h', legal_mirror_iff b h, List.mem_map]
    constructor
    · intro hl
      exact ⟨m.mirror, (mem_mvsOf_legals b h _).2 hl, move_mirror_mirror m⟩
    · rintro ⟨m', hm', rfl⟩
      rw [move_mirror_mirror]
      exact (mem_mvsOf_legals b h _).1 hm'
  · exact List.Pairwise.map Move.mirror (fun _ _ hne he => hne (move_mirror_inj he)) (nodup_mvsOf_legals b h)

theorem allMoves_legals (b : Board) : Proofs.IterMask.allMoves (legals b) = mvsOf (legals b) := rfl

theorem captures_mirror' (b : Board) (h : b.WF = true) :
    (mvsOf ((legals b.mirror).setMask (b.mirror.raw.color b.mirror.turn.flip))).Perm
      ((mvsOf ((legals b).setMask (b.raw.color b.turn.flip))).map Move.mirror) := by
  have h1 := Proofs.IterMask.setMask_perm_filter (legals b.mirror) (b.mirror.raw.color b.mirror.turn.flip)
  have h2 := Proofs.IterMask.setMask_perm_filter (legals b) (b.raw.color b.turn.flip)
  rw [Props.C10.movesOf_eq, allMoves_legals] at h1 h2
  refine h1.trans (((legals_mirror' b h).filter _).trans ?_)
  rw [List.filter_map]
  refine List.Perm.trans ?_ (h2.map Move.mirror).symm
  have : ((fun x : Move => BB.mem (b.mirror.raw.color b.mirror.turn.flip) x.dest) ∘ Move.mirror) =
      (fun x : Move => BB.mem (b.raw.color b.turn.flip) x.dest) := by
    funext x
    show BB.mem (b.mirror.raw.color b.mirror.turn.flip) x.dest.flipRank = _
    rw [mirror_turn', mirror_raw, raw_mirror_color', mem_flip']
  rw [this]

theorem isEmpty_of_perm_map {l l' : List Move} (f : Move → Move) (h : l.Perm (l'.map f)) : l.isEmpty = l'.isEmpty := by
  have := h.length_eq
  rw [List.length_map] at this
  cases l <;> cases l' <;> simp_all

theorem isEmpty_mirror' (b : Board) (h : b.WF = true) : (legals b.mirror).isEmpty = (legals b).isEmpty := by
  rw [isEmpty_eq_mvsOf, isEmpty_eq_mvsOf]
  exact isEmpty_of_perm_map _ (legals_mirror' b h)

theorem captures_isEmpty_mirror' (b : Board) (h : b.WF = true) :
    ((legals b.mirror).setMask (b.mirror.raw.color b.mirror.turn.flip)).isEmpty =
      ((legals b).setMask (b.raw.color b.turn.flip)).isEmpty := by
  rw [isEmpty_eq_mvsOf, isEmpty_eq_mvsOf]
  exact isEmpty_of_perm_map _ (captures_mirror' b h)

theorem inCheck_mirror' (b : Board) (h : b.WF = true) : b.mirror.inCheck = b.inCheck := by
  rw [Props.C03.inCheck_iff _ (mirror_WF' b h), Props.C03.inCheck_iff b h,
    abs_mirror' b (AbsL.wf_partition b h) (AbsL.wf_castle b h), mirror_turn', Position.inCheck_mirror]

end Chess.Proofs.BoardSym
