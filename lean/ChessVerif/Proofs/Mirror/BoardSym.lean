/-
Layer B of the C13 argument: the colour mirror on model boards (`Board.mirror`, Spec/Mirror.lean)
commutes with everything the search reads.  Statements fixed; proofs below.
Layers A (`SpecSym`: the rules are mirror-symmetric) and V (`Valid`: validation = mailbox validity)
are imported; C01–C03 connect the model to the rules.
-/
import ChessVerif.Proofs.Mirror.SpecSym
import ChessVerif.Proofs.Mirror.Valid
import ChessVerif.Props.C01
import ChessVerif.Props.C02
import ChessVerif.Props.C03
import ChessVerif.Spec.ScoreNeg
import ChessVerif.Proofs.Iter
import ChessVerif.Proofs.Mirror.BSFull
import ChessVerif.Proofs.Mirror.BSWF
import ChessVerif.Proofs.Mirror.BSMove
import ChessVerif.Proofs.Mirror.BSEval

namespace Chess

/-- the board with its full-move counter erased (the search never reads it; a position and its
mirror image disagree on it after a move) -/
def Board.noFull (b : Board) : Board := { b with full := 0 }

namespace Proofs.BoardSym
open Chess Chess.Spec Chess.Engine Chess.MoveGen

/-! ### the mirrored board -/

theorem abs_mirror (b : Board) (hp : b.raw.partitionOk = true) (hc : b.castle < 16) :
    abs b.mirror = (abs b).mirror := by
  exact abs_mirror' b hp hc

theorem mirror_WF (b : Board) (h : b.WF = true) : b.mirror.WF = true := by
  exact mirror_WF' b h

theorem mirror_mirror (b : Board) (h : b.WF = true) : b.mirror.mirror = b := by
  exact mirror_mirror' b h

theorem mirror_turn (b : Board) : b.mirror.turn = b.turn.flip := by
  rfl

theorem mirror_half (b : Board) : b.mirror.half = b.half := by
  rfl

/-- the mirrored enemy-piece mask (the capture mask of the search) -/
theorem mirror_color (b : Board) (c : Color) : b.mirror.raw.color c.flip = BB.flipRanks (b.raw.color c) := by
  exact raw_mirror_color' b.raw c

/-! ### what the search reads -/

/-- the legal moves of the mirrored board are the mirrored legal moves (the order differs) -/
theorem legals_mirror (b : Board) (h : b.WF = true) :
    (mvsOf (legals b.mirror)).Perm ((mvsOf (legals b)).map Move.mirror) := by
  exact legals_mirror' b h

/-- the same under the capture mask of the side to move -/
theorem captures_mirror (b : Board) (h : b.WF = true) :
    (mvsOf ((legals b.mirror).setMask (b.mirror.raw.color b.mirror.turn.flip))).Perm
      ((mvsOf ((legals b).setMask (b.raw.color b.turn.flip))).map Move.mirror) := by
  exact captures_mirror' b h

theorem isEmpty_mirror (b : Board) (h : b.WF = true) : (legals b.mirror).isEmpty = (legals b).isEmpty := by
  exact isEmpty_mirror' b h

theorem captures_isEmpty_mirror (b : Board) (h : b.WF = true) :
    ((legals b.mirror).setMask (b.mirror.raw.color b.mirror.turn.flip)).isEmpty =
      ((legals b).setMask (b.raw.color b.turn.flip)).isEmpty := by
  exact captures_isEmpty_mirror' b h

theorem inCheck_mirror (b : Board) (h : b.WF = true) : b.mirror.inCheck = b.inCheck := by
  exact inCheck_mirror' b h

theorem insufficient_mirror (b : Board) : insufficientMaterial b.mirror = insufficientMaterial b := by
  unfold insufficientMaterial
  simp only [mirror_raw, RawBoard.mirror, ← flip_or, any_flip, count_flip]

/-- the static evaluation (of the shipped configuration, `positional = false`) is negated -/
theorem eval_mirror (b : Board) (h : b.WF = true) : eval false b.mirror = negScore (eval false b) := by
  exact eval_mirror' b h

/-- "was a capture" -/
theorem capture_mirror (b : Board) (m : Move) :
    (b.mirror.raw.get m.mirror.dest).isSome = (b.raw.get m.dest).isSome := by
  exact get_isSome_mirror b.raw m.dest

/-- the successor of the mirrored board by the mirrored move is the mirrored successor (up to the
full-move counter) -/
theorem move_mirror (b : Board) (h : b.WF = true) (m : Move) (hm : m ∈ mvsOf (legals b)) :
    (b.mirror.moveUnchecked m.mirror).noFull = (b.moveUnchecked m).mirror.noFull := by
  exact move_mirror' b h m hm

/-- board equality (the key of the repetition tables) is preserved -/
theorem beq_mirror (a b : Board) (ha : a.WF = true) (hb : b.WF = true) :
    Board.beq a.mirror b.mirror = Board.beq a b := by
  exact beq_mirror' a b (AbsL.wf_castle a ha) (AbsL.wf_castle b hb)

/-! ### nothing the search reads depends on the full-move counter -/

theorem noFull_WF (b : Board) : b.noFull.WF = b.WF := by
  rfl

theorem noFull_mirror (b : Board) : b.noFull.mirror = b.mirror.noFull := by
  exact setFull_mirror b 0

theorem noFull_legals (b : Board) : legals b.noFull = legals b := by
  rfl

theorem noFull_move (b : Board) (m : Move) : (b.noFull.moveUnchecked m).noFull = (b.moveUnchecked m).noFull := by
  show setFull ((setFull b 0).moveUnchecked m) 0 = setFull (b.moveUnchecked m) 0
  rw [move_setFull, setFull_setFull]

theorem noFull_eval (pos : Bool) (b : Board) : eval pos b.noFull = eval pos b := by
  rfl

theorem noFull_beq (a b : Board) : Board.beq a.noFull b = Board.beq a b ∧ Board.beq a b.noFull = Board.beq a b := by
  exact ⟨rfl, rfl⟩

end Proofs.BoardSym
end Chess
