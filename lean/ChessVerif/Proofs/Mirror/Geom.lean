/-
Geometry under the rank flip (helper file for `SpecSym.lean`): coordinates, `step`, `sqAt`,
sliding reach, the contact attacks, and the re-indexing of `List.finRange 64` by `Sq.flipRank`.
-/
import ChessVerif.Spec.Rules
import ChessVerif.Spec.Mirror
import ChessVerif.Proofs.Legal.RaysAux

namespace Chess.Proofs.MirrorGeom
open Chess Chess.Spec Chess.RaysAux Chess.Spec.Position

theorem flipRank_val (s : Sq) : s.flipRank.val = (7 - s.val / 8) * 8 + s.val % 8 := rfl

theorem fileI_flip (s : Sq) : fileI s.flipRank = fileI s := by
  unfold fileI; rw [flipRank_val]; omega

theorem rankI_flip (s : Sq) : rankI s.flipRank = 7 - rankI s := by
  unfold rankI; rw [flipRank_val]; have := s.isLt; omega

@[simp] theorem flip_flip (s : Sq) : s.flipRank.flipRank = s := by
  rw [sq_eq_iff, fileI_flip, fileI_flip, rankI_flip, rankI_flip]; omega

theorem flip_inj {s t : Sq} : s.flipRank = t.flipRank ↔ s = t := by
  constructor
  · intro h; have := congrArg Sq.flipRank h; simpa using this
  · intro h; rw [h]

theorem flip_eq_iff {s t : Sq} : s.flipRank = t ↔ s = t.flipRank := by
  constructor
  · intro h; rw [← h, flip_flip]
  · intro h; rw [h, flip_flip]

theorem file_flip (s : Sq) : s.flipRank.file = s.file := by
  apply Fin.ext
  show s.flipRank.val % 8 = s.val % 8
  rw [flipRank_val]; omega

theorem step_flip (s : Sq) (df dr : Int) :
    step s.flipRank df (-dr) = (step s df dr).map Sq.flipRank := by
  cases h : step s df dr with
  | none =>
    rw [step_eq_none] at h
    simp only [Option.map_none]
    rw [step_eq_none, fileI_flip, rankI_flip]
    omega
  | some t =>
    rw [step_eq_some] at h
    simp only [Option.map_some]
    rw [step_eq_some, fileI_flip, rankI_flip, fileI_flip, rankI_flip]
    omega

theorem step_flip' (s : Sq) (df dr : Int) :
    step s.flipRank df dr = (step s df (-dr)).map Sq.flipRank := by
  rw [← step_flip, Int.neg_neg]

theorem sqAt_eq_step (f r : Int) : sqAt f r = step (0 : Sq) f r := by
  have h1 : fileI (0 : Sq) = 0 := rfl
  have h2 : rankI (0 : Sq) = 0 := rfl
  simp only [sqAt, step, h1, h2, Int.zero_add]

theorem sqAt_eq_some (f r : Int) (t : Sq) : sqAt f r = some t ↔ (fileI t = f ∧ rankI t = r) := by
  rw [sqAt_eq_step, step_eq_some]
  have h1 : fileI (0 : Sq) = 0 := rfl
  have h2 : rankI (0 : Sq) = 0 := rfl
  rw [h1, h2]; omega

theorem sqAt_eq_none (f r : Int) : sqAt f r = none ↔ ¬ (0 ≤ f ∧ f < 8 ∧ 0 ≤ r ∧ r < 8) := by
  rw [sqAt_eq_step, step_eq_none]
  have h1 : fileI (0 : Sq) = 0 := rfl
  have h2 : rankI (0 : Sq) = 0 := rfl
  rw [h1, h2]; omega

theorem sqAt_flip (f r : Int) : sqAt f (7 - r) = (sqAt f r).map Sq.flipRank := by
  cases h : sqAt f r with
  | none =>
    rw [sqAt_eq_none] at h
    simp only [Option.map_none]
    rw [sqAt_eq_none]; omega
  | some t =>
    rw [sqAt_eq_some] at h
    simp only [Option.map_some]
    rw [sqAt_eq_some, fileI_flip, rankI_flip]; omega

theorem fwd_flip (c : Color) : fwd c.flip = - fwd c := by cases c <;> rfl
theorem homeRank_flip (c : Color) : homeRank c.flip = 7 - homeRank c := by cases c <;> rfl
theorem secondRank_flip (c : Color) : secondRank c.flip = 7 - secondRank c := by cases c <;> rfl
theorem seventhRank_flip (c : Color) : seventhRank c.flip = 7 - seventhRank c := by cases c <;> rfl
theorem epTargetRank_flip (c : Color) : epTargetRank c.flip = 7 - epTargetRank c := by cases c <;> rfl

theorem dF_flip (s t : Sq) : dF s.flipRank t.flipRank = dF s t := by
  unfold dF; rw [fileI_flip, fileI_flip]
theorem dR_flip (s t : Sq) : dR s.flipRank t.flipRank = - dR s t := by
  unfold dR; rw [rankI_flip, rankI_flip]; omega
theorem absI_neg (x : Int) : absI (-x) = absI x := by
  unfold absI; split <;> split <;> omega

theorem knightAtt_flip (s t : Sq) : knightAtt s.flipRank t.flipRank = knightAtt s t := by
  unfold knightAtt; rw [dF_flip, dR_flip, absI_neg]

theorem kingAtt_flip (s t : Sq) : kingAtt s.flipRank t.flipRank = kingAtt s t := by
  unfold kingAtt; rw [dF_flip, dR_flip, absI_neg]
  have : (s.flipRank != t.flipRank) = (s != t) := by
    by_cases h : s = t
    · subst h; simp
    · have h' : s.flipRank ≠ t.flipRank := fun e => h (flip_inj.mp e)
      rw [bne_iff_ne.mpr h, bne_iff_ne.mpr h']
  rw [this]

theorem pawnAtt_flip (c : Color) (s t : Sq) : pawnAtt c.flip s.flipRank t.flipRank = pawnAtt c s t := by
  unfold pawnAtt; rw [dF_flip, dR_flip, fwd_flip]
  congr 1
  rw [Bool.eq_iff_iff]; simp only [beq_iff_eq]; omega

/-! ### sliding -/

theorem slide_flip (occ : Sq → Bool) (df dr : Int) (n : Nat) (s : Sq) :
    slide (fun u => occ u.flipRank) df (-dr) n s.flipRank = (slide occ df dr n s).map Sq.flipRank := by
  induction n generalizing s with
  | zero => rfl
  | succ n ih =>
    unfold slide
    rw [step_flip]
    cases step s df dr with
    | none => rfl
    | some t =>
      simp only [Option.map_some, flip_flip]
      split
      · rfl
      · rw [ih]; rfl

theorem mem_map_flip (l : List Sq) (t : Sq) : t.flipRank ∈ l.map Sq.flipRank ↔ t ∈ l := by
  rw [List.mem_map]
  constructor
  · rintro ⟨a, ha, e⟩; rw [flip_inj.mp e] at ha; exact ha
  · intro h; exact ⟨t, h, rfl⟩

theorem mem_slide_flip (occ : Sq → Bool) (df dr : Int) (n : Nat) (s t : Sq) :
    t.flipRank ∈ slide (fun u => occ u.flipRank) df dr n s.flipRank ↔ t ∈ slide occ df (-dr) n s := by
  have := slide_flip occ df (-dr) n s
  rw [Int.neg_neg] at this
  rw [this, mem_map_flip]

theorem mem_rookReach_flip (occ : Sq → Bool) (s t : Sq) :
    t.flipRank ∈ rookReach (fun u => occ u.flipRank) s.flipRank ↔ t ∈ rookReach occ s := by
  simp only [rookReach, rookDirs, List.flatMap_cons, List.flatMap_nil, List.mem_append, mem_slide_flip,
    List.not_mem_nil, or_false, Int.neg_neg, Int.neg_zero]
  constructor
  · rintro (h | h | h | h) <;> simp [h]
  · rintro (h | h | h | h) <;> simp [h]

theorem mem_bishopReach_flip (occ : Sq → Bool) (s t : Sq) :
    t.flipRank ∈ bishopReach (fun u => occ u.flipRank) s.flipRank ↔ t ∈ bishopReach occ s := by
  simp only [bishopReach, bishopDirs, List.flatMap_cons, List.flatMap_nil, List.mem_append, mem_slide_flip,
    List.not_mem_nil, or_false, Int.neg_neg]
  constructor
  · rintro (h | h | h | h) <;> simp [h]
  · rintro (h | h | h | h) <;> simp [h]

theorem contains_rookReach_flip (occ : Sq → Bool) (s t : Sq) :
    (rookReach (fun u => occ u.flipRank) s.flipRank).contains t.flipRank = (rookReach occ s).contains t := by
  rw [Bool.eq_iff_iff, List.contains_iff_mem, List.contains_iff_mem, mem_rookReach_flip]

theorem contains_bishopReach_flip (occ : Sq → Bool) (s t : Sq) :
    (bishopReach (fun u => occ u.flipRank) s.flipRank).contains t.flipRank = (bishopReach occ s).contains t := by
  rw [Bool.eq_iff_iff, List.contains_iff_mem, List.contains_iff_mem, mem_bishopReach_flip]

/-! ### re-indexing the list of squares -/

theorem flip_injective : Function.Injective Sq.flipRank := fun _ _ h => flip_inj.mp h

theorem finRange_perm_flip : (List.finRange 64).Perm ((List.finRange 64).map Sq.flipRank) := by
  rw [List.perm_ext_iff_of_nodup (List.nodup_finRange 64)
    (List.Pairwise.map Sq.flipRank (fun a b (h : a ≠ b) => fun e => h (flip_inj.mp e)) (List.nodup_finRange 64))]
  intro a
  constructor
  · intro _; exact List.mem_map.mpr ⟨Sq.flipRank a, List.mem_finRange _, flip_flip a⟩
  · intro _; exact List.mem_finRange _

theorem any_flip (f : Sq → Bool) :
    (List.finRange 64).any f = (List.finRange 64).any (fun x : Sq => f x.flipRank) := by
  rw [finRange_perm_flip.any_eq, List.any_map]; rfl

theorem all_flip (f : Sq → Bool) :
    (List.finRange 64).all f = (List.finRange 64).all (fun x : Sq => f x.flipRank) := by
  rw [finRange_perm_flip.all_eq, List.all_map]; rfl

theorem filter_length_flip (f : Sq → Bool) :
    ((List.finRange 64).filter f).length = ((List.finRange 64).filter (fun x : Sq => f x.flipRank)).length := by
  rw [← List.countP_eq_length_filter, ← List.countP_eq_length_filter, finRange_perm_flip.countP_eq,
    List.countP_map]; rfl

end Chess.Proofs.MirrorGeom
