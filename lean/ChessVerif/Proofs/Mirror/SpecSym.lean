/-
Layer A of the C13 argument: the rules of chess (Spec/Rules.lean) are symmetric under the colour
mirror (swap the colours, flip the ranks).  Statements fixed; proofs below.
The geometry is in `Geom.lean`, the position-level lemmas in `SpecSymAux.lean`.
-/
import ChessVerif.Spec.Rules
import ChessVerif.Spec.Mirror
import ChessVerif.Proofs.Mirror.SpecSymAux

namespace Chess.Spec.Position
open Chess Chess.Spec

/-- equal except for the full-move counter (which advances after Black's moves, so a position and
its mirror image drift apart by one) -/
def EqButFull (p q : Position) : Prop :=
  p.pieceAt = q.pieceAt ∧ p.turn = q.turn ∧ (∀ sd c, p.rights sd c = q.rights sd c) ∧ p.ep = q.ep ∧ p.half = q.half

/-! ### `EqButFull` is an equivalence, and nothing but `full` itself reads the full-move counter -/

theorem eqButFull_eq {p q : Position} (h : EqButFull p q) : p = { q with full := p.full } := by
  obtain ⟨pa, tu, ri, ep, hh, ff⟩ := p
  obtain ⟨pa', tu', ri', ep', hh', ff'⟩ := q
  obtain ⟨h1, h2, h3, h4, h5⟩ := h
  simp only at h1 h2 h3 h4 h5
  have h3' : ri = ri' := funext fun sd => funext fun c => h3 sd c
  subst h1 h2 h3' h4 h5
  rfl

theorem EqButFull.refl (p : Position) : EqButFull p p := ⟨rfl, rfl, fun _ _ => rfl, rfl, rfl⟩
theorem EqButFull.symm {p q : Position} (h : EqButFull p q) : EqButFull q p :=
  ⟨h.1.symm, h.2.1.symm, fun sd c => (h.2.2.1 sd c).symm, h.2.2.2.1.symm, h.2.2.2.2.symm⟩
theorem EqButFull.trans {p q r : Position} (h : EqButFull p q) (h' : EqButFull q r) : EqButFull p r :=
  ⟨h.1.trans h'.1, h.2.1.trans h'.2.1, fun sd c => (h.2.2.1 sd c).trans (h'.2.2.1 sd c),
   h.2.2.2.1.trans h'.2.2.2.1, h.2.2.2.2.trans h'.2.2.2.2⟩

theorem pseudo_full (q : Position) (f : Nat) (m : Move) :
    ({ q with full := f } : Position).pseudo m = q.pseudo m := rfl

theorem applyKind_full (q : Position) (f : Nat) (m : Move) (k : Kind) :
    EqButFull (({ q with full := f } : Position).applyKind m k) (q.applyKind m k) :=
  ⟨rfl, rfl, fun _ _ => rfl, rfl, rfl⟩

theorem pseudo_congr {p q : Position} (h : EqButFull p q) (m : Move) : p.pseudo m = q.pseudo m := by
  rw [eqButFull_eq h]; exact pseudo_full q _ m

theorem applyKind_congr {p q : Position} (h : EqButFull p q) (m : Move) (k : Kind) :
    EqButFull (p.applyKind m k) (q.applyKind m k) := by
  rw [eqButFull_eq h]; exact applyKind_full q _ m k

/-! ### the mirror -/

theorem mirror_mirror (p : Position) : p.mirror.mirror = p := by
  obtain ⟨pa, tu, ri, ep, hh, ff⟩ := p
  unfold mirror
  simp only [Color.flip_flip, Proofs.MirrorGeom.flip_flip, Option.map_map]
  congr 1
  funext s
  cases pa s with
  | none => rfl
  | some cp => simp only [Option.map_some, Function.comp, Color.flip_flip]

theorem attacked_mirror (p : Position) (t : Sq) (c : Color) :
    p.mirror.attacked t.flipRank c.flip = p.attacked t c :=
  Proofs.MirrorGeom.attacked_mirror p t c

theorem inCheck_mirror (p : Position) (c : Color) : p.mirror.inCheck c.flip = p.inCheck c :=
  Proofs.MirrorGeom.inCheck_mirror p c

/-- pseudo-legality and the kind of a move are the same for the mirrored move in the mirrored position -/
theorem pseudo_mirror (p : Position) (m : Move) : p.mirror.pseudo m.mirror = p.pseudo m :=
  Proofs.MirrorGeom.pseudo_mirror p m

/-- the successor of the mirrored position by the mirrored move is the mirrored successor, except
for the full-move counter -/
theorem applyKind_mirror (p : Position) (m : Move) (k : Kind) :
    EqButFull (p.mirror.applyKind m.mirror k) (p.applyKind m k).mirror :=
  ⟨funext (Proofs.MirrorGeom.applyKind_mirror_pieceAt p m k),
   Proofs.MirrorGeom.applyKind_mirror_turn p m k,
   Proofs.MirrorGeom.applyKind_mirror_rights p m k,
   Proofs.MirrorGeom.applyKind_mirror_ep p m k,
   Proofs.MirrorGeom.applyKind_mirror_half p m k⟩

theorem legal_mirror (p : Position) (m : Move) : p.mirror.legal m.mirror = p.legal m :=
  Proofs.MirrorGeom.legal_mirror p m

theorem apply_mirror (p : Position) (m : Move) :
    EqButFull (p.mirror.apply m.mirror) (p.apply m).mirror := by
  unfold Position.apply
  rw [pseudo_mirror]
  cases p.pseudo m with
  | none => exact EqButFull.refl _
  | some k => exact applyKind_mirror p m k

/-- the legal moves of the mirrored position are the mirrored legal moves (the enumeration order differs) -/
theorem legalMoves_mirror (p : Position) :
    p.mirror.legalMoves.Perm (p.legalMoves.map Move.mirror) :=
  Proofs.MirrorGeom.legalMoves_mirror p

theorem legalMoves_mirror_isEmpty (p : Position) : p.mirror.legalMoves.isEmpty = p.legalMoves.isEmpty := by
  have h := (legalMoves_mirror p).length_eq
  rw [List.length_map] at h
  rw [Bool.eq_iff_iff, List.isEmpty_iff_length_eq_zero, List.isEmpty_iff_length_eq_zero, h]

/-- the validity clauses of C06 are colour-symmetric -/
theorem valid_mirror (p : Position) : p.mirror.valid = p.valid :=
  Proofs.MirrorGeom.valid_mirror p

/-- `legal`, `inCheck`, `valid` do not read the full-move counter, and `apply` respects `EqButFull` -/
theorem legal_congr (p q : Position) (h : EqButFull p q) (m : Move) : p.legal m = q.legal m := by
  unfold Position.legal
  rw [pseudo_congr h m]
  cases q.pseudo m with
  | none => rfl
  | some k =>
    simp only
    rw [Proofs.MirrorGeom.inCheck_pieceAt_congr (applyKind_congr h m k).1, h.2.1]

theorem inCheck_congr (p q : Position) (h : EqButFull p q) (c : Color) : p.inCheck c = q.inCheck c :=
  Proofs.MirrorGeom.inCheck_pieceAt_congr h.1 c

theorem apply_congr (p q : Position) (h : EqButFull p q) (m : Move) : EqButFull (p.apply m) (q.apply m) := by
  unfold Position.apply
  rw [pseudo_congr h m]
  cases q.pseudo m with
  | none => exact h
  | some k => exact applyKind_congr h m k

theorem valid_congr (p q : Position) (h : EqButFull p q) : p.valid = q.valid := by
  rw [eqButFull_eq h]; rfl

end Chess.Spec.Position
