/-
Position-level mirror lemmas (helper file for `SpecSym.lean`): attacks, check, castling clauses,
pseudo-legality.
-/
import ChessVerif.Proofs.Mirror.Geom

namespace Chess.Proofs.MirrorGeom
open Chess Chess.Spec Chess.RaysAux Chess.Spec.Position

/-- colour flip on a man -/
def fc (cp : Color × Piece) : Color × Piece := (cp.1.flip, cp.2)

theorem mirror_pieceAt (p : Position) (s : Sq) : p.mirror.pieceAt s = (p.pieceAt s.flipRank).map fc := rfl

theorem mirror_pieceAt_flip (p : Position) (s : Sq) :
    p.mirror.pieceAt s.flipRank = (p.pieceAt s).map fc := by
  rw [mirror_pieceAt, flip_flip]

theorem mirror_turn (p : Position) : p.mirror.turn = p.turn.flip := rfl

theorem mirror_occupied (p : Position) : p.mirror.occupied = fun u => p.occupied u.flipRank := by
  funext u
  simp only [occupied, mirror_pieceAt, Option.isSome_map]

theorem mirror_occupied_flip (p : Position) (s : Sq) : p.mirror.occupied s.flipRank = p.occupied s := by
  rw [mirror_occupied]; simp only [flip_flip]

theorem color_flip_beq (a b : Color) : (a.flip == b.flip) = (a == b) := by
  cases a <;> cases b <;> rfl

theorem color_flip_bne (a b : Color) : (a.flip != b.flip) = (a != b) := by
  cases a <;> cases b <;> rfl

theorem color_flip_beq' (a b : Color) : (a.flip == b) = (a == b.flip) := by
  cases a <;> cases b <;> rfl

theorem attacksFrom_mirror (p : Position) (x : Sq) (c : Color) (pc : Piece) (t : Sq) :
    p.mirror.attacksFrom x.flipRank c.flip pc t.flipRank = p.attacksFrom x c pc t := by
  unfold attacksFrom
  rw [mirror_occupied]
  cases pc <;>
    simp only [knightAtt_flip, kingAtt_flip, pawnAtt_flip, contains_rookReach_flip, contains_bishopReach_flip]

theorem map_fc_beq (o : Option (Color × Piece)) (c : Color) (pc : Piece) :
    (o.map fc == some (c.flip, pc)) = (o == some (c, pc)) := by
  cases o with
  | none => rfl
  | some cp =>
    obtain ⟨c', pc'⟩ := cp
    cases c' <;> cases c <;> cases pc' <;> cases pc <;> rfl

theorem map_fc_beq' (o : Option (Color × Piece)) (c : Color) (pc : Piece) :
    (o.map fc == some (c, pc)) = (o == some (c.flip, pc)) := by
  rw [← map_fc_beq o c.flip pc, Color.flip_flip]

theorem attacked_mirror (p : Position) (t : Sq) (c : Color) :
    p.mirror.attacked t.flipRank c.flip = p.attacked t c := by
  unfold attacked
  rw [any_flip]
  congr 1
  funext x
  rw [mirror_pieceAt_flip]
  cases p.pieceAt x with
  | none => rfl
  | some cp =>
    obtain ⟨c', pc⟩ := cp
    simp only [Option.map_some, fc, color_flip_beq, attacksFrom_mirror]

theorem inCheck_eq_any (p : Position) (c : Color) :
    p.inCheck c = (List.finRange 64).any fun x => p.pieceAt x == some (c, .king) && p.attacked x c.flip := by
  unfold inCheck kings
  rw [List.any_filter]

theorem inCheck_mirror (p : Position) (c : Color) : p.mirror.inCheck c.flip = p.inCheck c := by
  rw [inCheck_eq_any, inCheck_eq_any, any_flip]
  congr 1
  funext x
  rw [mirror_pieceAt_flip, map_fc_beq, attacked_mirror]

theorem kings_length_mirror (p : Position) (c : Color) :
    (p.mirror.kings c.flip).length = (p.kings c).length := by
  unfold kings
  rw [filter_length_flip]
  congr 2
  funext x
  rw [mirror_pieceAt_flip, map_fc_beq]

theorem some_flip_beq_map (s : Sq) (o : Option Sq) :
    (some s.flipRank == o.map Sq.flipRank) = (some s == o) := by
  cases o with
  | none => rfl
  | some t =>
    simp only [Option.map_some]
    by_cases h : s = t
    · subst h; simp
    · have h' : s.flipRank ≠ t.flipRank := fun e => h (flip_inj.mp e)
      have e1 : (some s == some t) = false := by simp [h]
      have e2 : (some s.flipRank == some t.flipRank) = false := by simp [h']
      rw [e1, e2]

theorem some_beq_map_flip (s : Sq) (o : Option Sq) :
    (some s == o.map Sq.flipRank) = (some s.flipRank == o) := by
  rw [← some_flip_beq_map s.flipRank o, flip_flip]

theorem sqAt_home_flip (f : Int) (c : Color) :
    sqAt f (homeRank c.flip) = (sqAt f (homeRank c)).map Sq.flipRank := by
  rw [homeRank_flip, sqAt_flip]

theorem kingHome_flip (c : Color) : kingHome c.flip = (kingHome c).map Sq.flipRank := sqAt_home_flip _ _
theorem rookHome_flip (sd : Side) (c : Color) : rookHome sd c.flip = (rookHome sd c).map Sq.flipRank :=
  sqAt_home_flip _ _

theorem mirror_source (m : Move) : m.mirror.source = m.source.flipRank := rfl
theorem mirror_dest (m : Move) : m.mirror.dest = m.dest.flipRank := rfl
theorem mirror_piece (m : Move) : m.mirror.piece = m.piece := rfl

theorem castleSide_mirror (p : Position) (m : Move) : p.mirror.castleSide m.mirror = p.castleSide m := by
  unfold castleSide
  simp only [mirror_source, mirror_dest, mirror_turn, mirror_pieceAt_flip, map_fc_beq, kingHome_flip,
    sqAt_home_flip, some_flip_beq_map]

theorem mirror_rights_flip (p : Position) (sd : Side) (c : Color) : p.mirror.rights sd c.flip = p.rights sd c := by
  show p.rights sd c.flip.flip = _
  rw [Color.flip_flip]

theorem castleOk_mirror (p : Position) (sd : Side) : p.mirror.castleOk sd = p.castleOk sd := by
  unfold castleOk
  simp only [mirror_turn, sqAt_home_flip, mirror_rights_flip, inCheck_mirror]
  cases sd
  · simp only [List.all_cons, List.all_nil]
    cases sqAt 5 (homeRank p.turn) <;> cases sqAt 6 (homeRank p.turn) <;>
      simp only [Option.map_some, Option.map_none, mirror_occupied_flip, attacked_mirror]
  · simp only [List.all_cons, List.all_nil]
    cases sqAt 1 (homeRank p.turn) <;> cases sqAt 2 (homeRank p.turn) <;> cases sqAt 3 (homeRank p.turn) <;>
      simp only [Option.map_some, Option.map_none, mirror_occupied_flip, attacked_mirror]

theorem epSquare_mirror (p : Position) : p.mirror.epSquare = p.epSquare.map Sq.flipRank := by
  unfold epSquare
  have : p.mirror.ep = p.ep := rfl
  rw [this, mirror_turn]
  cases p.ep with
  | none => rfl
  | some f => simp only [epTargetRank_flip, sqAt_flip]

theorem sub7_beq (a b : Int) : ((7 - a) == (7 - b)) = (a == b) := by
  rw [Bool.eq_iff_iff]; simp only [beq_iff_eq]; omega

theorem pseudo_mirror (p : Position) (m : Move) : p.mirror.pseudo m.mirror = p.pseudo m := by
  unfold pseudo
  simp only [mirror_source, mirror_dest, mirror_piece, mirror_pieceAt_flip, mirror_turn]
  cases p.pieceAt m.source with
  | none => rfl
  | some cp =>
    obtain ⟨c, pc⟩ := cp
    simp only [Option.map_some, fc, color_flip_bne, rankI_flip, fileI_flip, seventhRank_flip, secondRank_flip,
      fwd_flip, Int.mul_neg, step_flip, sqAt_flip, mirror_occupied_flip, pawnAtt_flip, kingAtt_flip,
      castleSide_mirror, castleOk_mirror, attacksFrom_mirror, epSquare_mirror, some_flip_beq_map, sub7_beq,
      Color.flip_flip]
    cases p.pieceAt m.dest <;> cases step m.source 0 (fwd c) <;>
      cases sqAt (fileI m.dest) (rankI m.source) <;>
      simp only [Option.map_some, Option.map_none, mirror_occupied_flip, mirror_pieceAt_flip, map_fc_beq', fc,
        color_flip_bne]

theorem flip_beq (s t : Sq) : (s.flipRank == t.flipRank) = (s == t) := by
  by_cases h : s = t
  · subst h; simp
  · have h' : s.flipRank ≠ t.flipRank := fun e => h (flip_inj.mp e)
    rw [beq_eq_false_iff_ne.mpr h, beq_eq_false_iff_ne.mpr h']

theorem applyKind_mirror_turn (p : Position) (m : Move) (k : Kind) :
    (p.mirror.applyKind m.mirror k).turn = (p.applyKind m k).mirror.turn := rfl

theorem applyKind_mirror_ep (p : Position) (m : Move) (k : Kind) :
    (p.mirror.applyKind m.mirror k).ep = (p.applyKind m k).mirror.ep := by
  show (if k == .double then some m.mirror.dest.file else none) = (if k == .double then some m.dest.file else none)
  rw [mirror_dest, file_flip]

theorem applyKind_mirror_half (p : Position) (m : Move) (k : Kind) :
    (p.mirror.applyKind m.mirror k).half = (p.applyKind m k).mirror.half := by
  show (p.mirror.applyKind m.mirror k).half = (p.applyKind m k).half
  unfold applyKind
  have hh : p.mirror.half = p.half := rfl
  simp only [mirror_source, mirror_dest, mirror_pieceAt_flip, mirror_occupied_flip, hh]
  cases p.pieceAt m.source with
  | none => rfl
  | some cp =>
    obtain ⟨c, pc⟩ := cp
    cases pc <;> rfl

theorem applyKind_mirror_rights (p : Position) (m : Move) (k : Kind) (sd : Side) (col : Color) :
    (p.mirror.applyKind m.mirror k).rights sd col = (p.applyKind m k).mirror.rights sd col := by
  show (p.mirror.applyKind m.mirror k).rights sd col = (p.applyKind m k).rights sd col.flip
  have : col = col.flip.flip := (Color.flip_flip col).symm
  rw [this]
  generalize col.flip = d
  unfold applyKind
  simp only [mirror_source, mirror_dest, mirror_turn, Color.flip_flip, mirror_rights_flip, color_flip_beq,
    kingHome_flip, rookHome_flip, some_flip_beq_map]

theorem applyKind_mirror_pieceAt (p : Position) (m : Move) (k : Kind) (s : Sq) :
    (p.mirror.applyKind m.mirror k).pieceAt s = (p.applyKind m k).mirror.pieceAt s := by
  rw [mirror_pieceAt]
  have : s = s.flipRank.flipRank := (flip_flip s).symm
  rw [this]
  generalize s.flipRank = t
  unfold applyKind
  simp only [mirror_source, mirror_dest, mirror_piece, mirror_turn, flip_flip, flip_beq, fileI_flip, rankI_flip,
    sqAt_flip, sqAt_home_flip, rookHome_flip, mirror_pieceAt_flip, apply_ite (Option.map fc), Option.map_none,
    Option.map_some]
  have hn : ∀ x : Sq, (some x == (none : Option Sq)) = false := fun _ => rfl
  have k1 : (Kind.normal == Kind.enPassant) = false := rfl
  have k2 : (Kind.double == Kind.enPassant) = false := rfl
  have k3 : ∀ sd, (Kind.castle sd == Kind.enPassant) = false := fun sd => by cases sd <;> rfl
  have k4 : (Kind.enPassant == Kind.enPassant) = true := rfl
  cases p.pieceAt m.source <;> cases m.piece <;>
    (cases k with
     | castle sd => cases sd <;> simp only [some_flip_beq_map, Option.map_some, Option.map_none, fc, hn, k3,
          Bool.false_eq_true, if_false]
     | _ => simp only [some_flip_beq_map, Option.map_some, Option.map_none, fc, if_true, if_false, hn, k1, k2, k4,
              Bool.false_eq_true])

theorem inCheck_pieceAt_congr {p q : Position} (h : p.pieceAt = q.pieceAt) (c : Color) :
    p.inCheck c = q.inCheck c := by
  obtain ⟨pa, tu, ri, ep, hh, ff⟩ := p
  obtain ⟨pa', tu', ri', ep', hh', ff'⟩ := q
  simp only at h
  subst h
  rfl

theorem legal_mirror (p : Position) (m : Move) : p.mirror.legal m.mirror = p.legal m := by
  unfold legal
  rw [pseudo_mirror]
  cases p.pseudo m with
  | none => rfl
  | some k =>
    simp only
    rw [mirror_turn, inCheck_pieceAt_congr (funext (applyKind_mirror_pieceAt p m k)), inCheck_mirror]

theorem perm_flatMap_left {α β : Type} (l : List α) (f g : α → List β) (h : ∀ a ∈ l, (f a).Perm (g a)) :
    (l.flatMap f).Perm (l.flatMap g) := by
  induction l with
  | nil => exact .refl _
  | cons a l ih =>
    simp only [List.flatMap_cons]
    exact (h a (by simp)).append (ih fun b hb => h b (by simp [hb]))

theorem legalMoves_mirror (p : Position) :
    p.mirror.legalMoves.Perm (p.legalMoves.map Move.mirror) := by
  unfold legalMoves
  rw [List.map_flatMap]
  refine (finRange_perm_flip.flatMap_right _).trans ?_
  rw [List.flatMap_map]
  apply perm_flatMap_left
  intro s _
  simp only [mirror_pieceAt_flip, mirror_turn]
  cases p.pieceAt s with
  | none => exact .refl _
  | some cp =>
    obtain ⟨c, pc⟩ := cp
    simp only [Option.map_some, fc, color_flip_beq]
    split
    · rw [List.map_flatMap]
      refine (finRange_perm_flip.flatMap_right _).trans ?_
      rw [List.flatMap_map]
      apply perm_flatMap_left
      intro d _
      rw [List.map_filterMap]
      apply List.Perm.of_eq
      congr 1
      funext pr
      have : (⟨s.flipRank, d.flipRank, pr⟩ : Move) = (⟨s, d, pr⟩ : Move).mirror := rfl
      rw [this, legal_mirror]
      split <;> rfl
    · exact .refl _

theorem mirror_colorAt_flip (p : Position) (s : Sq) : p.mirror.colorAt s.flipRank = (p.colorAt s).map Color.flip := by
  unfold colorAt
  rw [mirror_pieceAt_flip]
  cases p.pieceAt s <;> rfl

theorem men_length_mirror (p : Position) (c : Color) :
    ((List.finRange 64).filter (fun s => p.mirror.colorAt s == some c.flip)).length =
    ((List.finRange 64).filter (fun s => p.colorAt s == some c)).length := by
  rw [filter_length_flip]
  congr 2
  funext x
  rw [mirror_colorAt_flip]
  cases p.colorAt x with
  | none => rfl
  | some c' => cases c' <;> cases c <;> rfl

theorem valid_mirror (p : Position) : p.mirror.valid = p.valid := by
  unfold valid
  have hk1 := kings_length_mirror p .white
  have hk2 := kings_length_mirror p .black
  have hm1 := men_length_mirror p .white
  have hm2 := men_length_mirror p .black
  have hc := inCheck_mirror p p.turn.flip
  simp only [Color.flip] at hk1 hk2 hm1 hm2
  rw [hk1, hk2, hm1, hm2, mirror_turn, hc]
  have hep : p.mirror.ep = p.ep := rfl
  rw [hep]
  congr 1
  · congr 1
    · congr 1
      generalize ((p.kings Color.black).length == 1) = a
      generalize ((p.kings Color.white).length == 1) = b
      generalize decide ((List.filter (fun s => p.colorAt s == some Color.black) (List.finRange 64)).length ≤ 16) = c
      generalize decide ((List.filter (fun s => p.colorAt s == some Color.white) (List.finRange 64)).length ≤ 16) = d
      cases a <;> cases b <;> cases c <;> cases d <;> rfl
    · have e1 : kingHome .white = some 4 := rfl
      have e2 : kingHome .black = some 60 := rfl
      have e3 : rookHome .king .white = some 7 := rfl
      have e4 : rookHome .queen .white = some 0 := rfl
      have e5 : rookHome .king .black = some 63 := rfl
      have e6 : rookHome .queen .black = some 56 := rfl
      have f1 : (4 : Sq) = (60 : Sq).flipRank := rfl
      have f2 : (60 : Sq) = (4 : Sq).flipRank := rfl
      have f3 : (7 : Sq) = (63 : Sq).flipRank := rfl
      have f4 : (0 : Sq) = (56 : Sq).flipRank := rfl
      have f5 : (63 : Sq) = (7 : Sq).flipRank := rfl
      have f6 : (56 : Sq) = (0 : Sq).flipRank := rfl
      have r1 : ∀ sd, p.mirror.rights sd .white = p.rights sd .black := fun _ => rfl
      have r2 : ∀ sd, p.mirror.rights sd .black = p.rights sd .white := fun _ => rfl
      simp only [List.all_cons, List.all_nil, Bool.and_true, e1, e2, e3, e4, e5, e6, r1, r2]
      rw [f1, f2, f3, f4, f5, f6]
      simp only [mirror_pieceAt_flip, map_fc_beq', Color.flip]
      simp only [flip_flip]
      exact Bool.and_comm _ _
  · cases p.ep with
    | none => rfl
    | some f =>
      have h : ∀ a b : Int, 7 - a - -b = 7 - (a - b) := by intro a b; omega
      simp only [epTargetRank_flip, fwd_flip, h, sqAt_flip]
      cases sqAt f.val (epTargetRank p.turn) <;> cases sqAt f.val (epTargetRank p.turn - fwd p.turn) <;>
        simp only [Option.map_some, Option.map_none, mirror_occupied_flip, mirror_pieceAt_flip, map_fc_beq',
          Color.flip_flip]

end Chess.Proofs.MirrorGeom
