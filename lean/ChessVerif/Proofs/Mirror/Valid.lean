/-
Layer V of the C13 argument (and the soundness half of C06): the bitboard validation of the model
(`Board.validate`, the model of `Board::validate`) accepts exactly the positions that satisfy the
validity clauses stated on the mailbox (`Spec.Position.valid`).  Statements fixed; proofs below.
-/
import ChessVerif.Spec.WF
import ChessVerif.Proofs.Legal.MoveValid

namespace Chess.Proofs.Valid
open Chess Chess.Spec Chess.Legal

/-! ### the shape of `validate` -/

theorem validate_ok_iff (b : Board) :
    b.validate = .ok () ↔
      b.raw.hasKings = true ∧ BB.count b.raw.white ≤ 16 ∧ BB.count b.raw.black ≤ 16 ∧
        b.validateEnPassant = .ok () ∧ b.validateCastleRights = .ok () ∧
        b.validateOpponentNotInCheck = .ok () := by
  unfold Board.validate
  cases hk : b.raw.hasKings
  · simp
  · by_cases hw : BB.count b.raw.white > 16
    · have : ¬ BB.count b.raw.white ≤ 16 := by omega
      simp [hw, this]
    · by_cases hb : BB.count b.raw.black > 16
      · have : ¬ BB.count b.raw.black ≤ 16 := by omega
        simp [hb, this]
      · have hw' : BB.count b.raw.white ≤ 16 := by omega
        have hb' : BB.count b.raw.black ≤ 16 := by omega
        rcases he : b.validateEnPassant with e | ⟨⟨⟩⟩
        · simp [hw, hb]
        · rcases hcr : b.validateCastleRights with e | ⟨⟨⟩⟩
          · simp [hw, hb]
          · simp [hw, hb, hw', hb']

/-! ### kings -/

theorem count_king_split (b : Board) (hp : b.raw.partitionOk = true) :
    BB.count (b.raw.king &&& b.raw.white) + BB.count (b.raw.king &&& b.raw.black) = BB.count b.raw.king := by
  simp only [Entries.count_eq_countP]
  apply Entries.countP_add_of_pointwise
  intro s
  simp only [BB.mem_and']
  have e1 := AbsL.mem_piece b hp s .king
  have e2 := AbsL.mem_color b hp s .white
  have e3 := AbsL.mem_color b hp s .black
  rw [show b.raw.piece .king = b.raw.king from rfl] at e1
  rw [show b.raw.color .white = b.raw.white from rfl] at e2
  rw [show b.raw.color .black = b.raw.black from rfl] at e3
  rw [e1, e2, e3, Position.colorAt]
  rcases (abs b).pieceAt s with _ | ⟨c', p'⟩
  · rfl
  · cases c' <;> cases p' <;> rfl

theorem hasKings_iff (b : Board) (hp : b.raw.partitionOk = true) :
    b.raw.hasKings = true ↔ ((abs b).kings .white).length = 1 ∧ ((abs b).kings .black).length = 1 := by
  have h1 := count_king_color b hp .white
  have h2 := count_king_color b hp .black
  have h3 := count_king_split b hp
  change BB.count (b.raw.king &&& b.raw.white) = _ at h1
  change BB.count (b.raw.king &&& b.raw.black) = _ at h2
  unfold RawBoard.hasKings
  simp only [Bool.and_eq_true, beq_iff_eq]
  omega

/-! ### men -/

theorem count_color_filter (b : Board) (hp : b.raw.partitionOk = true) (c : Color) :
    BB.count (b.raw.color c) =
      ((List.finRange 64).filter (fun s => (abs b).colorAt s == some c)).length := by
  rw [count_color b hp c, List.countP_eq_length_filter]

/-! ### en passant -/

theorem sqAt_target (f : File) (c : Color) :
    Position.sqAt f.val (Position.epTargetRank c) = some (Sq.mk f c.epCaptureRank) := by
  revert f; cases c <;> decide

theorem sqAt_victim (f : File) (c : Color) :
    Position.sqAt f.val (Position.epTargetRank c - fwd c) = some (Sq.mk f c.epPawnRank) := by
  revert f; cases c <;> decide

theorem validateEp_iff (b : Board) (hp : b.raw.partitionOk = true) :
    b.validateEnPassant = .ok () ↔
      (match (abs b).ep with
       | none => true
       | some f =>
         (match Position.sqAt f.val (Position.epTargetRank (abs b).turn) with
          | some t => !(abs b).occupied t | none => false) &&
         (match Position.sqAt f.val (Position.epTargetRank (abs b).turn - fwd (abs b).turn) with
          | some v => (abs b).pieceAt v == some ((abs b).turn.flip, .pawn)
          | none => false)) = true := by
  unfold Board.validateEnPassant
  show _ ↔ (match b.ep with | none => true | some f => _) = true
  cases hep : b.ep with
  | none => simp
  | some f =>
    show _ ↔ ((match Position.sqAt f.val (Position.epTargetRank b.turn) with
          | some t => !(abs b).occupied t | none => false) &&
         (match Position.sqAt f.val (Position.epTargetRank b.turn - fwd b.turn) with
          | some v => (abs b).pieceAt v == some (b.turn.flip, .pawn)
          | none => false)) = true
    rw [sqAt_target, sqAt_victim]
    simp only [AbsL.get_eq b hp, Position.occupied]
    rcases h1 : (abs b).pieceAt (Sq.mk f b.turn.epCaptureRank) with _ | x
    · rcases h2 : (abs b).pieceAt (Sq.mk f b.turn.epPawnRank) with _ | ⟨c, p⟩
      · simp
      · cases hc : b.turn <;> cases c <;> cases p <;> simp [Color.flip]
    · simp

/-! ### castling rights -/

theorem validateCastle_iff (b : Board) (hp : b.raw.partitionOk = true) :
    b.validateCastleRights = .ok () ↔
      ([Color.white, Color.black].all (fun c => [Side.king, Side.queen].all (fun sd =>
        !(abs b).rights sd c ||
          ((match Position.kingHome c with | some k => (abs b).pieceAt k == some (c, .king) | none => false) &&
           (match Position.rookHome sd c with | some r => (abs b).pieceAt r == some (c, .rook) | none => false))))) = true := by
  have key : ∀ sd c, (!(abs b).rights sd c ||
          ((match Position.kingHome c with | some k => (abs b).pieceAt k == some (c, .king) | none => false) &&
           (match Position.rookHome sd c with | some r => (abs b).pieceAt r == some (c, .rook) | none => false))) = true ↔
      (Castle.contains b.castle sd c = true →
        b.raw.get (King.kHome c) = some (c, .king) ∧ b.raw.get (King.rHome sd c) = some (c, .rook)) := by
    intro sd c
    rw [King.kingHome_eq, King.rookHome_eq, AbsL.get_eq b hp, AbsL.get_eq b hp]
    show (!Castle.contains b.castle sd c || _) = true ↔ _
    cases Castle.contains b.castle sd c <;> simp
  constructor
  · intro hv
    simp only [List.all_cons, List.all_nil, Bool.and_true, Bool.and_eq_true, key]
    exact ⟨⟨King.castle_squares b hv _ _, King.castle_squares b hv _ _⟩,
      ⟨King.castle_squares b hv _ _, King.castle_squares b hv _ _⟩⟩
  · intro h
    simp only [List.all_cons, List.all_nil, Bool.and_true, Bool.and_eq_true, key] at h
    apply validateCastle_of
    intro sd col
    cases sd <;> cases col
    · exact h.1.1
    · exact h.2.1
    · exact h.1.2
    · exact h.2.2

/-! ### the side not to move is not in check -/

theorem validateOpp_iff' (b : Board) (hp : b.raw.partitionOk = true) (hk : b.raw.hasKings = true) :
    b.validateOpponentNotInCheck = .ok () ↔ (abs b).inCheck (abs b).turn.flip = false := by
  show _ ↔ (abs b).inCheck b.turn.flip = false
  rw [validateOpp_iff b hp hk, inCheck_single _ _ _ (AbsL.kings_eq b hp hk b.turn.flip), Color.flip_flip]

set_option linter.unusedVariables false in
/-- for a consistent piece placement with a 4-bit rights field, validation succeeds iff the mailbox
position is valid: one king per colour, at most 16 men per colour, e.p. marker only on an empty
square behind an enemy pawn that could just have made a double step, rights only with king and rook
at home, side not to move not in check -/
theorem validate_iff_valid (b : Board) (hp : b.raw.partitionOk = true) (hc : b.castle < 16) :
    b.validate = .ok () ↔ (abs b).valid = true := by
  rw [validate_ok_iff]
  unfold Position.valid
  simp only [Bool.and_eq_true, beq_iff_eq, decide_eq_true_eq, Bool.not_eq_true']
  rw [← count_color_filter b hp, ← count_color_filter b hp, ← hasKings_iff b hp]
  constructor
  · rintro ⟨h1, h2, h3, h4, h5, h6⟩
    exact ⟨⟨⟨⟨⟨h1, h2⟩, h3⟩, (validateOpp_iff' b hp h1).1 h6⟩, (validateCastle_iff b hp).1 h5⟩,
      (validateEp_iff b hp).1 h4⟩
  · rintro ⟨⟨⟨⟨⟨h1, h2⟩, h3⟩, h6⟩, h5⟩, h4⟩
    exact ⟨h1, h2, h3, (validateEp_iff b hp).2 h4, (validateCastle_iff b hp).2 h5,
      (validateOpp_iff' b hp h1).2 h6⟩

/-- every well-formed board is a valid position -/
theorem wf_valid (b : Board) (h : b.WF = true) : (abs b).valid = true := by
  exact (validate_iff_valid b (AbsL.wf_partition b h) (AbsL.wf_castle b h)).1 (AbsL.wf_validate b h)

end Chess.Proofs.Valid
