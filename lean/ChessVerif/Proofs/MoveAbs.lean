/- Helper lemmas for C02 (make-move vs the rules' successor). -/
import ChessVerif.Model.MoveGen
import ChessVerif.Spec.WF
import ChessVerif.Proofs.BB

namespace Chess
open Chess.Spec

namespace Board

/-! ### `moveUnchecked` in three phases, and what each phase does to each field -/

@[simp] theorem xorPieces_turn (b : Board) c p d : (b.xorPieces c p d).turn = b.turn := rfl
@[simp] theorem xorPieces_castle (b : Board) c p d : (b.xorPieces c p d).castle = b.castle := rfl
@[simp] theorem xorPieces_ep (b : Board) c p d : (b.xorPieces c p d).ep = b.ep := rfl
@[simp] theorem xorPieces_half (b : Board) c p d : (b.xorPieces c p d).half = b.half := rfl
@[simp] theorem xorPieces_full (b : Board) c p d : (b.xorPieces c p d).full = b.full := rfl
@[simp] theorem xorPieces_pinned (b : Board) c p d : (b.xorPieces c p d).pinned = b.pinned := rfl
@[simp] theorem xorPieces_checkers (b : Board) c p d : (b.xorPieces c p d).checkers = b.checkers := rfl
@[simp] theorem xorPieces_raw (b : Board) c p d : (b.xorPieces c p d).raw = b.raw.xor c p d := rfl

/-- first phase of `moveUnchecked`: mover xor, capture xor, clocks, rights -/
def mvBase (b : Board) (mv : Move) : Board :=
  let turn := b.turn
  let out : Board := { b with ep := none, checkers := 0#64, pinned := 0#64, turn := turn.flip }
  let out := out.xorPieces turn (b.raw.pieceOfUnchecked mv.source) (BB.ofSq mv.source ^^^ BB.ofSq mv.dest)
  let out := match b.raw.pieceOf mv.dest with
    | some cap => { out.xorPieces turn.flip cap (BB.ofSq mv.dest) with half := 0 }
    | none => { out with half := satAdd16 out.half 1 }
  let out := { out with full := satAdd16 out.full turn.idx }
  { out with castle := Castle.removeForSq (Castle.removeForSq out.castle turn.flip mv.dest) turn mv.source }

/-- second phase: the piece-specific branch -/
def mvSpecial (b : Board) (mv : Move) (out : Board) : Board :=
  let turn := b.turn
  let destBB := BB.ofSq mv.dest
  let mvBB := BB.ofSq mv.source ^^^ destBB
  let piece := b.raw.pieceOfUnchecked mv.source
  let oppKing := b.kingSq turn.flip
  let castles := piece == .king && (mvBB &&& Gen.Consts.castleMoves) == mvBB
    if piece == .knight then
      { out with checkers := out.checkers ^^^ (Lookup.knightMoves oppKing &&& destBB) }
    else if piece == .pawn then
      let out := { out with half := 0 }
      let out := match mv.piece with
        | some promo =>
          let out := if promo == .knight then
              { out with checkers := out.checkers ^^^ (Lookup.knightMoves oppKing &&& destBB) } else out
          (out.xorPieces turn .pawn destBB).xorPieces turn promo.toPiece destBB
        | none =>
          if (mvBB &&& Lookup.pawnDoubleMove turn) == mvBB then { out with ep := some mv.dest.file }
          else if some mv.dest == b.epPos then
            out.xorPieces turn.flip .pawn (BB.ofSq (Sq.mk mv.dest.file turn.epPawnRank))
          else out
      if mv.piece.isNone then
        { out with checkers := out.checkers ^^^ (Lookup.pawnAttacksMoves oppKing turn.flip &&& destBB) }
      else out
    else if castles then
      let rookMv := Lookup.backrankBB turn &&&
        (match Sq.fileSide mv.dest.file with
         | .king => Gen.Consts.rookCastleKingside
         | .queen => Gen.Consts.rookCastleQueenside)
      out.xorPieces turn .rook rookMv
    else out

/-- third phase: slider scan; only `pinned` and `checkers` change -/
def mvScan (turn : Color) (oppKing : Sq) (out : Board) : Board :=
  let pieces := out.raw.color turn
  let bishops := out.raw.bishop ||| out.raw.queen
  let rooks := out.raw.rook ||| out.raw.queen
  let attackers := (bishops &&& pieces &&& Lookup.bishopRays oppKing) ||| (rooks &&& pieces &&& Lookup.rookRays oppKing)
  let pc := scanSliders out.raw.all oppKing (BB.toList attackers) out.pinned out.checkers true
  { out with pinned := pc.1, checkers := pc.2 }

theorem moveUnchecked_eq (b : Board) (mv : Move) :
    b.moveUnchecked mv = mvScan b.turn (b.kingSq b.turn.flip) (mvSpecial b mv (mvBase b mv)) := rfl

@[simp] theorem mvScan_turn t k (o : Board) : (mvScan t k o).turn = o.turn := rfl
@[simp] theorem mvScan_castle t k (o : Board) : (mvScan t k o).castle = o.castle := rfl
@[simp] theorem mvScan_ep t k (o : Board) : (mvScan t k o).ep = o.ep := rfl
@[simp] theorem mvScan_half t k (o : Board) : (mvScan t k o).half = o.half := rfl
@[simp] theorem mvScan_full t k (o : Board) : (mvScan t k o).full = o.full := rfl
@[simp] theorem mvScan_raw t k (o : Board) : (mvScan t k o).raw = o.raw := rfl

theorem mvSpecial_turn (b : Board) (mv : Move) (o : Board) : (mvSpecial b mv o).turn = o.turn := by
  unfold mvSpecial
  simp only []
  repeat' split
  all_goals rfl

theorem mvSpecial_castle (b : Board) (mv : Move) (o : Board) : (mvSpecial b mv o).castle = o.castle := by
  unfold mvSpecial
  simp only []
  repeat' split
  all_goals rfl

theorem mvSpecial_full (b : Board) (mv : Move) (o : Board) : (mvSpecial b mv o).full = o.full := by
  unfold mvSpecial
  simp only []
  repeat' split
  all_goals rfl

theorem mvSpecial_half (b : Board) (mv : Move) (o : Board) :
    (mvSpecial b mv o).half = if b.raw.pieceOfUnchecked mv.source = .pawn then 0 else o.half := by
  unfold mvSpecial
  simp only []
  cases hp : b.raw.pieceOfUnchecked mv.source
  all_goals simp only [reduceCtorEq, if_false, if_true, beq_self_eq_true, Bool.false_eq_true, Bool.false_and, Bool.true_and, (by decide : (Piece.pawn == Piece.knight) = false), (by decide : (Piece.bishop == Piece.knight) = false), (by decide : (Piece.rook == Piece.knight) = false), (by decide : (Piece.queen == Piece.knight) = false), (by decide : (Piece.king == Piece.knight) = false), (by decide : (Piece.bishop == Piece.pawn) = false), (by decide : (Piece.rook == Piece.pawn) = false), (by decide : (Piece.queen == Piece.pawn) = false), (by decide : (Piece.king == Piece.pawn) = false), (by decide : (Piece.bishop == Piece.king) = false), (by decide : (Piece.rook == Piece.king) = false), (by decide : (Piece.queen == Piece.king) = false)]
  all_goals repeat' split
  all_goals rfl

theorem mvSpecial_ep (b : Board) (mv : Move) (o : Board) :
    (mvSpecial b mv o).ep =
      if b.raw.pieceOfUnchecked mv.source = .pawn ∧ mv.piece = none ∧
         ((BB.ofSq mv.source ^^^ BB.ofSq mv.dest) &&& Lookup.pawnDoubleMove b.turn) = (BB.ofSq mv.source ^^^ BB.ofSq mv.dest)
      then some mv.dest.file else o.ep := by
  unfold mvSpecial
  simp only []
  cases hp : b.raw.pieceOfUnchecked mv.source
  all_goals simp only [beq_iff_eq, Bool.and_eq_true, reduceCtorEq, if_false, if_true, false_and, true_and]
  all_goals repeat' split
  all_goals first | rfl | simp_all
  
@[simp] theorem mvBase_turn (b : Board) (mv : Move) : (mvBase b mv).turn = b.turn.flip := by
  unfold mvBase; simp only []; split <;> rfl
@[simp] theorem mvBase_ep (b : Board) (mv : Move) : (mvBase b mv).ep = none := by
  unfold mvBase; simp only []; split <;> rfl
@[simp] theorem mvBase_full (b : Board) (mv : Move) : (mvBase b mv).full = satAdd16 b.full b.turn.idx := by
  unfold mvBase; simp only []; split <;> rfl
@[simp] theorem mvBase_castle (b : Board) (mv : Move) : (mvBase b mv).castle =
    Castle.removeForSq (Castle.removeForSq b.castle b.turn.flip mv.dest) b.turn mv.source := by
  unfold mvBase; simp only []; split <;> rfl
theorem mvBase_half (b : Board) (mv : Move) : (mvBase b mv).half =
    if (b.raw.pieceOf mv.dest).isSome then 0 else satAdd16 b.half 1 := by
  unfold mvBase; simp only []; split <;> rename_i h <;> simp [h]
theorem mvBase_raw (b : Board) (mv : Move) : (mvBase b mv).raw =
    match b.raw.pieceOf mv.dest with
    | some cap => ((b.raw.xor b.turn (b.raw.pieceOfUnchecked mv.source) (BB.ofSq mv.source ^^^ BB.ofSq mv.dest)).xor
        b.turn.flip cap (BB.ofSq mv.dest))
    | none => b.raw.xor b.turn (b.raw.pieceOfUnchecked mv.source) (BB.ofSq mv.source ^^^ BB.ofSq mv.dest) := by
  unfold mvBase; simp only []; split <;> rfl

end Board

namespace RawBoard

/-! ### per-square view of a `RawBoard` -/

theorem color_xor (r : RawBoard) (c : Color) (p : Piece) (d : BB) (c' : Color) :
    (r.xor c p d).color c' = if c' = c then r.color c' ^^^ d else r.color c' := by
  cases c <;> cases p <;> cases c' <;> rfl

theorem piece_xor (r : RawBoard) (c : Color) (p : Piece) (d : BB) (p' : Piece) :
    (r.xor c p d).piece p' = if p' = p then r.piece p' ^^^ d else r.piece p' := by
  cases c <;> cases p <;> cases p' <;> rfl

theorem mem_color_xor (r : RawBoard) (c : Color) (p : Piece) (d : BB) (c' : Color) (s : Sq) :
    BB.mem ((r.xor c p d).color c') s = (BB.mem (r.color c') s != (decide (c' = c) && BB.mem d s)) := by
  rw [color_xor]; by_cases h : c' = c <;> simp [h]

theorem mem_piece_xor (r : RawBoard) (c : Color) (p : Piece) (d : BB) (p' : Piece) (s : Sq) :
    BB.mem ((r.xor c p d).piece p') s = (BB.mem (r.piece p') s != (decide (p' = p) && BB.mem d s)) := by
  rw [piece_xor]; by_cases h : p' = p <;> simp [h]

/-- the partition condition on the eight membership bits of one square -/
def sqOkBits (w bl pa kn bi ro qu ki : Bool) : Bool :=
  !(w && bl) &&
  !(pa && kn) && !(pa && bi) && !(pa && ro) && !(pa && qu) && !(pa && ki) &&
  !(kn && bi) && !(kn && ro) && !(kn && qu) && !(kn && ki) &&
  !(bi && ro) && !(bi && qu) && !(bi && ki) &&
  !(ro && qu) && !(ro && ki) && !(qu && ki) &&
  ((pa || kn || bi || ro || qu || ki) == (w || bl))

/-- the partition condition at one square -/
def sqOk (r : RawBoard) (s : Sq) : Bool :=
  sqOkBits (BB.mem r.white s) (BB.mem r.black s) (BB.mem r.pawn s) (BB.mem r.knight s)
    (BB.mem r.bishop s) (BB.mem r.rook s) (BB.mem r.queen s) (BB.mem r.king s)

theorem BB_eq_iff (a b : BB) : a = b ↔ ∀ s, BB.mem a s = BB.mem b s :=
  ⟨fun h _ => h ▸ rfl, BB.ext_mem⟩

theorem partitionOk_iff_sqOk (r : RawBoard) : r.partitionOk = true ↔ ∀ s, r.sqOk s = true := by
  simp only [partitionOk, Bool.and_eq_true, beq_iff_eq, BB_eq_iff, BB.mem_and', BB.mem_or', BB.mem_zero]
  constructor
  · intro h s
    simp only [sqOk]
    obtain ⟨⟨⟨⟨⟨⟨⟨⟨⟨⟨⟨⟨⟨⟨⟨⟨h1, h2⟩, h3⟩, h4⟩, h5⟩, h6⟩, h7⟩, h8⟩, h9⟩, h10⟩, h11⟩, h12⟩, h13⟩, h14⟩, h15⟩, h16⟩, h17⟩ := h
    have := h1 s; have := h2 s; have := h3 s; have := h4 s; have := h5 s; have := h6 s
    have := h7 s; have := h8 s; have := h9 s; have := h10 s; have := h11 s; have := h12 s
    have := h13 s; have := h14 s; have := h15 s; have := h16 s; have := h17 s
    generalize BB.mem r.white s = w at *
    generalize BB.mem r.black s = bl at *
    generalize BB.mem r.pawn s = pa at *
    generalize BB.mem r.knight s = kn at *
    generalize BB.mem r.bishop s = bi at *
    generalize BB.mem r.rook s = ro at *
    generalize BB.mem r.queen s = qu at *
    generalize BB.mem r.king s = ki at *
    simp only [sqOkBits, Bool.and_eq_true, Bool.not_eq_true', beq_iff_eq]
    refine ⟨⟨⟨⟨⟨⟨⟨⟨⟨⟨⟨⟨⟨⟨⟨⟨?_, ?_⟩, ?_⟩, ?_⟩, ?_⟩, ?_⟩, ?_⟩, ?_⟩, ?_⟩, ?_⟩, ?_⟩, ?_⟩, ?_⟩, ?_⟩, ?_⟩, ?_⟩, ?_⟩ <;> assumption
  · intro h
    have h' : ∀ s, sqOkBits (BB.mem r.white s) (BB.mem r.black s) (BB.mem r.pawn s) (BB.mem r.knight s)
      (BB.mem r.bishop s) (BB.mem r.rook s) (BB.mem r.queen s) (BB.mem r.king s) = true := h
    simp only [sqOkBits, Bool.and_eq_true, Bool.not_eq_true', beq_iff_eq] at h'
    refine ⟨⟨⟨⟨⟨⟨⟨⟨⟨⟨⟨⟨⟨⟨⟨⟨?_, ?_⟩, ?_⟩, ?_⟩, ?_⟩, ?_⟩, ?_⟩, ?_⟩, ?_⟩, ?_⟩, ?_⟩, ?_⟩, ?_⟩, ?_⟩, ?_⟩, ?_⟩, ?_⟩ <;> intro s
    · exact (h' s).1.1.1.1.1.1.1.1.1.1.1.1.1.1.1.1
    · exact (h' s).1.1.1.1.1.1.1.1.1.1.1.1.1.1.1.2
    · exact (h' s).1.1.1.1.1.1.1.1.1.1.1.1.1.1.2
    · exact (h' s).1.1.1.1.1.1.1.1.1.1.1.1.1.2
    · exact (h' s).1.1.1.1.1.1.1.1.1.1.1.1.2
    · exact (h' s).1.1.1.1.1.1.1.1.1.1.1.2
    · exact (h' s).1.1.1.1.1.1.1.1.1.1.2
    · exact (h' s).1.1.1.1.1.1.1.1.1.2
    · exact (h' s).1.1.1.1.1.1.1.1.2
    · exact (h' s).1.1.1.1.1.1.1.2
    · exact (h' s).1.1.1.1.1.1.2
    · exact (h' s).1.1.1.1.1.2
    · exact (h' s).1.1.1.1.2
    · exact (h' s).1.1.1.2
    · exact (h' s).1.1.2
    · exact (h' s).1.2
    · exact (h' s).2

/-- square `s` of `r` holds exactly `o`: the colour sets and the piece sets containing `s` are
precisely the ones named by `o` -/
def At (r : RawBoard) (s : Sq) (o : Option (Color × Piece)) : Prop :=
  (∀ c, BB.mem (r.color c) s = match o with | some (c', _) => decide (c = c') | none => false) ∧
  (∀ p, BB.mem (r.piece p) s = match o with | some (_, p') => decide (p = p') | none => false)

theorem pieceOnBits_spec : ∀ (w bl pa kn bi ro qu ki : Bool), sqOkBits w bl pa kn bi ro qu ki = true →
    match (match (if w then some Color.white else if bl then some Color.black else none),
        (if pa then some Piece.pawn else if kn then some Piece.knight
          else if bi then some Piece.bishop else if ro then some Piece.rook
          else if qu then some Piece.queen else if ki then some Piece.king else none) with
      | some c, some p => some (c, p)
      | _, _ => none) with
    | some (c, p) => w = decide (Color.white = c) ∧ bl = decide (Color.black = c) ∧
        pa = decide (Piece.pawn = p) ∧ kn = decide (Piece.knight = p) ∧ bi = decide (Piece.bishop = p) ∧
        ro = decide (Piece.rook = p) ∧ qu = decide (Piece.queen = p) ∧ ki = decide (Piece.king = p)
    | none => w = false ∧ bl = false ∧ pa = false ∧ kn = false ∧ bi = false ∧ ro = false ∧ qu = false ∧ ki = false := by
  intro w bl pa kn bi ro qu ki
  cases w <;> cases bl <;> cases pa <;> cases kn <;> cases bi <;> cases ro <;> cases qu <;> cases ki <;>
    intro h <;> first | exact ⟨rfl, rfl, rfl, rfl, rfl, rfl, rfl, rfl⟩ | exact absurd h (by decide)

theorem at_of_sqOk (r : RawBoard) (s : Sq) (h : r.sqOk s = true) : At r s (pieceOn r s) := by
  have := pieceOnBits_spec _ _ _ _ _ _ _ _ h
  change match pieceOn r s with | some (c, p) => _ | none => _ at this
  cases hp : pieceOn r s with
  | none =>
    rw [hp] at this
    obtain ⟨h1, h2, h3, h4, h5, h6, h7, h8⟩ := this
    constructor
    · intro c; cases c <;> assumption
    · intro p; cases p <;> assumption
  | some cp =>
    obtain ⟨c, p⟩ := cp
    rw [hp] at this
    obtain ⟨h1, h2, h3, h4, h5, h6, h7, h8⟩ := this
    constructor
    · intro c; cases c <;> assumption
    · intro p; cases p <;> assumption

theorem At.sqOk {r : RawBoard} {s : Sq} {o} (h : At r s o) : r.sqOk s = true := by
  obtain ⟨hc, hp⟩ := h
  have h1 := hc .white; have h2 := hc .black
  have h3 := hp .pawn; have h4 := hp .knight; have h5 := hp .bishop; have h6 := hp .rook
  have h7 := hp .queen; have h8 := hp .king
  simp only [RawBoard.color, RawBoard.piece] at h1 h2 h3 h4 h5 h6 h7 h8
  simp only [RawBoard.sqOk, h1, h2, h3, h4, h5, h6, h7, h8]
  rcases o with _ | ⟨c, p⟩
  · rfl
  · cases c <;> cases p <;> rfl

theorem At.pieceOn {r : RawBoard} {s : Sq} {o} (h : At r s o) : pieceOn r s = o := by
  obtain ⟨hc, hp⟩ := h
  have h1 := hc .white; have h2 := hc .black
  have h3 := hp .pawn; have h4 := hp .knight; have h5 := hp .bishop; have h6 := hp .rook
  have h7 := hp .queen; have h8 := hp .king
  simp only [RawBoard.color, RawBoard.piece] at h1 h2 h3 h4 h5 h6 h7 h8
  simp only [Spec.pieceOn, h1, h2, h3, h4, h5, h6, h7, h8]
  rcases o with _ | ⟨c, p⟩
  · rfl
  · cases c <;> cases p <;> rfl

theorem At.colorOf {r : RawBoard} {s : Sq} {o} (h : At r s o) : r.colorOf s = o.map Prod.fst := by
  obtain ⟨hc, _⟩ := h
  have h1 := hc .white; have h2 := hc .black
  simp only [RawBoard.color] at h1 h2
  simp only [RawBoard.colorOf, BB.contains_eq_mem, h1, h2]
  rcases o with _ | ⟨c, p⟩
  · rfl
  · cases c <;> rfl

theorem At.pieceOfUnchecked {r : RawBoard} {s : Sq} {c p} (h : At r s (some (c, p))) :
    r.pieceOfUnchecked s = p := by
  obtain ⟨_, hp⟩ := h
  have h3 := hp .pawn; have h4 := hp .knight; have h5 := hp .bishop; have h6 := hp .rook
  have h7 := hp .queen; have h8 := hp .king
  simp only [RawBoard.piece] at h3 h4 h5 h6 h7 h8
  simp only [RawBoard.pieceOfUnchecked, BB.contains_eq_mem, BB.mem_or', h3, h4, h5, h6, h7]
  cases p <;> rfl

theorem At.pieceOf {r : RawBoard} {s : Sq} {o} (h : At r s o) : r.pieceOf s = o.map Prod.snd := by
  rcases o with _ | ⟨c, p⟩
  · simp [RawBoard.pieceOf, h.colorOf]
  · simp [RawBoard.pieceOf, h.colorOf, h.pieceOfUnchecked]

end RawBoard

namespace Board
open RawBoard

theorem mvSpecial_raw_simple (b : Board) (mv : Move) (o : Board)
    (hnp : b.raw.pieceOfUnchecked mv.source ≠ .pawn)
    (hnc : ¬ (b.raw.pieceOfUnchecked mv.source = .king ∧
      ((BB.ofSq mv.source ^^^ BB.ofSq mv.dest) &&& Gen.Consts.castleMoves) = (BB.ofSq mv.source ^^^ BB.ofSq mv.dest))) :
    (mvSpecial b mv o).raw = o.raw := by
  unfold mvSpecial
  simp only []
  split
  · rfl
  · rw [if_neg (by simpa using hnp), if_neg (by simpa using hnc)]

theorem move_at_simple (b : Board) (m : Move) (c : Color) (p : Piece)
    (hpart : b.raw.partitionOk = true)
    (hsrc : pieceOn b.raw m.source = some (c, p)) (hturn : b.turn = c)
    (hdst : ∀ q, pieceOn b.raw m.dest ≠ some (c, q))
    (hne : m.source ≠ m.dest)
    (hnp : p ≠ .pawn) (hnc : ¬ (p = .king ∧ ((BB.ofSq m.source ^^^ BB.ofSq m.dest) &&& Gen.Consts.castleMoves) = (BB.ofSq m.source ^^^ BB.ofSq m.dest))) :
    ∀ s : Sq, At (b.moveUnchecked m).raw s
      (if s = m.dest then some (c, p) else if s = m.source then none else pieceOn b.raw s) := by
  rw [partitionOk_iff_sqOk] at hpart
  have hS : At b.raw m.source (some (c, p)) := hsrc ▸ at_of_sqOk _ _ (hpart _)
  have hD : At b.raw m.dest (pieceOn b.raw m.dest) := at_of_sqOk _ _ (hpart _)
  have hpu : b.raw.pieceOfUnchecked m.source = p := hS.pieceOfUnchecked
  rw [moveUnchecked_eq, mvScan_raw, mvSpecial_raw_simple _ _ _ (hpu ▸ hnp) (hpu ▸ hnc), mvBase_raw,
    hD.pieceOf, hpu, hturn]
  intro s
  have hs := at_of_sqOk b.raw s (hpart s)
  have hne' : m.dest ≠ m.source := fun h => hne h.symm
  have eds : (m.dest == m.source) = false := beq_false_of_ne hne'
  have esd : (m.source == m.dest) = false := beq_false_of_ne hne
  have ess : ∀ x : Sq, (x == x) = true := fun x => beq_self_eq_true x
  cases hd : pieceOn b.raw m.dest with
  | none =>
    rw [hd] at hD
    simp only [Option.map_none]
    constructor
    · intro c''
      rw [mem_color_xor, BB.mem_xor', BB.mem_ofSq, BB.mem_ofSq]
      by_cases h1 : s = m.dest
      · subst h1
        rw [hD.1 c'']; simp [eds]
      · by_cases h2 : s = m.source
        · subst h2
          rw [hS.1 c'']; simp [esd, hne]
        · rw [hs.1 c'']; simp [h1, h2, beq_false_of_ne h1, beq_false_of_ne h2]
    · intro p''
      rw [mem_piece_xor, BB.mem_xor', BB.mem_ofSq, BB.mem_ofSq]
      by_cases h1 : s = m.dest
      · subst h1
        rw [hD.2 p'']; simp [eds]
      · by_cases h2 : s = m.source
        · subst h2
          rw [hS.2 p'']; simp [esd, hne]
        · rw [hs.2 p'']; simp [h1, h2, beq_false_of_ne h1, beq_false_of_ne h2]
  | some cq =>
    obtain ⟨c', cap⟩ := cq
    rw [hd] at hD
    have hc' : c' = c.flip := by
      have : c' ≠ c := fun h => hdst cap (h ▸ hd)
      revert this; cases c <;> cases c' <;> simp [Color.flip]
    subst hc'
    simp only [Option.map_some]
    constructor
    · intro c''
      rw [mem_color_xor, mem_color_xor, BB.mem_xor', BB.mem_ofSq, BB.mem_ofSq]
      by_cases h1 : s = m.dest
      · subst h1
        rw [hD.1 c'']; cases c <;> cases c'' <;> simp [eds, Color.flip]
      · by_cases h2 : s = m.source
        · subst h2
          rw [hS.1 c'']; simp [esd, hne]
        · rw [hs.1 c'']; simp [h1, h2, beq_false_of_ne h1, beq_false_of_ne h2]
    · intro p''
      rw [mem_piece_xor, mem_piece_xor, BB.mem_xor', BB.mem_ofSq, BB.mem_ofSq]
      by_cases h1 : s = m.dest
      · subst h1
        rw [hD.2 p'']
        by_cases e1 : p'' = p <;> by_cases e2 : p'' = cap <;> simp [eds, e1, e2]
      · by_cases h2 : s = m.source
        · subst h2
          rw [hS.2 p'']; simp [esd, hne]
        · rw [hs.2 p'']; simp [h1, h2, beq_false_of_ne h1, beq_false_of_ne h2]

end Board
end Chess
