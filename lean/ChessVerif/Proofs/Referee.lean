/-
The referee of `chess-cli/src/bot_fight.rs` (`Model/Referee.lean`) over two copies of the modelled plugin:
the two engines stay in lock-step, every move the referee records is a legal move of the position reached, and the
three verdicts are truthful — whatever the clock does (every list `ks` of expiry indices).
Corollaries of C11 (`search_legal`, `search_some`), C02 (`move_WF`) and C03 (`state_eq`).
-/
import ChessVerif.Model.Referee
import ChessVerif.Proofs.Search
import ChessVerif.Proofs.IterMask
import ChessVerif.Proofs.Legal.Reach
import ChessVerif.Proofs.BookLines
import ChessVerif.Props.C03

namespace Chess.Referee
open Chess Chess.Engine Chess.Spec

/-! ### one turn of the loop -/

/-- one turn, no hypothesis on the board: the loop stops with a verdict other than `stillPlaying` and both engines in
the same state, or goes on from one common state with one more move and one index fewer -/
theorem loop_step (fuel : Nat) (s : Bot.State) (ms : List Move) (k : Nat) (ks : List Nat) :
    (∃ w, loop (fuel + 1) s s ms (k :: ks) = ⟨.didntMove w, s, s, ms⟩) ∨
    ∃ (mv : Move) (s' : Bot.State),
      (∃ r, r ≠ .stillPlaying ∧ loop (fuel + 1) s s ms (k :: ks) = ⟨r, s', s', ms ++ [mv]⟩) ∨
      loop (fuel + 1) s s ms (k :: ks) = loop fuel s' s' (ms ++ [mv]) ks := by
  simp only [loop, ite_self]
  cases hm : (Bot.evaluate s k).move with
  | none => exact .inl ⟨_, rfl⟩
  | some mv =>
    refine .inr ⟨mv, (Bot.makeMove s mv).1, ?_⟩
    simp only []
    split
    · exact .inl ⟨_, by simp, rfl⟩
    · split
      · exact .inl ⟨_, by simp, rfl⟩
      · exact .inl ⟨_, by simp, rfl⟩
      · exact .inr rfl

/-- one turn from a well-formed board: the move played is legal -/
theorem loop_step_wf (fuel : Nat) (s : Bot.State) (hwf : s.board.WF = true) (ms : List Move) (k : Nat) (ks : List Nat) :
    ((search false s.board s.table k 0).move = none ∧
      loop (fuel + 1) s s ms (k :: ks) = ⟨.didntMove (s.board.turn == .white), s, s, ms⟩) ∨
    ∃ (mv : Move) (s' : Bot.State), s.board.isLegal mv = true ∧ s'.board = s.board.moveUnchecked mv ∧
      (loop (fuel + 1) s s ms (k :: ks) = ⟨.staleMate, s', s', ms ++ [mv]⟩ ∨
       (s'.board.state = .checkMate ∧
         loop (fuel + 1) s s ms (k :: ks) = ⟨.checkMate (s.board.turn == .white), s', s', ms ++ [mv]⟩) ∨
       ((s'.board.state = .check ∨ s'.board.state = .running) ∧
         loop (fuel + 1) s s ms (k :: ks) = loop fuel s' s' (ms ++ [mv]) ks)) := by
  simp only [loop, ite_self]
  cases hm : (Bot.evaluate s k).move with
  | none => exact .inl ⟨hm, rfl⟩
  | some mv =>
    have hmem := Proofs.Search.search_legal false s.board s.table k 0 mv hm
    have hl : s.board.isLegal mv = true := by
      rw [Props.C01.isLegal_iff, Proofs.IterMask.legalsList_eq s.board hwf]
      exact hmem
    have hmk : (Bot.makeMove s mv).1.board = s.board.moveUnchecked mv := by simp [Bot.makeMove, hl]
    refine .inr ⟨mv, (Bot.makeMove s mv).1, hl, hmk, ?_⟩
    simp only []
    split
    · exact .inl rfl
    · cases hst : (Bot.makeMove s mv).1.board.state with
      | checkMate => exact .inr (.inl ⟨rfl, rfl⟩)
      | staleMate => exact .inl rfl
      | check => exact .inr (.inr ⟨.inl rfl, rfl⟩)
      | running => exact .inr (.inr ⟨.inr rfl, rfl⟩)

theorem legals_of_state (b : Board) (h : b.state = .check ∨ b.state = .running) :
    (MoveGen.legals b).isEmpty = false := by
  cases he : (MoveGen.legals b).isEmpty with
  | false => rfl
  | true =>
    have : b.state = .checkMate ∨ b.state = .staleMate := by
      unfold Board.state
      rw [he]
      cases b.inCheck <;> simp
    rcases this with e | e <;> rw [e] at h <;> simp at h

/-- **lock-step**: the two engines of a game hold the same board and the same repetition table at every moment -/
theorem loop_sync (fuel : Nat) (s : Bot.State) (ms : List Move) (ks : List Nat) :
    (loop fuel s s ms ks).a = (loop fuel s s ms ks).b := by
  induction fuel generalizing s ms ks with
  | zero => simp [loop]
  | succ fuel ih =>
    cases ks with
    | nil => simp [loop]
    | cons k ks =>
      rcases loop_step fuel s ms k ks with ⟨w, e⟩ | ⟨mv, s', ⟨r, _, e⟩ | e⟩
      · rw [e]
      · rw [e]
      · rw [e]; exact ih _ _ _

/-- the board stays well-formed -/
theorem loop_WF (fuel : Nat) (s : Bot.State) (hwf : s.board.WF = true) (ms : List Move) (ks : List Nat) :
    (loop fuel s s ms ks).a.board.WF = true := by
  induction fuel generalizing s ms ks with
  | zero => simpa [loop] using hwf
  | succ fuel ih =>
    cases ks with
    | nil => simpa [loop] using hwf
    | cons k ks =>
      rcases loop_step_wf fuel s hwf ms k ks with ⟨_, e⟩ | ⟨mv, s', hl, hb, e | ⟨_, e⟩ | ⟨_, e⟩⟩
      · rw [e]; exact hwf
      all_goals
        have hwf' : s'.board.WF = true := by rw [hb]; exact Legal.move_WF _ hwf mv hl
        rw [e]
        first | exact hwf' | exact ih s' hwf' _ _

/-- **every recorded move is legal**: the moves added to `moves` are accepted one after the other by the checked
make-move from the board the loop started on, and lead to the board the engines hold at the end -/
theorem loop_moves (fuel : Nat) (s : Bot.State) (hwf : s.board.WF = true) (ms : List Move) (ks : List Nat) :
    ∃ new, (loop fuel s s ms ks).moves = ms ++ new ∧ new.length ≤ ks.length ∧
      Book.playAll (fun b m => Board.moveNew b m) s.board new = some (loop fuel s s ms ks).a.board := by
  induction fuel generalizing s ms ks with
  | zero => exact ⟨[], by simp [loop], by simp, by simp [loop, Book.playAll]⟩
  | succ fuel ih =>
    cases ks with
    | nil => exact ⟨[], by simp [loop], by simp, by simp [loop, Book.playAll]⟩
    | cons k ks =>
      rcases loop_step_wf fuel s hwf ms k ks with ⟨_, e⟩ | ⟨mv, s', hl, hb, e | ⟨_, e⟩ | ⟨_, e⟩⟩
      · rw [e]; exact ⟨[], by simp, by simp, by simp [Book.playAll]⟩
      · rw [e]; exact ⟨[mv], rfl, by simp, by simp [Book.playAll, Board.moveNew, hl, hb]⟩
      · rw [e]; exact ⟨[mv], rfl, by simp, by simp [Book.playAll, Board.moveNew, hl, hb]⟩
      · have hwf' : s'.board.WF = true := by rw [hb]; exact Legal.move_WF _ hwf mv hl
        rw [e]
        obtain ⟨new, h1, h2, h3⟩ := ih s' hwf' (ms ++ [mv]) ks
        refine ⟨mv :: new, by rw [h1]; simp, by simp; omega, ?_⟩
        rw [← h3]
        simp [Book.playAll, Board.moveNew, hl, hb]

/-- **"didn't move" is only said of the side to move, and only when its search was cut short**: legal moves exist
whenever the loop asks (it only goes on in the states Check and Running), so by C11 a search whose first deepening pass
finished returns a move -/
theorem loop_didntMove (fuel : Nat) (s : Bot.State) (hwf : s.board.WF = true)
    (hm : (MoveGen.legals s.board).isEmpty = false) (ms : List Move) (ks : List Nat) (w : Bool)
    (h : (loop fuel s s ms ks).result = .didntMove w) :
    w = ((loop fuel s s ms ks).a.board.turn == .white) ∧
    ∃ k ∈ ks, Proofs.Search.firstPassFinished false (loop fuel s s ms ks).a.board (loop fuel s s ms ks).a.table k = false := by
  induction fuel generalizing s ms ks with
  | zero => simp [loop] at h
  | succ fuel ih =>
    cases ks with
    | nil => simp [loop] at h
    | cons k ks =>
      rcases loop_step_wf fuel s hwf ms k ks with ⟨hn, e⟩ | ⟨mv, s', hl, hb, e | ⟨_, e⟩ | ⟨hst, e⟩⟩
      · rw [e] at h ⊢
        injection h with h
        refine ⟨h.symm, k, List.mem_cons_self, ?_⟩
        cases hf : Proofs.Search.firstPassFinished false s.board s.table k with
        | false => rfl
        | true =>
          have := Proofs.Search.search_some false s.board s.table k 0 hf hm
          rw [hn] at this
          cases this
      · rw [e] at h; cases h
      · rw [e] at h; cases h
      · have hwf' : s'.board.WF = true := by rw [hb]; exact Legal.move_WF _ hwf mv hl
        rw [e] at h ⊢
        obtain ⟨hw, k', hk', hf⟩ := ih s' hwf' (legals_of_state _ hst) _ _ h
        exact ⟨hw, k', List.mem_cons_of_mem _ hk', hf⟩

/-- **a win is a checkmate by the rules, credited to the side that made the last move** -/
theorem loop_checkMate (fuel : Nat) (s : Bot.State) (hwf : s.board.WF = true) (ms : List Move) (ks : List Nat) (w : Bool)
    (h : (loop fuel s s ms ks).result = .checkMate w) :
    (abs (loop fuel s s ms ks).a.board).classify = .checkMate ∧
    (loop fuel s s ms ks).a.board.turn = (if w then .black else .white) := by
  induction fuel generalizing s ms ks with
  | zero => simp [loop] at h
  | succ fuel ih =>
    cases ks with
    | nil => simp [loop] at h
    | cons k ks =>
      rcases loop_step_wf fuel s hwf ms k ks with ⟨hn, e⟩ | ⟨mv, s', hl, hb, e | ⟨hst, e⟩ | ⟨hst, e⟩⟩
      · rw [e] at h; cases h
      · rw [e] at h; cases h
      · have hwf' : s'.board.WF = true := by rw [hb]; exact Legal.move_WF _ hwf mv hl
        rw [e] at h ⊢
        injection h with h
        subst h
        refine ⟨?_, ?_⟩
        · have := Props.C03.state_eq s'.board hwf'
          rw [hst] at this
          exact this.symm
        · show s'.board.turn = _
          rw [hb, Props.C02.move_turn]
          cases s.board.turn <;> rfl
      · have hwf' : s'.board.WF = true := by rw [hb]; exact Legal.move_WF _ hwf mv hl
        rw [e] at h ⊢
        exact ih s' hwf' _ _ h

/-- … and the game is not stopped while it is still running: on `stillPlaying` the clock ran out (`ks` used up, every
index consumed by one move) -/
theorem loop_stillPlaying (fuel : Nat) (s : Bot.State) (ms : List Move) (ks : List Nat) (hf : ks.length < fuel)
    (h : (loop fuel s s ms ks).result = .stillPlaying) :
    (loop fuel s s ms ks).moves.length = ms.length + ks.length := by
  induction fuel generalizing s ms ks with
  | zero => omega
  | succ fuel ih =>
    cases ks with
    | nil => simp [loop]
    | cons k ks =>
      rcases loop_step fuel s ms k ks with ⟨w, e⟩ | ⟨mv, s', ⟨r, hr, e⟩ | e⟩
      · rw [e] at h; cases h
      · rw [e] at h; exact absurd h hr
      · rw [e] at h ⊢
        have := ih s' (ms ++ [mv]) ks (by simp at hf; omega) h
        simp at this ⊢
        omega

/-! ### one game from the standard position -/

theorem standard_has_moves : (MoveGen.legals Board.standard).isEmpty = false := by decide +kernel

theorem game_sync (ks : List Nat) : (game ks).a = (game ks).b := by
  exact loop_sync _ _ _ _

/-- the recorded game is a legal game of chess from the standard start (the bound keeps the 16-bit move counter away from
saturation, where the implementation's board no longer determines the position's counters) -/
theorem game_legal (ks : List Nat) (hk : ks.length < 60000) : (abs Board.standard).playable (game ks).moves := by
  obtain ⟨new, h1, h2, h3⟩ := loop_moves (ks.length + 1) (Bot.setBoard Bot.init Board.standard) Legal.standard_WF [] ks
  have hg : (game ks).moves = new := by simpa [game] using h1
  rw [hg]
  exact Book.playAll_playable new Board.standard 0 Board.Reachable.refl (by decide) (by decide) (by omega)
    (by rw [show (Bot.setBoard Bot.init Board.standard).board = Board.standard from rfl] at h3; rw [h3]; rfl)

theorem game_checkMate (ks : List Nat) (w : Bool) (h : (game ks).result = .checkMate w) :
    (abs (game ks).a.board).classify = .checkMate ∧ (game ks).a.board.turn = (if w then .black else .white) := by
  exact loop_checkMate _ _ Legal.standard_WF _ _ w h

theorem game_didntMove (ks : List Nat) (w : Bool) (h : (game ks).result = .didntMove w) :
    w = ((game ks).a.board.turn == .white) ∧
    ∃ k ∈ ks, Proofs.Search.firstPassFinished false (game ks).a.board (game ks).a.table k = false := by
  exact loop_didntMove _ _ Legal.standard_WF standard_has_moves _ _ w h

/-- non-vacuity: with the clock expiring at the very first poll, White's engine returns no move -/
example : (game [0]).result = .didntMove true := by decide +kernel

end Chess.Referee
