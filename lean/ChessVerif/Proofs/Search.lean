/-
Search theorems behind C11 and C12 (statements fixed; proofs below).

`firstPass pos b tf k` is the first deepening pass of `search pos` (depth 0, no previous best move) and
`firstPassFinished` says that the poll closing it did not report expiry.  `pos` is the engine's `positional` flag
(a section variable: every theorem here takes it as its leading argument and holds for both values — of the
evaluation the proofs use only `eval_raw`, that it returns a numeric score).
-/
import ChessVerif.Props.C01
import ChessVerif.Props.C02
import ChessVerif.Props.C03
import ChessVerif.Props.C10
import ChessVerif.Props.C12.Basic
import ChessVerif.Model.Engine
import ChessVerif.Model.SearchDefs
import ChessVerif.Proofs.Search.Root

namespace Chess.Proofs.Search
open Chess Chess.Spec Chess.Engine Chess.MoveGen





variable (pos : Bool)

/-! ### the first pass inside `search` -/

/-- the two root loops of the first pass, named -/
theorem firstPass_eq (b : Board) (tf : ThreeFold) (k : Nat) (l1 l2 : Pass × MoveGen × St)
    (h1 : rootLoop pos k b b.turn 0 tf 5000 ((MoveGen.legals b).setMask (b.raw.color b.turn.flip))
      (pass0 b.turn) ⟨0, 0⟩ = l1)
    (h2 : rootLoop pos k b b.turn 0 tf 5000 (l1.2.1.setMask BB.full) l1.1 l1.2.2 = l2) :
    firstPass pos b tf k = (l2.1, l2.2.2) := by
  unfold firstPass
  simp only
  unfold pass0 at h1
  rw [h1]
  obtain ⟨p2, g2, st2⟩ := l1
  simp only at h2 ⊢
  rw [h2]

theorem search_eq (b : Board) (tf : ThreeFold) (k prev : Nat) (l1 l2 : Pass × MoveGen × St)
    (h1 : rootLoop pos k b b.turn 0 tf 5000 ((MoveGen.legals b).setMask (b.raw.color b.turn.flip))
      (pass0 b.turn) ⟨0, 0⟩ = l1)
    (h2 : rootLoop pos k b b.turn 0 tf 5000 (l1.2.1.setMask BB.full) l1.1 l1.2.2 = l2) :
    search pos b tf k prev =
      if l2.2.2.polls ≥ k then ⟨none, worst b.turn, prev, l2.2.2.evals, l2.2.2.polls + 1⟩
      else match l2.1.score with
        | .blackMateIn _ | .whiteMateIn _ => ⟨l2.1.best, l2.1.score, 0, l2.2.2.evals, l2.2.2.polls + 1⟩
        | _ => deepen pos k b b.turn tf (k + 1) (if 0 + 1 ≥ 65535 then 65535 else 0 + 1)
            l2.1.best l2.1.score 0 ⟨l2.2.2.polls + 1, l2.2.2.evals⟩ := by
  unfold search
  rw [deepen_none]
  exact passTail_eq pos k b b.turn tf (k + 1) 0 none (worst b.turn) prev (pass0 b.turn) (MoveGen.legals b) ⟨0, 0⟩
    l1 l2 h1 h2

theorem firstPassFinished_iff (b : Board) (tf : ThreeFold) (k : Nat) (l1 l2 : Pass × MoveGen × St)
    (h1 : rootLoop pos k b b.turn 0 tf 5000 ((MoveGen.legals b).setMask (b.raw.color b.turn.flip))
      (pass0 b.turn) ⟨0, 0⟩ = l1)
    (h2 : rootLoop pos k b b.turn 0 tf 5000 (l1.2.1.setMask BB.full) l1.1 l1.2.2 = l2) :
    firstPassFinished pos b tf k = true ↔ l2.2.2.polls < k := by
  unfold firstPassFinished
  rw [firstPass_eq pos b tf k l1 l2 h1 h2]
  simp [poll]

theorem avail_legals_iff (b : Board) (x : Move) :
    Avail (MoveGen.legals b) x ↔ x ∈ Props.C10.movesOf (MoveGen.legals b) := by
  constructor
  · intro h
    exact mem_mvsOf_of_avail rfl h (BB.mem_full _)
  · intro h
    exact (avail_of_mem_mvsOf h).1

/-- the best move of an accepted root move is the new move or the old best move -/
theorem accept_best (pc : Color) (p : Pass) (mv : Move) (new : Score) :
    (accept pc p mv new).best = some mv ∨ (accept pc p mv new).best = p.best := by
  unfold accept
  simp only
  split
  · exact Or.inl rfl
  · exact Or.inr rfl

/-! ### C11 -/

/-- every board, every history, every expiry index: a returned move is one the generator yields -/
theorem search_legal (b : Board) (tf : ThreeFold) (k prev : Nat) (mv : Move)
    (h : (search pos b tf k prev).move = some mv) : mv ∈ Props.C10.movesOf (MoveGen.legals b) := by
  have key := deepen_inv pos k b b.turn tf
    (fun o _ => ∀ m, o = some m → m ∈ Props.C10.movesOf (MoveGen.legals b))
    (fun p => ∀ m, p.best = some m → m ∈ Props.C10.movesOf (MoveGen.legals b))
    (fun _ _ m hm => by cases hm)
    (fun mv s depth st p' st' hI hr m hm => by
      obtain ⟨new, rfl, _⟩ := rootMove_some hr
      rcases accept_best b.turn (pass0 b.turn) mv new with hb | hb
      · rw [hb] at hm; cases hm; exact hI _ rfl
      · rw [hb] at hm; cases hm)
    (fun depth n g p st hsub hP =>
      rootLoop_inv pos k b b.turn depth tf
        (fun p => ∀ m, p.best = some m → m ∈ Props.C10.movesOf (MoveGen.legals b))
        (fun x => x ∈ Props.C10.movesOf (MoveGen.legals b))
        (fun mv p st p' st' hV hI hr m hm => by
          obtain ⟨new, rfl, _⟩ := rootMove_some hr
          rcases accept_best b.turn p mv new with hb | hb
          · rw [hb] at hm; cases hm; exact hV
          · rw [hb] at hm; exact hI m hm)
        n g p st (fun x hx => (avail_legals_iff b x).1 (hsub x hx)) hP)
    (fun p hP => hP)
    (k + 2) 0 none (worst b.turn) prev ⟨0, 0⟩ (fun m hm => by cases hm)
  exact key mv h

/-- no legal move: no move returned -/
theorem search_none (b : Board) (tf : ThreeFold) (k prev : Nat)
    (h : (MoveGen.legals b).isEmpty = true) : (search pos b tf k prev).move = none := by
  cases hm : (search pos b tf k prev).move with
  | none => rfl
  | some mv =>
    have := search_legal pos b tf k prev mv hm
    rw [isEmpty_eq_mvsOf, List.isEmpty_iff] at h
    rw [Props.C10.movesOf_eq, h] at this
    cases this

/-- the first pass did not finish: no move returned -/
theorem search_unfinished (b : Board) (tf : ThreeFold) (k prev : Nat)
    (h : firstPassFinished pos b tf k = false) : (search pos b tf k prev).move = none := by
  have hfin := firstPassFinished_iff pos b tf k _ _ rfl rfl
  rw [search_eq pos b tf k prev _ _ rfl rfl]
  rw [h] at hfin
  rw [if_pos (by
    apply Nat.le_of_not_lt
    intro hlt
    exact absurd (hfin.2 hlt) (by decide))]

/-- a pass state that has a best move, or is still at its initial score -/
private def Started (pc : Color) (p : Pass) : Prop := p.best.isSome = true ∨ p.score = worst pc

private theorem started_step (k : Nat) (b : Board) (pc : Color) (depth : Nat) (tf : ThreeFold)
    (mv : Move) (p : Pass) (st : St) (p' : Pass) (st' : St) (hS : Started pc p)
    (hr : rootMove pos k b pc depth tf mv p st = (some p', st')) : p'.best.isSome = true := by
  obtain ⟨new, rfl, hns, _⟩ := rootMove_some hr
  unfold accept
  simp only
  split
  · rfl
  · rename_i hnb
    rcases hS with hS | hS
    · exact hS
    · rw [hS, isBetter_worst pc new hns] at hnb
      exact absurd rfl hnb

/-- the first pass finished and legal moves exist: a move is returned -/
theorem search_some (b : Board) (tf : ThreeFold) (k prev : Nat)
    (hf : firstPassFinished pos b tf k = true) (hm : (MoveGen.legals b).isEmpty = false) :
    (search pos b tf k prev).move.isSome = true := by
  have hfin := (firstPassFinished_iff pos b tf k _ _ rfl rfl).1 hf
  rw [search_eq pos b tf k prev _ _ rfl rfl]
  -- the two loops
  have hst1 := rootLoop_struct pos k b b.turn 0 tf 5000 ((MoveGen.legals b).setMask (b.raw.color b.turn.flip))
    (pass0 b.turn) ⟨0, 0⟩
  have hfirst1 := rootLoop_first pos k b b.turn 0 tf (Started b.turn) (fun p => p.best.isSome = true)
    (fun mv p st p' st' hS hr => started_step pos k b b.turn 0 tf mv p st p' st' hS hr)
    (fun mv p st p' st' hS hr => started_step pos k b b.turn 0 tf mv p st p' st' (Or.inl hS) hr)
    4999 ((MoveGen.legals b).setMask (b.raw.color b.turn.flip)) (pass0 b.turn) ⟨0, 0⟩
  have hnext1 : ((MoveGen.legals b).setMask (b.raw.color b.turn.flip)).next.1.isSome = false →
      rootLoop pos k b b.turn 0 tf 5000 ((MoveGen.legals b).setMask (b.raw.color b.turn.flip))
        (pass0 b.turn) ⟨0, 0⟩ =
      (pass0 b.turn, ((MoveGen.legals b).setMask (b.raw.color b.turn.flip)).next.2, ⟨0, 0⟩) := by
    intro hnone
    rw [show (5000 : Nat) = 4999 + 1 from rfl, rootLoop.eq_2]
    cases hn : ((MoveGen.legals b).setMask (b.raw.color b.turn.flip)).next with
    | mk o g' =>
      rw [hn] at hnone
      cases o with
      | none => rfl
      | some m => cases hnone
  generalize hl1 : rootLoop pos k b b.turn 0 tf 5000 ((MoveGen.legals b).setMask (b.raw.color b.turn.flip))
    (pass0 b.turn) ⟨0, 0⟩ = l1 at hfin hst1 hfirst1 hnext1 ⊢
  have hst2 := rootLoop_struct pos k b b.turn 0 tf 5000 (l1.2.1.setMask BB.full) l1.1 l1.2.2
  have hinv2 := rootLoop_inv pos k b b.turn 0 tf (fun p => p.best.isSome = true) (fun _ => True)
    (fun mv p st p' st' _ hS hr => started_step pos k b b.turn 0 tf mv p st p' st' (Or.inl hS) hr)
    5000 (l1.2.1.setMask BB.full) l1.1 l1.2.2 (fun _ _ => trivial)
  have hfirst2 := rootLoop_first pos k b b.turn 0 tf (Started b.turn) (fun p => p.best.isSome = true)
    (fun mv p st p' st' hS hr => started_step pos k b b.turn 0 tf mv p st p' st' hS hr)
    (fun mv p st p' st' hS hr => started_step pos k b b.turn 0 tf mv p st p' st' (Or.inl hS) hr)
    4999 (l1.2.1.setMask BB.full) l1.1 l1.2.2
  simp only [Nat.reduceAdd] at hfirst2
  generalize hl2 : rootLoop pos k b b.turn 0 tf 5000 (l1.2.1.setMask BB.full) l1.1 l1.2.2 = l2
    at hfin hst2 hinv2 hfirst2 ⊢
  have hbest : l2.1.best.isSome = true := by
    cases hsome : ((MoveGen.legals b).setMask (b.raw.color b.turn.flip)).next.1.isSome with
    | true =>
      exact hinv2 (hfirst1 hsome (Or.inr rfl) (by have := hst2.1; omega))
    | false =>
      have hl1' := hnext1 hsome
      subst hl1'
      simp only at hfirst2 hst2
      apply hfirst2 _ (Or.inr rfl) (by omega)
      -- some move exists; its destination is outside the capture mask
      rw [isEmpty_eq_mvsOf] at hm
      cases hmv : mvsOf (MoveGen.legals b) with
      | nil => rw [hmv] at hm; cases hm
      | cons x t =>
        have hx : x ∈ mvsOf (MoveGen.legals b) := by rw [hmv]; exact List.mem_cons_self
        have hav := (avail_of_mem_mvsOf hx).1
        have hnotin : BB.mem (b.raw.color b.turn.flip) x.dest = false := by
          cases hmem : BB.mem (b.raw.color b.turn.flip) x.dest with
          | false => rfl
          | true =>
            exfalso
            have hx0 := (mem_mvsOf_setMask (MoveGen.legals b) (b.raw.color b.turn.flip) x).2 ⟨hav, hmem⟩
            have hne : ((MoveGen.legals b).setMask (b.raw.color b.turn.flip)).isEmpty = false := by
              rw [isEmpty_eq_mvsOf]
              cases hq : mvsOf ((MoveGen.legals b).setMask (b.raw.color b.turn.flip)) with
              | nil => rw [hq] at hx0; cases hx0
              | cons _ _ => rfl
            have := next_isSome_of_nonempty _ rfl hne
            rw [hsome] at this
            cases this
        have hav1 : Avail ((MoveGen.legals b).setMask (b.raw.color b.turn.flip)).next.2 x :=
          avail_next_keep _ x ((avail_setMask _ _ x).2 hav) hnotin
        have hx2 := (mem_mvsOf_setMask ((MoveGen.legals b).setMask (b.raw.color b.turn.flip)).next.2
          BB.full x).2 ⟨hav1, BB.mem_full _⟩
        apply next_isSome_of_nonempty
        · show ((MoveGen.legals b).setMask (b.raw.color b.turn.flip)).next.2.promoIdx = 0
          rcases next_cases ((MoveGen.legals b).setMask (b.raw.color b.turn.flip)) with
            ⟨_, _, _, hpi⟩ | ⟨_, _, _, _, _, _, _, _, h, _⟩
          · rw [hpi]; rfl
          · rw [h] at hsome; cases hsome
        · rw [isEmpty_eq_mvsOf]
          cases hq : mvsOf (((MoveGen.legals b).setMask (b.raw.color b.turn.flip)).next.2.setMask BB.full) with
          | nil => rw [hq] at hx2; cases hx2
          | cons _ _ => rfl
  rw [if_neg (by omega)]
  have hrest : ∀ passes depth s maxDepth st,
      (deepen pos k b b.turn tf passes depth l2.1.best s maxDepth st).move.isSome = true := by
    intro passes depth s maxDepth st
    exact deepen_inv pos k b b.turn tf (fun o _ => o.isSome = true) (fun p => p.best.isSome = true)
      (fun _ h => by cases h)
      (fun mv s depth st p' st' _ hr =>
        started_step pos k b b.turn depth tf mv _ st p' st' (Or.inr rfl) hr)
      (fun depth n g p st _ hP =>
        rootLoop_inv pos k b b.turn depth tf (fun p => p.best.isSome = true) (fun _ => True)
          (fun mv p st p' st' _ hS hr => started_step pos k b b.turn depth tf mv p st p' st' (Or.inl hS) hr)
          n g p st (fun _ _ => trivial) hP)
      (fun p hP => hP) passes depth l2.1.best s maxDepth st hbest
  split
  · exact hbest
  · exact hbest
  · exact hrest _ _ _ _ _

theorem movesOf_length_lt (b : Board) (hwf : b.WF = true) :
    (Props.C10.movesOf (MoveGen.legals b)).length < 5000 := by
  rw [Props.C10.movesOf_eq]
  exact Entries.mvsOf_length_lt _ (Legal.wf_entries_le b hwf)

theorem legalsList_eq (b : Board) (hwf : b.WF = true) :
    b.legalsList = Props.C10.movesOf (MoveGen.legals b) := by
  unfold Board.legalsList MoveGen.toList
  exact Props.C10.drain_eq _ rfl 5000 (movesOf_length_lt b hwf)

/-- in terms of the rules of chess, for well-formed boards -/
theorem search_legal_spec (b : Board) (hwf : b.WF = true) (tf : ThreeFold) (k prev : Nat) (mv : Move)
    (h : (search pos b tf k prev).move = some mv) : (abs b).legal mv = true := by
  rw [← Props.C01.legals_iff b hwf mv, legalsList_eq b hwf]
  exact search_legal pos b tf k prev mv h

theorem search_none_spec (b : Board) (hwf : b.WF = true) (tf : ThreeFold) (k prev : Nat)
    (h : (abs b).legalMoves = []) : (search pos b tf k prev).move = none := by
  apply search_none
  rw [Props.C03.isEmpty_iff b hwf, h]
  rfl

theorem search_some_spec (b : Board) (hwf : b.WF = true) (tf : ThreeFold) (k prev : Nat)
    (hf : firstPassFinished pos b tf k = true) (hm : (abs b).legalMoves ≠ []) :
    (search pos b tf k prev).move.isSome = true := by
  apply search_some pos b tf k prev hf
  rw [Props.C03.isEmpty_iff b hwf]
  cases hl : (abs b).legalMoves with
  | nil => exact absurd hl hm
  | cons _ _ => rfl

/-! ### C12 -/


/-! score facts about `mateInOne` -/

theorem mateScore_flip (pc : Color) : mateScore pc.flip 1 = mateInOne pc := by cases pc <;> rfl

theorem worst_ne_mateInOne (pc : Color) : worst pc ≠ mateInOne pc := by cases pc <;> nofun

theorem NS_mateInOne (pc : Color) : NS (mateInOne pc) := by cases pc <;> exact ⟨nofun, nofun⟩

theorem shapeGE_mateInOne (pc : Color) : ShapeGE 1 (mateInOne pc) := by cases pc <;> exact Nat.le_refl 1

theorem mateAt_mateInOne (pc : Color) : MateAt 1 (mateInOne pc) := by
  cases pc
  · exact Or.inl rfl
  · exact Or.inr rfl

/-- nothing an accepted root move can score is better than the mover's mate in one -/
theorem mateInOne_best (pc : Color) (s : Score) (h1 : NS s) (h2 : ShapeGE 1 s) :
    isBetter pc (mateInOne pc) s = false := by
  cases pc
  · apply Props.C12.white_mate1_best s h1.2
    intro h
    rw [h] at h2
    simp only [ShapeGE] at h2
    omega
  · apply Props.C12.black_mate1_best s h1.1
    intro h
    rw [h] at h2
    simp only [ShapeGE] at h2
    omega

/-- a score a pass can hold that the mover's mate in one does not beat is that mate in one -/
theorem eq_mateInOne_of_not_better (pc : Color) (s : Score)
    (hs : s = worst pc ∨ (NS s ∧ ShapeGE 1 s)) (hb : isBetter pc s (mateInOne pc) = false) :
    s = mateInOne pc := by
  rcases hs with rfl | ⟨h1, h2⟩
  · rw [isBetter_worst pc _ (NS_mateInOne pc)] at hb
    cases hb
  · have h3 := mateInOne_best pc s h1 h2
    cases pc
    · simp only [isBetter, Score.lt, Props.C14.partialCmp_eq, beq_eq_false_iff_ne, ne_eq,
        Option.some.injEq] at hb h3
      rcases Props.C14.cmp_total s (mateInOne .white) with h | h | h
      · exact absurd h hb
      · exact h
      · exact absurd h h3
    · simp only [isBetter, Score.gt, Props.C14.partialCmp_eq, beq_eq_false_iff_ne, ne_eq,
        Option.some.injEq] at hb h3
      rcases Props.C14.cmp_total s (mateInOne .black) with h | h | h
      · exfalso
        apply h3
        rw [Props.C14.cmp_swap, h]
        rfl
      · exact h
      · exfalso
        apply hb
        rw [Props.C14.cmp_swap, h]
        rfl

/-! pass invariants -/

/-- a mate-in-one score of the pass comes with a mating best move -/
private def TP (b : Board) (p : Pass) : Prop :=
  p.score = mateInOne b.turn → ∃ m, p.best = some m ∧ isMateMove b m = true

/-- before the mating move is reached -/
private def JP (b : Board) (p : Pass) : Prop :=
  (p.score = worst b.turn ∨ (NS p.score ∧ ShapeGE 1 p.score)) ∧ TP b p

/-- after the mating move was visited -/
private def FP (b : Board) (p : Pass) : Prop :=
  p.score = mateInOne b.turn ∧ ∃ m, p.best = some m ∧ isMateMove b m = true

private theorem TP_pass0 (b : Board) : TP b (pass0 b.turn) :=
  fun h => absurd h (worst_ne_mateInOne b.turn)

private theorem TP_step (b : Board) (k depth : Nat) (tf : ThreeFold) (mv : Move) (p : Pass) (st : St)
    (p' : Pass) (st' : St) (hT : TP b p)
    (hr : rootMove pos k b b.turn depth tf mv p st = (some p', st')) : TP b p' := by
  obtain ⟨new, rfl, _, _, hmate, _⟩ := rootMove_some hr
  intro hs
  unfold accept at hs ⊢
  by_cases hb : isBetter b.turn p.score new = true
  · simp only [hb, if_true] at hs ⊢
    refine ⟨mv, rfl, hmate ?_⟩
    rw [hs]
    exact mateAt_mateInOne _
  · simp only [hb, Bool.false_eq_true, if_false] at hs ⊢
    exact hT hs

private theorem JP_step (b : Board) (k depth : Nat) (tf : ThreeFold) (mv : Move) (p : Pass) (st : St)
    (p' : Pass) (st' : St) (hJ : JP b p)
    (hr : rootMove pos k b b.turn depth tf mv p st = (some p', st')) : JP b p' := by
  refine ⟨?_, TP_step pos b k depth tf mv p st p' st' hJ.2 hr⟩
  obtain ⟨new, rfl, hns, hsh, _⟩ := rootMove_some hr
  unfold accept
  by_cases hb : isBetter b.turn p.score new = true
  · simp only [hb, if_true]
    exact Or.inr ⟨hns, hsh⟩
  · simp only [hb, Bool.false_eq_true, if_false]
    exact hJ.1

private theorem FP_step (b : Board) (k depth : Nat) (tf : ThreeFold) (mv : Move) (p : Pass) (st : St)
    (p' : Pass) (st' : St) (hF : FP b p)
    (hr : rootMove pos k b b.turn depth tf mv p st = (some p', st')) : FP b p' := by
  obtain ⟨new, rfl, hns, hsh, _⟩ := rootMove_some hr
  have hb : isBetter b.turn p.score new = false := by
    rw [hF.1]
    exact mateInOne_best _ _ hns hsh
  unfold accept FP
  simp only [hb, Bool.false_eq_true, if_false]
  exact hF

private theorem JF_step (b : Board) (k depth : Nat) (tf : ThreeFold) (x : Move)
    (hxm : isMateMove b x = true) (hxd : drawnCapture b x = false) (p : Pass) (st : St)
    (p' : Pass) (st' : St) (hJ : JP b p)
    (hr : rootMove pos k b b.turn depth tf x p st = (some p', st')) : FP b p' := by
  obtain ⟨new, rfl, _, _, _, hval⟩ := rootMove_some hr
  have hnew : new = mateInOne b.turn := by
    rw [hval hxm hxd, Props.C02.move_turn]
    exact mateScore_flip _
  subst hnew
  unfold accept FP
  by_cases hb : isBetter b.turn p.score (mateInOne b.turn) = true
  · rw [if_pos hb, if_pos hb]
    exact ⟨rfl, x, rfl, hxm⟩
  · have hb' : isBetter b.turn p.score (mateInOne b.turn) = false := by simpa using hb
    have hs := eq_mateInOne_of_not_better b.turn p.score hJ.1 hb'
    simp only [hb, Bool.false_eq_true, if_false]
    exact ⟨hs, hJ.2 hs⟩

/-- a mate in one is found: when the first pass finishes and some legal move mates, the search
returns a mating move and the mate-in-one score of the side to move -/
theorem mate1_found (b : Board) (hwf : b.WF = true) (tf : ThreeFold) (k prev : Nat)
    (hf : firstPassFinished pos b tf k = true)
    (hm : ∃ mv ∈ Props.C10.movesOf (MoveGen.legals b), isMateMove b mv = true ∧ drawnCapture b mv = false) :
    ∃ mv, (search pos b tf k prev).move = some mv ∧ isMateMove b mv = true ∧
      (search pos b tf k prev).score = mateInOne b.turn := by
  obtain ⟨x, hxL, hxm, hxd⟩ := hm
  have hfin := (firstPassFinished_iff pos b tf k _ _ rfl rfl).1 hf
  rw [search_eq pos b tf k prev _ _ rfl rfl]
  have hF := twoLoops_visit pos k b b.turn 0 tf (JP b) (FP b) x
    (fun mv p st p' st' hJ hr => JP_step pos b k 0 tf mv p st p' st' hJ hr)
    (fun p st p' st' hJ hr => JF_step pos b k 0 tf x hxm hxd p st p' st' hJ hr)
    (fun mv p st p' st' hJ hr => FP_step pos b k 0 tf mv p st p' st' hJ hr)
    (MoveGen.legals b) rfl (Legal.wf_entries_le b hwf) (b.raw.color b.turn.flip)
    ((avail_legals_iff b x).2 hxL) (pass0 b.turn) ⟨0, 0⟩ ⟨Or.inl rfl, TP_pass0 b⟩ _ _ rfl rfl (by omega)
  generalize rootLoop pos k b b.turn 0 tf 5000 (MoveGen.setMask _ BB.full) _ _ = l2 at hfin hF ⊢
  obtain ⟨hs, m, hbm, hmm⟩ := hF
  rw [if_neg (by omega)]
  refine ⟨m, ?_, hmm, ?_⟩
  · split
    · exact hbm
    · exact hbm
    · rename_i h1 h2
      exfalso
      cases hc : b.turn <;> rw [hc] at hs
      · exact h2 1 hs
      · exact h1 1 hs
  · split
    · exact hs
    · exact hs
    · rename_i h1 h2
      exfalso
      cases hc : b.turn <;> rw [hc] at hs
      · exact h2 1 hs
      · exact h1 1 hs

/-- a mate-in-one score is truthful: the returned move mates -/
theorem mate1_truthful (b : Board) (tf : ThreeFold) (k prev : Nat)
    (hs : (search pos b tf k prev).score = mateInOne b.turn) :
    ∃ mv, (search pos b tf k prev).move = some mv ∧ isMateMove b mv = true := by
  have key := deepen_inv pos k b b.turn tf
    (fun o s => s = mateInOne b.turn → ∃ m, o = some m ∧ isMateMove b m = true) (TP b)
    (fun _ _ => TP_pass0 b)
    (fun mv s depth st p' st' _ hr => TP_step pos b k depth tf mv _ st p' st' (TP_pass0 b) hr)
    (fun depth n g p st _ hP =>
      rootLoop_inv pos k b b.turn depth tf (TP b) (fun _ => True)
        (fun mv p st p' st' _ hT hr => TP_step pos b k depth tf mv p st p' st' hT hr)
        n g p st (fun _ _ => trivial) hP)
    (fun p hP => hP)
    (k + 2) 0 none (worst b.turn) prev ⟨0, 0⟩ (fun h => absurd h (worst_ne_mateInOne b.turn))
  exact key hs

theorem legalMoves_clock (p : Position) (h f : Nat) :
    Position.legalMoves ⟨p.pieceAt, p.turn, p.rights, p.ep, h, f⟩ = p.legalMoves := rfl

theorem inCheck_clock (p : Position) (h f : Nat) (c : Color) :
    Position.inCheck ⟨p.pieceAt, p.turn, p.rights, p.ep, h, f⟩ c = p.inCheck c := rfl

theorem classify_checkMate (q : Position) :
    (q.legalMoves.isEmpty && q.inCheck q.turn) = decide (q.classify = Position.Status.checkMate) := by
  unfold Position.classify
  simp only
  cases q.legalMoves.isEmpty <;> cases q.inCheck q.turn <;> simp
  all_goals split <;> simp
  all_goals split <;> simp

/-- `isMateMove` in terms of the rules, for well-formed boards and legal moves -/
theorem isMateMove_spec (b : Board) (hwf : b.WF = true) (mv : Move) (hl : (abs b).legal mv = true) :
    isMateMove b mv = decide (((abs b).apply mv).classify = .checkMate) := by
  have hleg : b.isLegal mv = true := by rw [Legal.isLegal_iff_spec b hwf mv]; exact hl
  have hwf' := Legal.move_WF b hwf mv hleg
  obtain ⟨κ, hps⟩ := Legal.pseudo_of_legal _ _ hl
  unfold isMateMove
  rw [Props.C03.isEmpty_iff _ hwf', Props.C03.inCheck_iff _ hwf']
  unfold Position.apply
  rw [hps]
  simp only
  -- the successor board abstracts to the prescribed position up to the clocks
  have e1 : (abs (b.moveUnchecked mv)).pieceAt = ((abs b).applyKind mv κ).pieceAt :=
    funext fun s => Legal.move_placement b hwf mv κ hps s
  have e2 : (abs (b.moveUnchecked mv)).turn = ((abs b).applyKind mv κ).turn := by
    show (b.moveUnchecked mv).turn = _
    rw [Props.C02.move_turn, Legal.applyKind_turn]
    rfl
  have e3 : (abs (b.moveUnchecked mv)).rights = ((abs b).applyKind mv κ).rights :=
    funext fun sd => funext fun c => Legal.move_rights b hwf mv κ hps sd c
  have e4 : (abs (b.moveUnchecked mv)).ep = ((abs b).applyKind mv κ).ep := Legal.move_ep_spec b hwf mv κ hps
  have ht : (b.moveUnchecked mv).turn = ((abs b).applyKind mv κ).turn := e2
  have hA : abs (b.moveUnchecked mv) =
      ⟨((abs b).applyKind mv κ).pieceAt, ((abs b).applyKind mv κ).turn, ((abs b).applyKind mv κ).rights,
        ((abs b).applyKind mv κ).ep, (abs (b.moveUnchecked mv)).half, (abs (b.moveUnchecked mv)).full⟩ := by
    rw [← e1, ← e2, ← e3, ← e4]
  rw [ht, hA, legalMoves_clock, inCheck_clock]
  exact classify_checkMate _

end Chess.Proofs.Search
