/-
Facts about `alphabeta` / `children` (Model/Engine.lean) used by the search proofs:
polls only increase; without expiry the result is not a sentinel; the result is a numeric score,
a sentinel, or a mate score whose distance is at least `cur`, and a mate score of distance exactly
`cur` comes only from the "no legal move and in check" branch.
-/
import ChessVerif.Model.Engine
import ChessVerif.Props.C12.Basic
import ChessVerif.Proofs.Search.IterAvail

namespace Chess.Proofs.Search
open Chess Chess.Engine Chess.MoveGen Chess.Gen.ScoreFns

variable (pos : Bool)

/-- not one of the two sentinels -/
def NS (s : Score) : Prop := s ≠ .min ∧ s ≠ .max

/-- a mate score has distance at least `c` -/
def ShapeGE (c : Nat) : Score → Prop
  | .whiteMateIn n => c ≤ n
  | .blackMateIn n => c ≤ n
  | _ => True

/-- a mate score of distance exactly `c` -/
def MateAt (c : Nat) (s : Score) : Prop := s = .whiteMateIn c ∨ s = .blackMateIn c

/-- the successor has no legal move and its side to move is in check -/
def mates (old : Board) (mv : Move) : Bool :=
  (MoveGen.legals (old.moveUnchecked mv)).isEmpty && (old.moveUnchecked mv).inCheck

/-- the score of the mate branch of `alphabeta` -/
def mateScore (pc : Color) (cur : Nat) : Score :=
  match pc with | .white => Score.blackMateIn cur | .black => Score.whiteMateIn cur

theorem isBetter_worst (pc : Color) (s : Score) (h : NS s) : isBetter pc (worst pc) s = true := by
  obtain ⟨h1, h2⟩ := h
  cases pc <;> cases s <;> first | exact absurd rfl h1 | exact absurd rfl h2 | rfl

theorem shapeGE_mono {c d : Nat} (h : c ≤ d) {s : Score} (hs : ShapeGE d s) : ShapeGE c s := by
  cases s <;> simp only [ShapeGE] at * <;> omega

theorem eval_raw (b : Board) : ∃ x, eval pos b = .raw x := by
  unfold eval
  split
  · exact ⟨0, rfl⟩
  · exact ⟨_, rfl⟩

theorem NS_raw (x : Int) : NS (.raw x) := ⟨nofun, nofun⟩

theorem NS_mateScore (pc : Color) (c : Nat) : NS (mateScore pc c) := by
  cases pc <;> exact ⟨nofun, nofun⟩

theorem not_mateAt_raw (c : Nat) (x : Int) : ¬ MateAt c (.raw x) := by
  rintro (h | h) <;> cases h

/-- what `alphabeta` guarantees about its result -/
def ABSpec (k : Nat) (old : Board) (mv : Move) (cur : Nat) (st : St) (r : Score × St) : Prop :=
  st.polls ≤ r.2.polls ∧ (r.2.polls ≤ k → NS r.1) ∧ ShapeGE cur r.1 ∧ (MateAt cur r.1 → mates old mv = true)

/-- what `children` guarantees about its result -/
def ChSpec (k : Nat) (pc : Color) (cur n : Nat) (moves : MoveGen) (score : Score) (st : St)
    (r : Score × St) : Prop :=
  st.polls ≤ r.2.polls ∧
  (r.2.polls ≤ k → (NS score ∨ (score = worst pc ∧ 0 < n ∧ (moves.next).1.isSome = true)) → NS r.1) ∧
  (ShapeGE cur score → ShapeGE cur r.1)

theorem absSpec_raw (k : Nat) (old : Board) (mv : Move) (cur : Nat) (st : St) (x : Int) :
    ABSpec k old mv cur st (.raw x, st) :=
  ⟨Nat.le_refl _, fun _ => NS_raw x, trivial, fun h => absurd h (not_mateAt_raw cur x)⟩

/-- one iteration of the `children` loop after a poll that did not report expiry -/
theorem child_step (k : Nat) (pc : Color) (cur : Nat) (score alpha beta : Score) (st : St)
    (ab : Score × St) (rec : Score → Score → Score → St → Score × St)
    (hm : st.polls ≤ ab.2.polls) (ha : ab.2.polls ≤ k → NS ab.1) (hb : ShapeGE cur ab.1)
    (hrec : ∀ sc a b, ab.2.polls ≤ (rec sc a b ab.2).2.polls ∧
      ((rec sc a b ab.2).2.polls ≤ k → NS sc → NS (rec sc a b ab.2).1) ∧
      (ShapeGE cur sc → ShapeGE cur (rec sc a b ab.2).1)) :
    st.polls ≤ (if Score.le (updateCutoff pc alpha beta (if isBetter pc score ab.1 = true then ab.1 else score)).2
          (updateCutoff pc alpha beta (if isBetter pc score ab.1 = true then ab.1 else score)).1 = true
        then ((if isBetter pc score ab.1 = true then ab.1 else score), ab.2)
        else rec (if isBetter pc score ab.1 = true then ab.1 else score)
          (updateCutoff pc alpha beta (if isBetter pc score ab.1 = true then ab.1 else score)).1
          (updateCutoff pc alpha beta (if isBetter pc score ab.1 = true then ab.1 else score)).2 ab.2).2.polls ∧
    ((if Score.le (updateCutoff pc alpha beta (if isBetter pc score ab.1 = true then ab.1 else score)).2
          (updateCutoff pc alpha beta (if isBetter pc score ab.1 = true then ab.1 else score)).1 = true
        then ((if isBetter pc score ab.1 = true then ab.1 else score), ab.2)
        else rec (if isBetter pc score ab.1 = true then ab.1 else score)
          (updateCutoff pc alpha beta (if isBetter pc score ab.1 = true then ab.1 else score)).1
          (updateCutoff pc alpha beta (if isBetter pc score ab.1 = true then ab.1 else score)).2 ab.2).2.polls ≤ k →
      (NS score ∨ score = worst pc) →
      NS (if Score.le (updateCutoff pc alpha beta (if isBetter pc score ab.1 = true then ab.1 else score)).2
          (updateCutoff pc alpha beta (if isBetter pc score ab.1 = true then ab.1 else score)).1 = true
        then ((if isBetter pc score ab.1 = true then ab.1 else score), ab.2)
        else rec (if isBetter pc score ab.1 = true then ab.1 else score)
          (updateCutoff pc alpha beta (if isBetter pc score ab.1 = true then ab.1 else score)).1
          (updateCutoff pc alpha beta (if isBetter pc score ab.1 = true then ab.1 else score)).2 ab.2).1) ∧
    (ShapeGE cur score →
      ShapeGE cur (if Score.le (updateCutoff pc alpha beta (if isBetter pc score ab.1 = true then ab.1 else score)).2
          (updateCutoff pc alpha beta (if isBetter pc score ab.1 = true then ab.1 else score)).1 = true
        then ((if isBetter pc score ab.1 = true then ab.1 else score), ab.2)
        else rec (if isBetter pc score ab.1 = true then ab.1 else score)
          (updateCutoff pc alpha beta (if isBetter pc score ab.1 = true then ab.1 else score)).1
          (updateCutoff pc alpha beta (if isBetter pc score ab.1 = true then ab.1 else score)).2 ab.2).1) := by
  obtain ⟨new, st2⟩ := ab
  simp only at hm ha hb hrec ⊢
  have hns : st2.polls ≤ k → (NS score ∨ score = worst pc) →
      NS (if isBetter pc score new = true then new else score) := by
    intro hk hor
    have hnew := ha hk
    split
    · exact hnew
    · rename_i hnb
      rcases hor with h | h
      · exact h
      · rw [h, isBetter_worst pc new hnew] at hnb
        exact absurd rfl hnb
  have hshape : ShapeGE cur score → ShapeGE cur (if isBetter pc score new = true then new else score) := by
    intro hs
    split
    · exact hb
    · exact hs
  generalize (if isBetter pc score new = true then new else score) = sc at hns hshape ⊢
  generalize updateCutoff pc alpha beta sc = uc
  split
  · exact ⟨hm, hns, hshape⟩
  · obtain ⟨im, ia, ib⟩ := hrec sc uc.1 uc.2
    exact ⟨by omega, fun hk hor => ia hk (hns (by omega) hor), fun hs => ib (hshape hs)⟩

theorem children_spec (k fuel : Nat)
    (hP : ∀ old mv rem cur alpha beta list st,
      ABSpec k old mv cur st (alphabeta pos k fuel old mv rem cur alpha beta list st)) :
    ∀ n board pc rem cur list moves score alpha beta st,
      ChSpec k pc cur n moves score st (children pos k fuel board pc rem cur list n moves score alpha beta st) := by
  intro n
  induction n with
  | zero =>
    intro board pc rem cur list moves score alpha beta st
    rw [children.eq_1]
    refine ⟨Nat.le_refl _, ?_, id⟩
    rintro _ (h | ⟨_, h, _⟩)
    · exact h
    · omega
  | succ n ih =>
    intro board pc rem cur list moves score alpha beta st
    rw [children.eq_2]
    unfold ChSpec
    cases hnext : moves.next with
    | mk o moves' =>
      cases o with
      | none =>
        simp only
        refine ⟨Nat.le_refl _, ?_, id⟩
        rintro _ (h | ⟨_, _, h⟩)
        · exact h
        · cases h
      | some mv =>
        simp only [poll]
        by_cases hd : st.polls ≥ k
        · simp only [hd, decide_true, if_true]
          refine ⟨Nat.le_succ _, ?_, id⟩
          intro h
          have h' : st.polls + 1 ≤ k := h
          omega
        · simp only [hd, decide_false, Bool.false_eq_true, if_false]
          obtain ⟨hm, ha, hb, _⟩ := hP board mv rem cur alpha beta list { polls := st.polls + 1, evals := st.evals }
          have hm' : st.polls ≤ (alphabeta pos k fuel board mv rem cur alpha beta list
              { polls := st.polls + 1, evals := st.evals }).2.polls := Nat.le_trans (Nat.le_succ _) hm
          obtain ⟨c1, c2, c3⟩ := child_step k pc cur score alpha beta st
            (alphabeta pos k fuel board mv rem cur alpha beta list { polls := st.polls + 1, evals := st.evals })
            (fun sc a b s => children pos k fuel board pc rem cur list n moves' sc a b s) hm' ha hb
            (fun sc a b => by
              obtain ⟨im, ia, ib⟩ := ih board pc rem cur list moves' sc a b
                (alphabeta pos k fuel board mv rem cur alpha beta list { polls := st.polls + 1, evals := st.evals }).2
              exact ⟨im, fun hk hs => ia hk (Or.inl hs), ib⟩)
          refine ⟨c1, ?_, c3⟩
          intro hk hor
          apply c2 hk
          rcases hor with h | ⟨h, _⟩
          · exact Or.inl h
          · exact Or.inr h

theorem alphabeta_succ_spec (k fuel : Nat)
    (hQ : ∀ n board pc rem cur list moves score alpha beta st,
      ChSpec k pc cur n moves score st (children pos k fuel board pc rem cur list n moves score alpha beta st)) :
    ∀ old mv rem cur alpha beta list st,
      ABSpec k old mv cur st (alphabeta pos k (fuel + 1) old mv rem cur alpha beta list st) := by
  intro old mv rem cur alpha beta list st
  rw [alphabeta.eq_2]
  generalize (if (old.raw.get mv.dest).isSome = true then BoardList.new (old.moveUnchecked mv) list.table
    else list.add (old.moveUnchecked mv)) = list'
  split
  · exact absSpec_raw ..
  simp only
  split
  · rename_i hempty
    refine ⟨Nat.le_refl _, fun _ => ?_, ?_, ?_⟩
    · simp only
      split
      · split <;> exact ⟨nofun, nofun⟩
      · exact NS_raw 0
    · simp only
      split
      · split <;> exact Nat.le_refl _
      · trivial
    · simp only
      split
      · rename_i hc
        intro _
        unfold mates
        rw [hempty, hc]
        rfl
      · intro h
        exact absurd h (not_mateAt_raw cur 0)
  rename_i hne
  split
  · exact absSpec_raw ..
  split
  · exact absSpec_raw ..
  have fin : ∀ (c : Bool) (moves : MoveGen), (c = false → (moves.next).1.isSome = true) →
      ABSpec k old mv cur st
        (if c = true then (eval pos (old.moveUnchecked mv), { polls := st.polls, evals := st.evals + 1 })
         else children pos k fuel (old.moveUnchecked mv) (old.moveUnchecked mv).turn (rem - 1) (cur + 1) list' 5000
           moves (worst (old.moveUnchecked mv).turn) alpha beta st) := by
    intro c moves hsome
    cases c with
    | true =>
      rw [if_pos rfl]
      obtain ⟨x, hx⟩ := eval_raw pos (old.moveUnchecked mv)
      rw [hx]
      exact ⟨Nat.le_refl _, fun _ => NS_raw x, trivial, fun h => absurd h (not_mateAt_raw cur x)⟩
    | false =>
      rw [if_neg (by decide)]
      obtain ⟨qm, qa, qb⟩ := hQ 5000 (old.moveUnchecked mv) (old.moveUnchecked mv).turn (rem - 1) (cur + 1)
        list' moves (worst (old.moveUnchecked mv).turn) alpha beta st
      have hw : ShapeGE (cur + 1) (worst (old.moveUnchecked mv).turn) := by
        cases (old.moveUnchecked mv).turn <;> trivial
      have hs := qb hw
      refine ⟨qm, fun hk => qa hk (Or.inr ⟨rfl, by omega, hsome rfl⟩), shapeGE_mono (Nat.le_succ _) hs, ?_⟩
      rintro (h | h) <;> rw [h] at hs <;> simp only [ShapeGE] at hs <;> omega
  split
  · refine fin _ _ ?_
    intro hc
    exact next_isSome_of_nonempty _ rfl hc
  · refine fin _ _ ?_
    intro _
    apply next_isSome_of_nonempty _ rfl
    simpa using hne

theorem alphabeta_spec (k : Nat) : ∀ fuel old mv rem cur alpha beta list st,
    ABSpec k old mv cur st (alphabeta pos k fuel old mv rem cur alpha beta list st) := by
  intro fuel
  induction fuel with
  | zero =>
    intro old mv rem cur alpha beta list st
    rw [alphabeta.eq_1]
    exact absSpec_raw ..
  | succ fuel ih => exact alphabeta_succ_spec pos k fuel (children_spec pos k fuel ih)

/-- a mating move that is not scored as a drawn capture gets the mate score at once -/
theorem alphabeta_mate (k fuel : Nat) (old : Board) (mv : Move) (rem cur : Nat) (alpha beta : Score)
    (list : BoardList) (st : St) (hm : mates old mv = true)
    (hd : ((old.raw.get mv.dest).isSome && insufficientMaterial (old.moveUnchecked mv)) = false) :
    alphabeta pos k (fuel + 1) old mv rem cur alpha beta list st =
      (mateScore (old.moveUnchecked mv).turn cur, st) := by
  unfold mates at hm
  rw [Bool.and_eq_true] at hm
  rw [alphabeta.eq_2, hd]
  simp only [Bool.false_eq_true, if_false, hm.1, hm.2, if_true]
  rfl

end Chess.Proofs.Search
