/-
Evaluating a search whose time limit lets exactly the first deepening pass finish.

`alphabeta`/`children` are defined by well-founded recursion, which the kernel does not unfold, so a concrete
`Engine.search pos b tf k` with `k > 0` cannot be computed by `decide`.  At depth 0, however, `alphabeta` does not
recurse on a move that is not a capture (`alphabeta_leaf`); `firstPass0` is the first pass written with that leaf
case spelt out (`firstPass_eq0`: it IS the first pass, for every board), and `search_one_pass` says what the search
returns when the limit expires right after the first pass.  Together they let the kernel compute concrete searches
on positions whose moves are all quiet (the non-vacuity examples of `Props/C11.lean`), for both values of `pos`.
-/
import ChessVerif.Proofs.Search

namespace Chess.Proofs.Search
open Chess Chess.Engine Chess.MoveGen

variable (pos : Bool)

/-- what `alphabeta` returns at remaining depth 0 for a move that is not a capture -/
def leaf (old : Board) (mv : Move) (cur : Nat) (list : BoardList) (st : St) : Score × St :=
  let board := old.moveUnchecked mv
  if (MoveGen.legals board).isEmpty then
    (if board.inCheck then
      (match board.turn with | .white => Score.blackMateIn cur | .black => Score.whiteMateIn cur)
     else .raw 0, st)
  else if board.half ≥ 100 then (.raw 0, st)
  else if (list.add board).headCount == 3 then (.raw 0, st)
  else (eval pos board, { st with evals := st.evals + 1 })

theorem alphabeta_leaf (k fuel : Nat) (old : Board) (mv : Move) (cur : Nat) (alpha beta : Score)
    (list : BoardList) (st : St) (h : (old.raw.get mv.dest).isSome = false) :
    alphabeta pos k (fuel + 1) old mv 0 cur alpha beta list st = leaf pos old mv cur list st := by
  rw [alphabeta.eq_2]
  unfold leaf
  simp only [h, Bool.false_and, Bool.false_eq_true, if_false, Bool.and_false, beq_self_eq_true, if_true]
  rfl

/-- the `alphabeta` call of `rootMove` at depth 0, the leaf case spelt out -/
def rootAB0 (k : Nat) (board : Board) (tf : ThreeFold) (mv : Move) (p : Pass) (st : St) : Score × St :=
  if (board.raw.get mv.dest).isSome then alphabeta pos k 40 board mv 0 1 p.alpha p.beta (BoardList.new board tf) st
  else leaf pos board mv 1 (BoardList.new board tf) st

theorem rootAB0_eq (k : Nat) (board : Board) (tf : ThreeFold) (mv : Move) (p : Pass) (st : St) :
    alphabeta pos k (0 + 40) board mv 0 1 p.alpha p.beta (BoardList.new board tf) st = rootAB0 pos k board tf mv p st := by
  unfold rootAB0
  cases h : (board.raw.get mv.dest).isSome with
  | true => rfl
  | false => exact alphabeta_leaf pos k 39 board mv 1 _ _ _ st h

/-- `rootMove` at depth 0 -/
def rootMove0 (k : Nat) (board : Board) (pc : Color) (tf : ThreeFold) (mv : Move) (p : Pass) (st : St) :
    Option Pass × St :=
  let (new, st) := rootAB0 pos k board tf mv p st
  let (done, st) := poll k st
  if done then (none, st) else
  let (score, best) := if isBetter pc p.score new then (new, some mv) else (p.score, p.best)
  let (alpha, beta) := updateCutoff pc p.alpha p.beta score
  (some ⟨score, best, alpha, beta⟩, st)

theorem rootMove_eq0 (k : Nat) (board : Board) (pc : Color) (tf : ThreeFold) (mv : Move) (p : Pass) (st : St) :
    rootMove pos k board pc 0 tf mv p st = rootMove0 pos k board pc tf mv p st := by
  unfold rootMove rootMove0
  rw [rootAB0_eq]

/-- `rootLoop` at depth 0 -/
def rootLoop0 (k : Nat) (board : Board) (pc : Color) (tf : ThreeFold) :
    Nat → MoveGen → Pass → St → Pass × MoveGen × St
  | 0, g, p, st => (p, g, st)
  | n + 1, g, p, st =>
    match g.next with
    | (none, g') => (p, g', st)
    | (some mv, g') =>
      match rootMove0 pos k board pc tf mv p st with
      | (none, st) => (p, g', st)
      | (some p', st) => rootLoop0 k board pc tf n g' p' st

theorem rootLoop_eq0 (k : Nat) (board : Board) (pc : Color) (tf : ThreeFold) :
    ∀ n g p st, rootLoop pos k board pc 0 tf n g p st = rootLoop0 pos k board pc tf n g p st := by
  intro n
  induction n with
  | zero => intro g p st; rfl
  | succ n ih =>
    intro g p st
    rw [rootLoop.eq_2, rootLoop0]
    cases g.next with
    | mk o g' =>
      cases o with
      | none => rfl
      | some mv =>
        simp only [rootMove_eq0]
        cases rootMove0 pos k board pc tf mv p st with
        | mk op st' =>
          cases op with
          | none => rfl
          | some p' => exact ih g' p' st'

/-- `firstPass` with the depth-0 leaf case spelt out: the kernel can compute it on boards whose moves are all quiet -/
def firstPass0 (b : Board) (tf : ThreeFold) (k : Nat) : Pass × St :=
  let pc := b.turn
  let p0 : Pass := ⟨worst pc, none, .min, .max⟩
  let moves := (MoveGen.legals b).setMask (b.raw.color pc.flip)
  let (p2, moves, st) := rootLoop0 pos k b pc tf 5000 moves p0 ⟨0, 0⟩
  let (p3, _, st) := rootLoop0 pos k b pc tf 5000 (moves.setMask BB.full) p2 st
  (p3, st)

theorem firstPass_eq0 (b : Board) (tf : ThreeFold) (k : Nat) : firstPass pos b tf k = firstPass0 pos b tf k := by
  unfold firstPass firstPass0
  simp only [rootLoop_eq0]

/-- once the limit has expired, a pass that starts with a previous best move keeps it -/
theorem deepen_expired (k : Nat) (b : Board) (pc : Color) (tf : ThreeFold) (passes depth : Nat) (mv : Move)
    (s : Score) (maxDepth : Nat) (st : St) (h : k ≤ st.polls) :
    (deepen pos k b pc tf passes depth (some mv) s maxDepth st).move = some mv ∧
      (deepen pos k b pc tf passes depth (some mv) s maxDepth st).score = s := by
  cases passes with
  | zero => rw [deepen.eq_1]; exact ⟨rfl, rfl⟩
  | succ passes =>
    rw [deepen_some]
    cases hr : rootMove pos k b pc depth tf mv (pass0 pc) st with
    | mk op st' =>
      cases op with
      | none => exact ⟨rfl, rfl⟩
      | some p =>
        exfalso
        have hm := (rootAB_spec pos k b depth tf mv (pass0 pc) st).1
        rw [rootMove_eq] at hr
        split at hr
        · cases hr
        · omega

/-- the limit expires right after the first pass (its closing poll is the last one that does not report expiry):
the search returns the best move and the score of the first pass -/
theorem search_one_pass (b : Board) (tf : ThreeFold) (k prev : Nat)
    (hk : (firstPass pos b tf k).2.polls + 1 = k) (hb : (firstPass pos b tf k).1.best.isSome = true) :
    (search pos b tf k prev).move = (firstPass pos b tf k).1.best ∧
      (search pos b tf k prev).score = (firstPass pos b tf k).1.score := by
  rw [search_eq pos b tf k prev _ _ rfl rfl]
  rw [firstPass_eq pos b tf k _ _ rfl rfl] at hk hb ⊢
  simp only at hk hb ⊢
  generalize rootLoop pos k b b.turn 0 tf 5000 (MoveGen.setMask _ BB.full) _ _ = l2 at hk hb ⊢
  rw [if_neg (by omega)]
  split
  · exact ⟨rfl, rfl⟩
  · exact ⟨rfl, rfl⟩
  · cases hbm : l2.1.best with
    | none => rw [hbm] at hb; cases hb
    | some mv => exact deepen_expired pos k b b.turn tf _ _ mv _ _ _ (by show k ≤ l2.2.2.polls + 1; omega)

end Chess.Proofs.Search
