/-
Iterator facts used by the search proofs (C11/C12): which moves the entries of an iterator state
still hold (`Avail`), how `next`, `setMask`, `removeMove` change that set, and the consequences of
`next_spec` needed to run a root loop to exhaustion.
-/
import ChessVerif.Proofs.Iter
import ChessVerif.Props.C10

namespace Chess.Proofs.Search
open Chess Chess.MoveGen

/-- `x` is one of the moves some entry of `g` still holds (whatever the mask and the cursors) -/
def Avail (g : MoveGen) (x : Move) : Prop :=
  ∃ e ∈ g.moves, BB.mem e.moves x.dest = true ∧ x ∈ destMoves e x.dest

theorem mem_eMoves_iff (e : Entry) (mask : BB) (x : Move) :
    x ∈ eMoves e mask ↔ (BB.mem e.moves x.dest = true ∧ BB.mem mask x.dest = true ∧ x ∈ destMoves e x.dest) := by
  rw [eMoves_eq, List.mem_flatMap]
  constructor
  · rintro ⟨d, hd, hx⟩
    have := (mem_destMoves hx).2
    subst this
    rw [BB.mem_toList, BB.mem_and', Bool.and_eq_true] at hd
    exact ⟨hd.1, hd.2, hx⟩
  · rintro ⟨h1, h2, h3⟩
    refine ⟨x.dest, ?_, h3⟩
    rw [BB.mem_toList, BB.mem_and', h1, h2]
    rfl

theorem mem_mvsOf_iff (g : MoveGen) (x : Move) :
    x ∈ mvsOf g ↔ ∃ e ∈ g.moves.drop g.index,
      BB.mem e.moves x.dest = true ∧ BB.mem g.mask x.dest = true ∧ x ∈ destMoves e x.dest := by
  unfold mvsOf
  rw [List.mem_flatMap]
  constructor
  · rintro ⟨e, he, hx⟩
    exact ⟨e, he, (mem_eMoves_iff e g.mask x).1 hx⟩
  · rintro ⟨e, he, hx⟩
    exact ⟨e, he, (mem_eMoves_iff e g.mask x).2 hx⟩

theorem avail_of_mem_mvsOf {g : MoveGen} {x : Move} (h : x ∈ mvsOf g) :
    Avail g x ∧ BB.mem g.mask x.dest = true := by
  obtain ⟨e, he, h1, h2, h3⟩ := (mem_mvsOf_iff g x).1 h
  exact ⟨⟨e, List.mem_of_mem_drop he, h1, h3⟩, h2⟩

theorem mem_mvsOf_of_avail {g : MoveGen} {x : Move} (hi : g.index = 0) (h : Avail g x)
    (hm : BB.mem g.mask x.dest = true) : x ∈ mvsOf g := by
  obtain ⟨e, he, h1, h3⟩ := h
  refine (mem_mvsOf_iff g x).2 ⟨e, ?_, h1, hm, h3⟩
  rw [hi, List.drop_zero]
  exact he

theorem mem_flatMap_eMoves_iff (l : List Entry) (m : BB) (x : Move) :
    x ∈ l.flatMap (fun e => eMoves e m) ↔
      ((∃ e ∈ l, BB.mem e.moves x.dest = true ∧ x ∈ destMoves e x.dest) ∧ BB.mem m x.dest = true) := by
  rw [List.mem_flatMap]
  constructor
  · rintro ⟨e, he, hx⟩
    obtain ⟨h1, h2, h3⟩ := (mem_eMoves_iff e m x).1 hx
    exact ⟨⟨e, he, h1, h3⟩, h2⟩
  · rintro ⟨⟨e, he, h1, h3⟩, h2⟩
    exact ⟨e, he, (mem_eMoves_iff e m x).2 ⟨h1, h2, h3⟩⟩

/-- after `set_mask(m)` the iterator will yield exactly the held moves whose destination is in `m` -/
theorem mem_mvsOf_setMask (g : MoveGen) (m : BB) (x : Move) :
    x ∈ mvsOf (g.setMask m) ↔ (Avail g x ∧ BB.mem m x.dest = true) := by
  rw [(mvsOf_setMask_perm g m).mem_iff, mem_flatMap_eMoves_iff]
  rfl

theorem avail_setMask (g : MoveGen) (m : BB) (x : Move) : Avail (g.setMask m) x ↔ Avail g x := by
  unfold Avail
  have hp : ∀ e, e ∈ (g.setMask m).moves ↔ e ∈ g.moves := fun e => (compact_perm m g.moves).mem_iff
  constructor
  · rintro ⟨e, he, h⟩
    exact ⟨e, (hp e).1 he, h⟩
  · rintro ⟨e, he, h⟩
    exact ⟨e, (hp e).2 he, h⟩

theorem avail_removeMove (g : MoveGen) (mv x : Move) (h : Avail (g.removeMove mv).1 x) : Avail g x := by
  obtain ⟨e', he', h1, h3⟩ := h
  unfold removeMove at he'
  simp only [List.mem_map] at he'
  obtain ⟨e, he, rfl⟩ := he'
  refine ⟨e, he, ?_⟩
  split at h1
  · rename_i hs
    rw [if_pos hs] at h3
    rw [BB.mem_clear, Bool.and_eq_true] at h1
    exact ⟨h1.1, h3⟩
  · rename_i hs
    rw [if_neg hs] at h3
    exact ⟨h1, h3⟩

theorem getD_promo_mem (i : Nat) : promoPieces.getD i .queen ∈ promoPieces := by
  rcases i with _ | _ | _ | _ | i <;> simp [promoPieces, Gen.Consts.promotionPieces]

/-- what one call of `next` does, for every iterator state (no assumption on the cursors) -/
theorem next_cases (g : MoveGen) :
    ((next g).1 = none ∧ (next g).2.moves = g.moves ∧ (next g).2.mask = g.mask ∧
      (next g).2.promoIdx = g.promoIdx) ∨
    (∃ i e dest m, g.moves[i]? = some e ∧ BB.mem e.moves dest = true ∧ BB.mem g.mask dest = true ∧
      m ∈ destMoves e dest ∧ (next g).1 = some m ∧ (next g).2.mask = g.mask ∧
      ((next g).2.moves = g.moves ∨
       (next g).2.moves = g.moves.set i { e with moves := BB.clear e.moves dest })) := by
  cases hget : g.moves[skipEmpty g.moves g.mask g.index]? with
  | none =>
    rw [next_nil g hget]
    exact Or.inl ⟨rfl, rfl, rfl, rfl⟩
  | some e =>
    cases hpop : BB.pop (e.moves &&& g.mask) with
    | none =>
      left
      have hn : next g = (none, { g with index := skipEmpty g.moves g.mask g.index }) := by
        unfold next
        simp only [hget, hpop]
      rw [hn]
      exact ⟨rfl, rfl, rfl, rfl⟩
    | some pr =>
      obtain ⟨dest, r⟩ := pr
      right
      have hmem := (BB.pop_some _ _ _ hpop).1
      rw [BB.mem_and', Bool.and_eq_true] at hmem
      by_cases hp : e.promotion = true
      · have hdm : (⟨e.src, dest, some (promoPieces.getD g.promoIdx .queen)⟩ : Move) ∈ destMoves e dest := by
          unfold destMoves
          rw [if_pos hp, List.mem_map]
          exact ⟨_, getD_promo_mem _, rfl⟩
        by_cases hk : g.promoIdx + 1 ≥ promoPieces.length
        · rw [next_promo_last g e dest r hget hpop hp hk]
          refine ⟨_, e, dest, _, hget, hmem.1, hmem.2, hdm, rfl, ?_, ?_⟩
          · split <;> rfl
          · right; split <;> rfl
        · rw [next_promo_mid g e dest r hget hpop hp hk]
          exact ⟨_, e, dest, _, hget, hmem.1, hmem.2, hdm, rfl, rfl, Or.inl rfl⟩
      · have hp' : e.promotion = false := by simpa using hp
        have hdm : (⟨e.src, dest, none⟩ : Move) ∈ destMoves e dest := by
          unfold destMoves
          rw [if_neg hp]
          exact List.mem_singleton.2 rfl
        rw [next_plain g e dest r hget hpop hp']
        refine ⟨_, e, dest, _, hget, hmem.1, hmem.2, hdm, rfl, ?_, ?_⟩
        · split <;> rfl
        · right; split <;> rfl

/-- `next` only ever removes held moves -/
theorem avail_next (g : MoveGen) (x : Move) (h : Avail (next g).2 x) : Avail g x := by
  rcases next_cases g with ⟨_, hm, _, _⟩ | ⟨i, e, dest, m, hget, _, _, _, _, _, hm | hm⟩
  · unfold Avail at h; rw [hm] at h; exact h
  · unfold Avail at h; rw [hm] at h; exact h
  · obtain ⟨e', he', h1, h3⟩ := h
    rw [hm] at he'
    rcases List.mem_or_eq_of_mem_set he' with he' | rfl
    · exact ⟨e', he', h1, h3⟩
    · refine ⟨e, List.mem_of_getElem? hget, ?_, h3⟩
      rw [BB.mem_clear, Bool.and_eq_true] at h1
      exact h1.1

/-- the move `next` yields is held by the state and its destination is in the mask -/
theorem next_some_avail (g : MoveGen) (m : Move) (h : (next g).1 = some m) :
    Avail g m ∧ BB.mem g.mask m.dest = true := by
  rcases next_cases g with ⟨hn, _⟩ | ⟨i, e, dest, m', hget, h1, h2, h3, h4, _, _⟩
  · rw [hn] at h; cases h
  · rw [h4] at h
    cases h
    have hd := (mem_destMoves h3).2
    subst hd
    exact ⟨⟨e, List.mem_of_getElem? hget, h1, h3⟩, h2⟩

theorem next_mask (g : MoveGen) : (next g).2.mask = g.mask := by
  rcases next_cases g with ⟨_, _, hm, _⟩ | ⟨_, _, _, _, _, _, _, _, _, hm, _⟩ <;> exact hm

theorem next_length (g : MoveGen) : (next g).2.moves.length = g.moves.length := by
  rcases next_cases g with ⟨_, hm, _, _⟩ | ⟨_, _, _, _, _, _, _, _, _, _, hm | hm⟩
  · rw [hm]
  · rw [hm]
  · rw [hm, List.length_set]

/-- `next` keeps every held move whose destination is outside the mask -/
theorem avail_next_keep (g : MoveGen) (x : Move) (h : Avail g x) (hx : BB.mem g.mask x.dest = false) :
    Avail (next g).2 x := by
  rcases next_cases g with ⟨_, hm, _, _⟩ | ⟨i, e, dest, m, hget, _, hmask, _, _, _, hm | hm⟩
  · unfold Avail; rw [hm]; exact h
  · unfold Avail; rw [hm]; exact h
  · obtain ⟨e0, he0, h1, h3⟩ := h
    obtain ⟨j, hj, hje⟩ := List.getElem_of_mem he0
    unfold Avail
    rw [hm]
    by_cases hij : i = j
    · subst hij
      have hee : e0 = e := by
        have := List.getElem?_eq_getElem hj
        rw [hje] at this
        rw [hget] at this
        exact (Option.some.inj this).symm
      subst hee
      refine ⟨{ e0 with moves := BB.clear e0.moves dest }, ?_, ?_, h3⟩
      · exact List.mem_set hj _
      · show BB.mem (BB.clear e0.moves dest) x.dest = true
        rw [BB.mem_clear, h1, Bool.true_and, bne_iff_ne]
        intro hd
        rw [hd, hmask] at hx
        cases hx
    · refine ⟨e0, ?_, h1, h3⟩
      have : (g.moves.set i { e with moves := BB.clear e.moves dest })[j]? = some e0 := by
        rw [List.getElem?_set_ne hij, List.getElem?_eq_getElem hj, hje]
      exact List.mem_of_getElem? this

/-! ### consequences of `next_spec` -/

theorem next_isSome_of_nonempty (g : MoveGen) (h0 : g.promoIdx = 0) (hne : g.isEmpty = false) :
    (next g).1.isSome = true := by
  rw [(next_spec g (good_of_zero g h0)).1, mvsAt_of_zero g h0]
  rw [isEmpty_eq_mvsOf] at hne
  cases h : mvsOf g with
  | nil => rw [h] at hne; cases hne
  | cons a t => rfl

/-- a state whose cursor-aware denotation is empty has its promotion cursor at a group boundary -/
theorem good_nil (g : MoveGen) (hg : Good g) (hn : mvsAt g = []) : g.promoIdx = 0 := by
  rcases hg with h0 | ⟨hlt, e, he, hp, hne⟩
  · exact h0
  · exfalso
    obtain ⟨hi, rfl⟩ := List.getElem?_eq_some_iff.1 he
    have hlen : g.promoIdx < (mvsOf g).length := by
      unfold mvsOf
      rw [List.drop_eq_getElem_cons hi, List.flatMap_cons, List.length_append, eMoves_length, if_pos hp]
      have : BB.count (g.moves[g.index].moves &&& g.mask) ≠ 0 := by
        intro h0
        rw [BB.count_eq_length_toList, List.length_eq_zero_iff, toList_eq_nil_iff] at h0
        rw [h0] at hne
        cases hne
      omega
    unfold mvsAt at hn
    rw [List.drop_eq_nil_iff] at hn
    omega

end Chess.Proofs.Search
