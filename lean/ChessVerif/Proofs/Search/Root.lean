/-
Facts about the root of the search (`rootMove`, `rootLoop`, `deepen` of Model/Engine.lean) used by
the C11/C12 proofs: invariants of the root loops, what a loop that runs to exhaustion visits, and an
invariant principle for the deepening loop.
-/
import ChessVerif.Proofs.Search.AB
import ChessVerif.Proofs.Legal.Entries

namespace Chess.Proofs.Search
open Chess Chess.Engine Chess.MoveGen

variable (pos : Bool)

/-- the pass state after an accepted root move scored `new` -/
def accept (pc : Color) (p : Pass) (mv : Move) (new : Score) : Pass :=
  ⟨if isBetter pc p.score new = true then new else p.score,
   if isBetter pc p.score new = true then some mv else p.best,
   (updateCutoff pc p.alpha p.beta (if isBetter pc p.score new = true then new else p.score)).1,
   (updateCutoff pc p.alpha p.beta (if isBetter pc p.score new = true then new else p.score)).2⟩

/-- the `alphabeta` call of `rootMove` -/
abbrev rootAB (k : Nat) (board : Board) (depth : Nat) (tf : ThreeFold) (mv : Move) (p : Pass) (st : St) :
    Score × St :=
  alphabeta pos k (depth + 40) board mv depth 1 p.alpha p.beta (BoardList.new board tf) st

theorem rootMove_eq (k : Nat) (board : Board) (pc : Color) (depth : Nat) (tf : ThreeFold) (mv : Move)
    (p : Pass) (st : St) :
    rootMove pos k board pc depth tf mv p st =
      if (rootAB pos k board depth tf mv p st).2.polls ≥ k then
        (none, ⟨(rootAB pos k board depth tf mv p st).2.polls + 1, (rootAB pos k board depth tf mv p st).2.evals⟩)
      else (some (accept pc p mv (rootAB pos k board depth tf mv p st).1),
        ⟨(rootAB pos k board depth tf mv p st).2.polls + 1, (rootAB pos k board depth tf mv p st).2.evals⟩) := by
  unfold rootMove accept rootAB poll
  simp only
  by_cases h : (alphabeta pos k (depth + 40) board mv depth 1 p.alpha p.beta (BoardList.new board tf) st).2.polls ≥ k
  · simp only [h, decide_true, if_true]
  · simp only [h, decide_false, Bool.false_eq_true, if_false]
    by_cases hb : isBetter pc p.score
        (alphabeta pos k (depth + 40) board mv depth 1 p.alpha p.beta (BoardList.new board tf) st).1 = true
    · simp only [hb, if_true]
    · simp only [hb, Bool.false_eq_true, if_false]

theorem rootAB_spec (k : Nat) (board : Board) (depth : Nat) (tf : ThreeFold) (mv : Move) (p : Pass) (st : St) :
    ABSpec k board mv 1 st (rootAB pos k board depth tf mv p st) :=
  alphabeta_spec pos k _ _ _ _ _ _ _ _ _

/-- an accepted root move: no poll up to and including its closing poll reported expiry, so the
score is not a sentinel; it is numeric or a mate score of distance ≥ 1, and a mate in 1 only for a
mating move -/
theorem rootMove_some {pos : Bool} {k : Nat} {board : Board} {pc : Color} {depth : Nat} {tf : ThreeFold} {mv : Move}
    {p p' : Pass} {st st' : St} (h : rootMove pos k board pc depth tf mv p st = (some p', st')) :
    ∃ new, p' = accept pc p mv new ∧ NS new ∧ ShapeGE 1 new ∧ (MateAt 1 new → mates board mv = true) ∧
      (mates board mv = true →
        ((board.raw.get mv.dest).isSome && insufficientMaterial (board.moveUnchecked mv)) = false →
        new = mateScore (board.moveUnchecked mv).turn 1) := by
  rw [rootMove_eq] at h
  obtain ⟨_, ha, hb, hc⟩ := rootAB_spec pos k board depth tf mv p st
  split at h
  · cases h
  · rename_i hlt
    simp only [Prod.mk.injEq, Option.some.injEq] at h
    refine ⟨_, h.1.symm, ha (by omega), hb, hc, ?_⟩
    intro hm hd
    show (alphabeta pos k ((depth + 39) + 1) board mv depth 1 p.alpha p.beta (BoardList.new board tf) st).1 = _
    rw [alphabeta_mate pos k _ board mv depth 1 _ _ _ st hm hd]

theorem rootMove_none {pos : Bool} {k : Nat} {board : Board} {pc : Color} {depth : Nat} {tf : ThreeFold} {mv : Move}
    {p : Pass} {st st' : St} (h : rootMove pos k board pc depth tf mv p st = (none, st')) : k < st'.polls := by
  rw [rootMove_eq] at h
  split at h
  · rename_i hge
    simp only [Prod.mk.injEq, true_and] at h
    rw [← h]
    show k < _ + 1
    omega
  · simp only [Prod.mk.injEq] at h
    cases h.1

theorem rootMove_polls (k : Nat) (board : Board) (pc : Color) (depth : Nat) (tf : ThreeFold) (mv : Move)
    (p : Pass) (st : St) : st.polls ≤ (rootMove pos k board pc depth tf mv p st).2.polls := by
  rw [rootMove_eq]
  obtain ⟨hm, _⟩ := rootAB_spec pos k board depth tf mv p st
  split
  · show _ ≤ _ + 1
    omega
  · show _ ≤ _ + 1
    omega

/-! ### root loops -/

/-- structural facts: polls only increase, the mask stays, the entry count stays, held moves are
only ever removed, and those outside the mask are all kept -/
theorem rootLoop_struct (k : Nat) (board : Board) (pc : Color) (depth : Nat) (tf : ThreeFold) :
    ∀ n g p st,
      st.polls ≤ (rootLoop pos k board pc depth tf n g p st).2.2.polls ∧
      (rootLoop pos k board pc depth tf n g p st).2.1.mask = g.mask ∧
      (rootLoop pos k board pc depth tf n g p st).2.1.moves.length = g.moves.length ∧
      (∀ x, Avail (rootLoop pos k board pc depth tf n g p st).2.1 x → Avail g x) ∧
      (∀ x, Avail g x → BB.mem g.mask x.dest = false → Avail (rootLoop pos k board pc depth tf n g p st).2.1 x) := by
  intro n
  induction n with
  | zero =>
    intro g p st
    rw [rootLoop.eq_1]
    exact ⟨Nat.le_refl _, rfl, rfl, fun _ h => h, fun _ h _ => h⟩
  | succ n ih =>
    intro g p st
    rw [rootLoop.eq_2]
    have hnm := next_mask g
    have hnl := next_length g
    have hna := avail_next g
    have hnk := avail_next_keep g
    cases hn : g.next with
    | mk o g' =>
      rw [hn] at hnm hnl hna hnk
      simp only at hnm hnl hna hnk
      cases o with
      | none => exact ⟨Nat.le_refl _, hnm, hnl, hna, hnk⟩
      | some mv =>
        simp only
        have hp := rootMove_polls pos k board pc depth tf mv p st
        cases hr : rootMove pos k board pc depth tf mv p st with
        | mk op st' =>
          rw [hr] at hp
          simp only at hp
          cases op with
          | none => exact ⟨hp, hnm, hnl, hna, hnk⟩
          | some p' =>
            simp only
            obtain ⟨i1, i2, i3, i4, i5⟩ := ih g' p' st'
            refine ⟨Nat.le_trans hp i1, by rw [i2, hnm], by rw [i3, hnl], fun x h => hna x (i4 x h), ?_⟩
            intro x h hx
            apply i5 x (hnk x h hx)
            rw [hnm]
            exact hx

/-- an invariant of the pass state that every accepted root move (of a move held by the iterator)
preserves is preserved by a root loop -/
theorem rootLoop_inv (k : Nat) (board : Board) (pc : Color) (depth : Nat) (tf : ThreeFold)
    (I : Pass → Prop) (V : Move → Prop)
    (hstep : ∀ mv p st p' st', V mv → I p → rootMove pos k board pc depth tf mv p st = (some p', st') → I p') :
    ∀ n g p st, (∀ x, Avail g x → V x) → I p → I (rootLoop pos k board pc depth tf n g p st).1 := by
  intro n
  induction n with
  | zero =>
    intro g p st _ hI
    rw [rootLoop.eq_1]
    exact hI
  | succ n ih =>
    intro g p st hV hI
    rw [rootLoop.eq_2]
    have hna := avail_next g
    have hns := next_some_avail g
    cases hn : g.next with
    | mk o g' =>
      rw [hn] at hna hns
      simp only at hna hns
      cases o with
      | none => exact hI
      | some mv =>
        simp only
        cases hr : rootMove pos k board pc depth tf mv p st with
        | mk op st' =>
          cases op with
          | none => exact hI
          | some p' =>
            simp only
            exact ih g' p' st' (fun x h => hV x (hna x h))
              (hstep mv p st p' st' (hV mv (hns mv rfl).1) hI hr)

/-- a loop over an iterator that yields at least one move, without expiry: the first move is accepted -/
theorem rootLoop_first (k : Nat) (board : Board) (pc : Color) (depth : Nat) (tf : ThreeFold)
    (I J : Pass → Prop)
    (hIJ : ∀ mv p st p' st', I p → rootMove pos k board pc depth tf mv p st = (some p', st') → J p')
    (hJ : ∀ mv p st p' st', J p → rootMove pos k board pc depth tf mv p st = (some p', st') → J p')
    (n : Nat) (g : MoveGen) (p : Pass) (st : St) (hsome : (g.next).1.isSome = true) (hI : I p)
    (hk : (rootLoop pos k board pc depth tf (n + 1) g p st).2.2.polls ≤ k) :
    J (rootLoop pos k board pc depth tf (n + 1) g p st).1 := by
  rw [rootLoop.eq_2] at hk ⊢
  cases hn : g.next with
  | mk o g' =>
    rw [hn] at hsome hk
    cases o with
    | none => cases hsome
    | some mv =>
      simp only at hk ⊢
      cases hr : rootMove pos k board pc depth tf mv p st with
      | mk op st' =>
        rw [hr] at hk
        cases op with
        | none =>
          simp only at hk
          have := rootMove_none hr
          omega
        | some p' =>
          simp only
          exact rootLoop_inv pos k board pc depth tf J (fun _ => True)
            (fun mv p st p' st' _ hj h => hJ mv p st p' st' hj h) n g' p' st' (fun _ _ => trivial)
            (hIJ mv p st p' st' hI hr)

/-- a loop that runs without expiry and with enough fuel exhausts its iterator: the promotion
cursor is left at a group boundary -/
theorem rootLoop_exhaust (k : Nat) (board : Board) (pc : Color) (depth : Nat) (tf : ThreeFold) :
    ∀ n g p st, Good g → (mvsAt g).length < n →
      (rootLoop pos k board pc depth tf n g p st).2.2.polls ≤ k →
      (rootLoop pos k board pc depth tf n g p st).2.1.promoIdx = 0 := by
  intro n
  induction n with
  | zero => intro g p st _ hl; omega
  | succ n ih =>
    intro g p st hg hl hk
    rw [rootLoop.eq_2] at hk ⊢
    obtain ⟨s1, s2, s3⟩ := next_spec g hg
    have hnc := next_cases g
    cases hn : g.next with
    | mk o g' =>
      rw [hn] at s1 s2 s3 hk hnc
      simp only at s1 s2 s3 hk hnc ⊢
      cases o with
      | none =>
        simp only
        have hnil : mvsAt g = [] := by
          cases hm : mvsAt g with
          | nil => rfl
          | cons a t => rw [hm] at s1; cases s1
        rcases hnc with ⟨_, _, _, hpi⟩ | ⟨_, _, _, _, _, _, _, _, h, _⟩
        · rw [hpi]
          exact good_nil g hg hnil
        · cases h
      | some mv =>
        simp only at hk ⊢
        cases hr : rootMove pos k board pc depth tf mv p st with
        | mk op st' =>
          rw [hr] at hk
          cases op with
          | none =>
            simp only at hk
            have := rootMove_none hr
            omega
          | some p' =>
            simp only at hk ⊢
            apply ih g' p' st' s3 _ hk
            rw [s2]
            cases hm : mvsAt g with
            | nil => rw [hm] at s1; cases s1
            | cons a t =>
              rw [hm] at hl
              simp only [List.length_cons, List.tail_cons] at hl ⊢
              omega

/-- a loop that runs without expiry and with enough fuel visits every move its iterator denotes:
`I` holds until the move `x` is reached, `J` from then on -/
theorem rootLoop_visit (k : Nat) (board : Board) (pc : Color) (depth : Nat) (tf : ThreeFold)
    (I J : Pass → Prop) (x : Move)
    (hI : ∀ mv p st p' st', I p → rootMove pos k board pc depth tf mv p st = (some p', st') → I p')
    (hIJ : ∀ p st p' st', I p → rootMove pos k board pc depth tf x p st = (some p', st') → J p')
    (hJ : ∀ mv p st p' st', J p → rootMove pos k board pc depth tf mv p st = (some p', st') → J p') :
    ∀ n g p st, Good g → x ∈ mvsAt g → (mvsAt g).length < n → I p →
      (rootLoop pos k board pc depth tf n g p st).2.2.polls ≤ k →
      J (rootLoop pos k board pc depth tf n g p st).1 := by
  intro n
  induction n with
  | zero => intro g p st _ _ hl; omega
  | succ n ih =>
    intro g p st hg hx hl hIp hk
    rw [rootLoop.eq_2] at hk ⊢
    obtain ⟨s1, s2, s3⟩ := next_spec g hg
    cases hn : g.next with
    | mk o g' =>
      rw [hn] at s1 s2 s3 hk
      simp only at s1 s2 s3 hk ⊢
      cases hm : mvsAt g with
      | nil => rw [hm] at hx; cases hx
      | cons a t =>
        rw [hm] at s1 s2 hx hl
        simp only [List.head?_cons, List.tail_cons, List.length_cons] at s1 s2 hl
        subst s1
        simp only at hk ⊢
        cases hr : rootMove pos k board pc depth tf a p st with
        | mk op st' =>
          rw [hr] at hk
          cases op with
          | none =>
            simp only at hk
            have := rootMove_none hr
            omega
          | some p' =>
            simp only at hk ⊢
            rcases List.mem_cons.1 hx with rfl | hxt
            · exact rootLoop_inv pos k board pc depth tf J (fun _ => True)
                (fun mv p st p' st' _ hj h => hJ mv p st p' st' hj h) n g' p' st' (fun _ _ => trivial)
                (hIJ p st p' st' hIp hr)
            · exact ih g' p' st' s3 (by rw [s2]; exact hxt) (by rw [s2]; omega)
                (hI a p st p' st' hIp hr) hk

/-- the two root loops of a pass (first the moves whose destination is in `M`, then, after
`set_mask(full)`, all the others), run without expiry over an iterator with at most 18 entries:
every held move `x` is visited -/
theorem twoLoops_visit (k : Nat) (board : Board) (pc : Color) (depth : Nat) (tf : ThreeFold)
    (I F : Pass → Prop) (x : Move)
    (hI : ∀ mv p st p' st', I p → rootMove pos k board pc depth tf mv p st = (some p', st') → I p')
    (hIF : ∀ p st p' st', I p → rootMove pos k board pc depth tf x p st = (some p', st') → F p')
    (hF : ∀ mv p st p' st', F p → rootMove pos k board pc depth tf mv p st = (some p', st') → F p')
    (g : MoveGen) (hg : g.promoIdx = 0) (hlen : g.moves.length ≤ 18) (M : BB) (hx : Avail g x)
    (p : Pass) (st : St) (hIp : I p) (l1 l2 : Pass × MoveGen × St)
    (h1 : rootLoop pos k board pc depth tf 5000 (g.setMask M) p st = l1)
    (h2 : rootLoop pos k board pc depth tf 5000 (l1.2.1.setMask BB.full) l1.1 l1.2.2 = l2)
    (hk : l2.2.2.polls ≤ k) : F l2.1 := by
  have hst1 := rootLoop_struct pos k board pc depth tf 5000 (g.setMask M) p st
  rw [h1] at hst1
  have hst2 := rootLoop_struct pos k board pc depth tf 5000 (l1.2.1.setMask BB.full) l1.1 l1.2.2
  rw [h2] at hst2
  have hk1 : l1.2.2.polls ≤ k := Nat.le_trans hst2.1 hk
  have hp0 : (g.setMask M).promoIdx = 0 := hg
  have hg0 : Good (g.setMask M) := good_of_zero _ hp0
  have hlen0 : (mvsAt (g.setMask M)).length < 5000 := by
    rw [mvsAt_of_zero _ hp0]
    apply Entries.mvsOf_length_lt
    show (compact M g.moves).length ≤ 18
    rw [(compact_perm M g.moves).length_eq]
    exact hlen
  have hFinv := rootLoop_inv pos k board pc depth tf F (fun _ => True)
    (fun mv p st p' st' _ hj h => hF mv p st p' st' hj h)
  by_cases hmem : BB.mem M x.dest = true
  · have hx0 : x ∈ mvsAt (g.setMask M) := by
      rw [mvsAt_of_zero _ hp0]
      exact (mem_mvsOf_setMask g M x).2 ⟨hx, hmem⟩
    have hF1 := rootLoop_visit pos k board pc depth tf I F x hI hIF hF 5000 (g.setMask M) p st hg0 hx0 hlen0 hIp
      (by rw [h1]; exact hk1)
    rw [h1] at hF1
    have := hFinv 5000 (l1.2.1.setMask BB.full) l1.1 l1.2.2 (fun _ _ => trivial) hF1
    rw [h2] at this
    exact this
  · have hI1 := rootLoop_inv pos k board pc depth tf I (fun _ => True)
      (fun mv p st p' st' _ hj h => hI mv p st p' st' hj h) 5000 (g.setMask M) p st (fun _ _ => trivial) hIp
    rw [h1] at hI1
    have hpi := rootLoop_exhaust pos k board pc depth tf 5000 (g.setMask M) p st hg0 hlen0 (by rw [h1]; exact hk1)
    rw [h1] at hpi
    have hav1 : Avail l1.2.1 x := by
      apply hst1.2.2.2.2 x ((avail_setMask g M x).2 hx)
      show BB.mem M x.dest = false
      simpa using hmem
    have hp2 : (l1.2.1.setMask BB.full).promoIdx = 0 := hpi
    have hx2 : x ∈ mvsAt (l1.2.1.setMask BB.full) := by
      rw [mvsAt_of_zero _ hp2]
      exact (mem_mvsOf_setMask _ _ x).2 ⟨hav1, BB.mem_full _⟩
    have hlen2 : (mvsAt (l1.2.1.setMask BB.full)).length < 5000 := by
      rw [mvsAt_of_zero _ hp2]
      apply Entries.mvsOf_length_lt
      show (compact BB.full l1.2.1.moves).length ≤ 18
      rw [(compact_perm _ _).length_eq, hst1.2.2.1]
      show (compact M g.moves).length ≤ 18
      rw [(compact_perm M g.moves).length_eq]
      exact hlen
    have hF2 := rootLoop_visit pos k board pc depth tf I F x hI hIF hF 5000 (l1.2.1.setMask BB.full) l1.1 l1.2.2
      (good_of_zero _ hp2) hx2 hlen2 hI1 (by rw [h2]; exact hk)
    rw [h2] at hF2
    exact hF2

/-! ### the deepening loop -/

/-- the initial pass state -/
abbrev pass0 (pc : Color) : Pass := ⟨worst pc, none, .min, .max⟩

/-- one deepening pass after the "previous best move" step -/
def passTail (k : Nat) (board : Board) (pc : Color) (tf : ThreeFold) (passes depth : Nat)
    (bestMv : Option Move) (bestScore : Score) (maxDepth : Nat) (p1 : Pass) (moves : MoveGen) (st : St) :
    Result :=
  let moves := moves.setMask (board.raw.color pc.flip)
  let (p2, moves, st) := rootLoop pos k board pc depth tf 5000 moves p1 st
  let moves := moves.setMask BB.full
  let (p3, _, st) := rootLoop pos k board pc depth tf 5000 moves p2 st
  let (done, st) := poll k st
  if done then ⟨bestMv, bestScore, maxDepth, st.evals, st.polls⟩ else
  let depth' := if depth + 1 ≥ 65535 then 65535 else depth + 1
  match p3.score with
  | .blackMateIn _ | .whiteMateIn _ => ⟨p3.best, p3.score, depth, st.evals, st.polls⟩
  | _ => deepen pos k board pc tf passes depth' p3.best p3.score depth st

/-- `passTail` with the two loop results named -/
theorem passTail_eq (k : Nat) (board : Board) (pc : Color) (tf : ThreeFold) (passes depth : Nat)
    (bestMv : Option Move) (bestScore : Score) (maxDepth : Nat) (p1 : Pass) (moves : MoveGen) (st : St)
    (l1 l2 : Pass × MoveGen × St)
    (h1 : rootLoop pos k board pc depth tf 5000 (moves.setMask (board.raw.color pc.flip)) p1 st = l1)
    (h2 : rootLoop pos k board pc depth tf 5000 (l1.2.1.setMask BB.full) l1.1 l1.2.2 = l2) :
    passTail pos k board pc tf passes depth bestMv bestScore maxDepth p1 moves st =
      if l2.2.2.polls ≥ k then ⟨bestMv, bestScore, maxDepth, l2.2.2.evals, l2.2.2.polls + 1⟩
      else match l2.1.score with
        | .blackMateIn _ | .whiteMateIn _ => ⟨l2.1.best, l2.1.score, depth, l2.2.2.evals, l2.2.2.polls + 1⟩
        | _ => deepen pos k board pc tf passes (if depth + 1 ≥ 65535 then 65535 else depth + 1)
            l2.1.best l2.1.score depth ⟨l2.2.2.polls + 1, l2.2.2.evals⟩ := by
  unfold passTail
  simp only
  rw [h1]
  obtain ⟨p2, g2, st2⟩ := l1
  simp only at h2 ⊢
  rw [h2]
  obtain ⟨p3, g3, st3⟩ := l2
  simp only [poll]
  by_cases hd : st3.polls ≥ k
  · simp only [hd, decide_true, if_true]
  · simp only [hd, decide_false, Bool.false_eq_true, if_false]

theorem deepen_none (k : Nat) (board : Board) (pc : Color) (tf : ThreeFold) (passes depth : Nat)
    (bestScore : Score) (maxDepth : Nat) (st : St) :
    deepen pos k board pc tf (passes + 1) depth none bestScore maxDepth st =
      passTail pos k board pc tf passes depth none bestScore maxDepth (pass0 pc) (MoveGen.legals board) st := by
  rw [deepen.eq_3]
  unfold passTail pass0
  simp only [Bool.false_eq_true, if_false]
  generalize rootLoop pos k board pc depth tf 5000 (MoveGen.setMask _ BB.full) _ _ = l2
  generalize hs : l2.1.score = s
  cases s <;> rfl

theorem deepen_some (k : Nat) (board : Board) (pc : Color) (tf : ThreeFold) (passes depth : Nat)
    (mv : Move) (bestScore : Score) (maxDepth : Nat) (st : St) :
    deepen pos k board pc tf (passes + 1) depth (some mv) bestScore maxDepth st =
      match rootMove pos k board pc depth tf mv (pass0 pc) st with
      | (none, st') => ⟨some mv, bestScore, maxDepth, st'.evals, st'.polls⟩
      | (some p, st') =>
        passTail pos k board pc tf passes depth (some mv) bestScore maxDepth p
          ((MoveGen.legals board).removeMove mv).1 st' := by
  rw [deepen.eq_2]
  cases hr : rootMove pos k board pc depth tf mv (pass0 pc) st with
  | mk op st' =>
    cases op with
    | none => rfl
    | some p => rfl

/-- invariant principle for the deepening loop: `I` relates the best move and score carried from
pass to pass, `PI` is an invariant of the pass state -/
theorem deepen_inv (k : Nat) (board : Board) (pc : Color) (tf : ThreeFold)
    (I : Option Move → Score → Prop) (PI : Pass → Prop)
    (hpre0 : ∀ s, I none s → PI (pass0 pc))
    (hpre1 : ∀ mv s depth st p' st', I (some mv) s →
      rootMove pos k board pc depth tf mv (pass0 pc) st = (some p', st') → PI p')
    (hloop : ∀ depth n g p st, (∀ x, Avail g x → Avail (MoveGen.legals board) x) → PI p →
      PI (rootLoop pos k board pc depth tf n g p st).1)
    (hfin : ∀ p, PI p → I p.best p.score) :
    ∀ passes depth bestMv bestScore maxDepth st, I bestMv bestScore →
      I (deepen pos k board pc tf passes depth bestMv bestScore maxDepth st).move
        (deepen pos k board pc tf passes depth bestMv bestScore maxDepth st).score := by
  intro passes
  induction passes with
  | zero =>
    intro depth bestMv bestScore maxDepth st hI
    rw [deepen.eq_1]
    exact hI
  | succ passes ih =>
    have tail : ∀ depth bestMv bestScore maxDepth p1 moves st, I bestMv bestScore → PI p1 →
        (∀ x, Avail moves x → Avail (MoveGen.legals board) x) →
        I (passTail pos k board pc tf passes depth bestMv bestScore maxDepth p1 moves st).move
          (passTail pos k board pc tf passes depth bestMv bestScore maxDepth p1 moves st).score := by
      intro depth bestMv bestScore maxDepth p1 moves st hI hP hsub
      rw [passTail_eq pos k board pc tf passes depth bestMv bestScore maxDepth p1 moves st _ _ rfl rfl]
      have h1 := hloop depth 5000 (moves.setMask (board.raw.color pc.flip)) p1 st
        (fun x h => hsub x ((avail_setMask _ _ x).1 h)) hP
      have hs1 := (rootLoop_struct pos k board pc depth tf 5000 (moves.setMask (board.raw.color pc.flip)) p1 st).2.2.2.1
      generalize rootLoop pos k board pc depth tf 5000 (moves.setMask (board.raw.color pc.flip)) p1 st = l1 at h1 hs1 ⊢
      have h2 := hloop depth 5000 (l1.2.1.setMask BB.full) l1.1 l1.2.2
        (fun x h => hsub x ((avail_setMask _ _ x).1 (hs1 x ((avail_setMask _ _ x).1 h)))) h1
      generalize rootLoop pos k board pc depth tf 5000 (l1.2.1.setMask BB.full) l1.1 l1.2.2 = l2 at h2 ⊢
      split
      · exact hI
      · have hf := hfin _ h2
        split
        · exact hf
        · exact hf
        · exact ih _ _ _ _ _ hf
    intro depth bestMv bestScore maxDepth st hI
    cases bestMv with
    | none =>
      rw [deepen_none]
      exact tail depth none bestScore maxDepth _ _ st hI (hpre0 _ hI) (fun _ h => h)
    | some mv =>
      rw [deepen_some]
      cases hr : rootMove pos k board pc depth tf mv (pass0 pc) st with
      | mk op st' =>
        cases op with
        | none => exact hI
        | some p =>
          simp only
          exact tail depth (some mv) bestScore maxDepth p _ st' hI (hpre1 mv _ depth st p st' hI hr)
            (fun x h => avail_removeMove _ mv x h)

end Chess.Proofs.Search
