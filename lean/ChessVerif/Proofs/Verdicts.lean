/-
Truthfulness of what the two game loops SAY about a game — the command line (`Model/Cli.lean`: "WIN",
"DRAW (NO LEGAL MOVES)", "DRAW (MATERIAL)") and the referee (`Model/Referee.lean`: the draw verdict) — whatever the clock
does.  Corollaries of C11 (`search_legal`, `search_some`), C02 (`move_WF`) and C03 (`isEmpty_iff`, `inCheck_iff`, `state_eq`).
-/
import ChessVerif.Proofs.CliGame
import ChessVerif.Proofs.Referee

namespace Chess.Cli
open Chess Chess.Engine Chess.Spec

/-- one turn of the game loop from a well-formed board -/
theorem gameLoop_step (fuel : Nat) (b : Board) (hwf : b.WF = true) (tf : ThreeFold) (prev : Nat) (k : Nat) (ks : List Nat) :
    ((search false b tf k prev).move = none ∧ gameLoop (fuel + 1) b tf prev (k :: ks) = .ok (.noMove, b)) ∨
    ∃ (mv : Move), b.isLegal mv = true ∧
      (gameLoop (fuel + 1) b tf prev (k :: ks) = .ok (.threeFold, b.moveUnchecked mv) ∨
       ((MoveGen.legals (b.moveUnchecked mv)).isEmpty = true ∧ (b.moveUnchecked mv).inCheck = true ∧
         gameLoop (fuel + 1) b tf prev (k :: ks) = .ok (.win, b.moveUnchecked mv)) ∨
       ((MoveGen.legals (b.moveUnchecked mv)).isEmpty = true ∧ (b.moveUnchecked mv).inCheck = false ∧
         gameLoop (fuel + 1) b tf prev (k :: ks) = .ok (.noLegalMoves, b.moveUnchecked mv)) ∨
       ((MoveGen.legals (b.moveUnchecked mv)).isEmpty = false ∧
         ∃ (tf' : ThreeFold) (prev' : Nat),
           gameLoop (fuel + 1) b tf prev (k :: ks) = gameLoop fuel (b.moveUnchecked mv) tf' prev' ks)) := by
  rw [gameLoop]
  simp only []
  cases hm : (search false b tf k prev).move with
  | none => exact .inl ⟨rfl, rfl⟩
  | some mv =>
    simp only []
    have hmem := Proofs.Search.search_legal false b tf k prev mv hm
    have hl : b.isLegal mv = true := by
      rw [Props.C01.isLegal_iff, Proofs.IterMask.legalsList_eq b hwf]
      exact hmem
    have hnew : b.moveNew mv = some (b.moveUnchecked mv) := by simp [Board.moveNew, hl]
    rw [hnew]
    simp only []
    refine .inr ⟨mv, hl, ?_⟩
    split
    · exact .inl rfl
    · cases he : (MoveGen.legals (b.moveUnchecked mv)).isEmpty with
      | true =>
        cases hc : (b.moveUnchecked mv).inCheck with
        | true => exact .inr (.inl ⟨rfl, rfl, by simp⟩)
        | false => exact .inr (.inr (.inl ⟨rfl, rfl, by simp⟩))
      | false => exact .inr (.inr (.inr ⟨rfl, (tf.add (b.moveUnchecked mv)).1, (search false b tf k prev).maxDepth, by simp⟩))

theorem gameLoop_reachable' (fuel : Nat) (b₀ b : Board) (hr : Board.Reachable b₀ b) (hwf : b.WF = true) (tf : ThreeFold)
    (prev : Nat) (ks : List Nat) (o : Outcome) (b' : Board) (h : gameLoop fuel b tf prev ks = .ok (o, b')) :
    Board.Reachable b₀ b' := by
  induction fuel generalizing b tf prev ks with
  | zero => simp [gameLoop] at h; rw [← h.2]; exact hr
  | succ fuel ih =>
    cases ks with
    | nil => simp [gameLoop] at h; rw [← h.2]; exact hr
    | cons k ks =>
      rcases gameLoop_step fuel b hwf tf prev k ks with ⟨_, e⟩ | ⟨mv, hl, e | ⟨_, _, e⟩ | ⟨_, _, e⟩ | ⟨_, tf', prev', e⟩⟩
      · rw [e] at h; simp at h; rw [← h.2]; exact hr
      · rw [e] at h; simp at h; rw [← h.2]; exact .step mv hr hl
      · rw [e] at h; simp at h; rw [← h.2]; exact .step mv hr hl
      · rw [e] at h; simp at h; rw [← h.2]; exact .step mv hr hl
      · rw [e] at h
        exact ih _ (.step mv hr hl) (Legal.move_WF b hwf mv hl) _ _ _ h

/-- the game the command line plays is a sequence of legal moves: the board it ends on is reachable from the one it started on -/
theorem gameLoop_reachable (fuel : Nat) (b : Board) (hwf : b.WF = true) (tf : ThreeFold) (prev : Nat) (ks : List Nat)
    (o : Outcome) (b' : Board) (h : gameLoop fuel b tf prev ks = .ok (o, b')) : Board.Reachable b b' :=
  gameLoop_reachable' fuel b b .refl hwf tf prev ks o b' h

/-- … and stays well formed -/
theorem gameLoop_WF (fuel : Nat) (b : Board) (hwf : b.WF = true) (tf : ThreeFold) (prev : Nat) (ks : List Nat)
    (o : Outcome) (b' : Board) (h : gameLoop fuel b tf prev ks = .ok (o, b')) : b'.WF = true :=
  Legal.reachable_WF b b' hwf (gameLoop_reachable fuel b hwf tf prev ks o b' h)

/-- **"WIN" is only printed on a checkmate by the rules** -/
theorem gameLoop_win (fuel : Nat) (b : Board) (hwf : b.WF = true) (tf : ThreeFold) (prev : Nat) (ks : List Nat)
    (b' : Board) (h : gameLoop fuel b tf prev ks = .ok (.win, b')) : (abs b').classify = .checkMate := by
  induction fuel generalizing b tf prev ks with
  | zero => simp [gameLoop] at h
  | succ fuel ih =>
    cases ks with
    | nil => simp [gameLoop] at h
    | cons k ks =>
      rcases gameLoop_step fuel b hwf tf prev k ks with ⟨_, e⟩ | ⟨mv, hl, e | ⟨he, hc, e⟩ | ⟨_, _, e⟩ | ⟨_, tf', prev', e⟩⟩
      · rw [e] at h; simp at h
      · rw [e] at h; simp at h
      · rw [e] at h; simp at h; subst h
        have hwf' := Legal.move_WF b hwf mv hl
        have h1 := Props.C03.isEmpty_iff _ hwf'
        have h2 := Props.C03.inCheck_iff _ hwf'
        rw [he] at h1; rw [hc] at h2
        have ht : (abs (b.moveUnchecked mv)).turn = (b.moveUnchecked mv).turn := rfl
        unfold Position.classify
        simp only [← h1, ht, ← h2, if_true]
      · rw [e] at h; simp at h
      · rw [e] at h
        exact ih _ (Legal.move_WF b hwf mv hl) _ _ _ h

/-- **"DRAW (NO LEGAL MOVES)" is only printed on a stalemate by the rules** -/
theorem gameLoop_noLegalMoves (fuel : Nat) (b : Board) (hwf : b.WF = true) (tf : ThreeFold) (prev : Nat) (ks : List Nat)
    (b' : Board) (h : gameLoop fuel b tf prev ks = .ok (.noLegalMoves, b')) :
    (abs b').legalMoves = [] ∧ (abs b').inCheck b'.turn = false := by
  induction fuel generalizing b tf prev ks with
  | zero => simp [gameLoop] at h
  | succ fuel ih =>
    cases ks with
    | nil => simp [gameLoop] at h
    | cons k ks =>
      rcases gameLoop_step fuel b hwf tf prev k ks with ⟨_, e⟩ | ⟨mv, hl, e | ⟨_, _, e⟩ | ⟨he, hc, e⟩ | ⟨_, tf', prev', e⟩⟩
      · rw [e] at h; simp at h
      · rw [e] at h; simp at h
      · rw [e] at h; simp at h
      · rw [e] at h; simp at h; subst h
        have hwf' := Legal.move_WF b hwf mv hl
        have h1 := Props.C03.isEmpty_iff _ hwf'
        have h2 := Props.C03.inCheck_iff _ hwf'
        rw [he] at h1; rw [hc] at h2
        exact ⟨List.isEmpty_iff.mp h1.symm, h2.symm⟩
      · rw [e] at h
        exact ih _ (Legal.move_WF b hwf mv hl) _ _ _ h

theorem gameLoop_noMove' (fuel : Nat) (b : Board) (hwf : b.WF = true) (he : (MoveGen.legals b).isEmpty = false)
    (tf : ThreeFold) (prev : Nat) (ks : List Nat) (b' : Board) (h : gameLoop fuel b tf prev ks = .ok (.noMove, b')) :
    ∃ k ∈ ks, ∃ tf' : ThreeFold, Proofs.Search.firstPassFinished false b' tf' k = false := by
  induction fuel generalizing b tf prev ks with
  | zero => simp [gameLoop] at h
  | succ fuel ih =>
    cases ks with
    | nil => simp [gameLoop] at h
    | cons k ks =>
      rcases gameLoop_step fuel b hwf tf prev k ks with ⟨hn, e⟩ | ⟨mv, hl, e | ⟨_, _, e⟩ | ⟨_, _, e⟩ | ⟨he', tf', prev', e⟩⟩
      · rw [e] at h; simp at h; subst h
        refine ⟨k, List.mem_cons_self, tf, ?_⟩
        cases hf : Proofs.Search.firstPassFinished false b tf k with
        | false => rfl
        | true =>
          have := Proofs.Search.search_some false b tf k prev hf he
          rw [hn] at this
          cases this
      · rw [e] at h; simp at h
      · rw [e] at h; simp at h
      · rw [e] at h; simp at h
      · rw [e] at h
        obtain ⟨k', hk', tf'', hf⟩ := ih _ (Legal.move_WF b hwf mv hl) he' _ _ _ h
        exact ⟨k', List.mem_cons_of_mem _ hk', tf'', hf⟩

/-- **"DRAW (MATERIAL)"** — the program's word for "the search returned no move" — is printed only when the position it was
started on had no legal move (the loop tests for game end only after a move), or when a search was cut short before its first
deepening pass finished -/
theorem gameLoop_noMove (fuel : Nat) (b : Board) (hwf : b.WF = true) (tf : ThreeFold) (prev : Nat) (ks : List Nat)
    (b' : Board) (h : gameLoop fuel b tf prev ks = .ok (.noMove, b')) :
    (b' = b ∧ (abs b).legalMoves = []) ∨
    ∃ k ∈ ks, ∃ tf' : ThreeFold, Proofs.Search.firstPassFinished false b' tf' k = false := by
  cases hlm : (abs b).legalMoves with
  | nil =>
    cases fuel with
    | zero => simp [gameLoop] at h
    | succ fuel =>
      cases ks with
      | nil => simp [gameLoop] at h
      | cons k ks =>
        rcases gameLoop_step fuel b hwf tf prev k ks with ⟨_, e⟩ | ⟨mv, hl, _⟩
        · rw [e] at h; simp at h; subst h
          exact .inl ⟨rfl, rfl⟩
        · exfalso
          rw [Props.C01.isLegal_iff_spec b hwf] at hl
          have := (Props.C03.mem_legalMoves_iff _ mv).2 hl
          rw [hlm] at this
          cases this
  | cons m l =>
    have he : (MoveGen.legals b).isEmpty = false := by rw [Props.C03.isEmpty_iff b hwf, hlm]; rfl
    exact .inr (gameLoop_noMove' fuel b hwf he tf prev ks b' h)

end Chess.Cli

namespace Chess.Referee
open Chess Chess.Engine Chess.Spec

/-- one turn from a well-formed board, with the reason of a draw verdict -/
theorem loop_step_stale (fuel : Nat) (s : Bot.State) (hwf : s.board.WF = true) (ms : List Move) (k : Nat) (ks : List Nat) :
    (∃ w, loop (fuel + 1) s s ms (k :: ks) = ⟨.didntMove w, s, s, ms⟩) ∨
    ∃ (mv : Move) (s' : Bot.State), s.board.isLegal mv = true ∧ s'.board = s.board.moveUnchecked mv ∧
      ((loop (fuel + 1) s s ms (k :: ks) = ⟨.staleMate, s', s', ms ++ [mv]⟩ ∧
         (Bot.makeMove s mv = (s', ⟨true, true⟩) ∨ s'.board.state = .staleMate)) ∨
       (∃ w, loop (fuel + 1) s s ms (k :: ks) = ⟨.checkMate w, s', s', ms ++ [mv]⟩) ∨
       loop (fuel + 1) s s ms (k :: ks) = loop fuel s' s' (ms ++ [mv]) ks) := by
  simp only [loop, ite_self]
  cases hm : (Bot.evaluate s k).move with
  | none => exact .inl ⟨_, rfl⟩
  | some mv =>
    have hmem := Proofs.Search.search_legal false s.board s.table k 0 mv hm
    have hl : s.board.isLegal mv = true := by
      rw [Props.C01.isLegal_iff, Proofs.IterMask.legalsList_eq s.board hwf]
      exact hmem
    have hmk : (Bot.makeMove s mv).1.board = s.board.moveUnchecked mv := by simp [Bot.makeMove, hl]
    have hv : (Bot.makeMove s mv).2.isValid = true := by simp [Bot.makeMove, hl]
    refine .inr ⟨mv, (Bot.makeMove s mv).1, hl, hmk, ?_⟩
    simp only []
    split
    · next h3 =>
      refine .inl ⟨rfl, .inl ?_⟩
      revert hv h3
      generalize Bot.makeMove s mv = r
      obtain ⟨s1, ⟨v, f⟩⟩ := r
      intro hv h3
      simp at hv h3
      subst hv; subst h3; rfl
    · cases hst : (Bot.makeMove s mv).1.board.state with
      | checkMate => exact .inr (.inl ⟨_, rfl⟩)
      | staleMate => exact .inl ⟨rfl, .inr rfl⟩
      | check => exact .inr (.inr rfl)
      | running => exact .inr (.inr rfl)

/-- **a draw is only declared after a move, and only for a reason**: the plugin raised its threefold flag on that move, or the
position reached is a draw by `Board::state` — no legal move and no check, or a hundred half-moves without progress -/
theorem loop_staleMate (fuel : Nat) (s : Bot.State) (hwf : s.board.WF = true) (ms : List Move) (ks : List Nat)
    (h : (loop fuel s s ms ks).result = .staleMate) :
    (loop fuel s s ms ks).moves ≠ ms ∧
    ((abs (loop fuel s s ms ks).a.board).classify = .staleMate ∨
     ∃ (pre : Bot.State) (mv : Move), Bot.makeMove pre mv = ((loop fuel s s ms ks).a, ⟨true, true⟩)) := by
  induction fuel generalizing s ms ks with
  | zero => simp [loop] at h
  | succ fuel ih =>
    cases ks with
    | nil => simp [loop] at h
    | cons k ks =>
      rcases loop_step_stale fuel s hwf ms k ks with ⟨w, e⟩ | ⟨mv, s', hl, hb, ⟨e, hd⟩ | ⟨w, e⟩ | e⟩
      · rw [e] at h; cases h
      · have hwf' : s'.board.WF = true := by rw [hb]; exact Legal.move_WF _ hwf mv hl
        rw [e]
        refine ⟨by simp, ?_⟩
        rcases hd with hd | hd
        · exact .inr ⟨s, mv, hd⟩
        · left
          have := Props.C03.state_eq s'.board hwf'
          rw [hd] at this
          exact this.symm
      · rw [e] at h; cases h
      · have hwf' : s'.board.WF = true := by rw [hb]; exact Legal.move_WF _ hwf mv hl
        rw [e] at h ⊢
        refine ⟨?_, (ih s' hwf' _ _ h).2⟩
        obtain ⟨new, h1, _, _⟩ := loop_moves fuel s' hwf' (ms ++ [mv]) ks
        rw [h1]
        intro hc
        have := congrArg List.length hc
        simp at this

theorem game_staleMate (ks : List Nat) (h : (game ks).result = .staleMate) :
    (game ks).moves ≠ [] ∧
    ((abs (game ks).a.board).classify = .staleMate ∨
     ∃ (pre : Bot.State) (mv : Move), Bot.makeMove pre mv = ((game ks).a, ⟨true, true⟩)) :=
  loop_staleMate _ _ Legal.standard_WF _ _ h

end Chess.Referee
