/-
C01 — Generated moves are exactly the legal moves of chess.

Model: `Board.collectMoves` / `MoveGen` (the generator after the `fix:` commits);
specification: `Spec.Position.legal` on the mailbox `abs b` (`Spec/Rules.lean`: pseudo-legality by
stepping over squares, then "the mover's king is not attacked in the successor").
The proofs live in `Proofs/Legal/*.lean` (geometry of rays and segments, attacks on the mailbox,
meaning of the pin/check information, the three check regimes, the line test for pinned pieces,
king steps, castling, en passant, assembly); this file holds the property theorems only.
-/
import ChessVerif.Proofs.Legal.Reach

namespace Chess.Props.C01
open Chess Chess.Spec

/-- **C01 (set equality).** On every well-formed board the move generator yields exactly the moves
that are legal under the rules of chess: every legal move — castling, en passant, each of the four
promotion choices, every check evasion — and no move that leaves the mover's own king attacked. -/
theorem legals_iff (b : Board) (h : b.WF = true) (m : Move) :
    m ∈ b.legalsList ↔ (abs b).legal m = true := Legal.legals_iff b h m

/-- **C01 (each exactly once).** -/
theorem legals_nodup (b : Board) (h : b.WF = true) : b.legalsList.Nodup := Legal.legals_nodup b h

/-- **C01 (single-move query).** Asking whether a single given move is legal gives the same answer. -/
theorem isLegal_iff_spec (b : Board) (h : b.WF = true) (m : Move) :
    b.isLegal m = (abs b).legal m := Legal.isLegal_iff_spec b h m

/-- `is_legal` is membership in what the generator yields (by definition of `Board::is_legal`) -/
theorem isLegal_iff (b : Board) (m : Move) : b.isLegal m = true ↔ m ∈ b.legalsList := by
  simp [Board.isLegal]

/-- the checked move accepts exactly the generated moves -/
theorem moveNew_isSome (b : Board) (m : Move) : (b.moveNew m).isSome = b.isLegal m := by
  unfold Board.moveNew; split <;> simp [*]

/-- per piece class (what `collect_moves` pushes for each of the six piece types denotes exactly
the legal moves of the pieces of that type) -/
theorem generic_iff (b : Board) (h : b.WF = true) (pc : Piece)
    (hpc : pc = .knight ∨ pc = .bishop ∨ pc = .rook ∨ pc = .queen) (m : Move) :
    Legal.InEntries (Legal.genericList b pc) m ↔ ((abs b).pieceAt m.source = some (b.turn, pc) ∧ (abs b).legal m = true) :=
  Legal.generic_iff b h pc hpc m
theorem pawn_iff (b : Board) (h : b.WF = true) (m : Move) :
    Legal.InEntries (Legal.pawnList b) m ↔ ((abs b).pieceAt m.source = some (b.turn, .pawn) ∧ (abs b).legal m = true) :=
  Legal.pawn_iff b h m
theorem king_iff (b : Board) (h : b.WF = true) (m : Move) :
    Legal.InEntries (Legal.kingList b) m ↔ ((abs b).pieceAt m.source = some (b.turn, .king) ∧ (abs b).legal m = true) :=
  Legal.king_iff b h m

/-- the hypotheses are satisfiable and the parser establishes them: every board `parse_fen` returns
is well-formed (C06), so the three theorems above hold for every position the parser accepts -/
theorem legals_iff_parsed (s : List Byte) (b : Board) (hp : Fen.parseFen s = .ok b) (m : Move) :
    m ∈ b.legalsList ↔ (abs b).legal m = true := legals_iff b (C06.parse_WF s b hp) m

/-- **C01 for every position reachable by legal play from the standard start** (castling rights and
the en-passant marker are history-dependent; well-formedness is an invariant of legal play) -/
theorem legals_iff_reachable_standard (b : Board) (hr : Board.Reachable Board.standard b) (m : Move) :
    m ∈ b.legalsList ↔ (abs b).legal m = true := Legal.legals_iff_reachable_standard b hr m

/-- **… and from any position the parser accepts** -/
theorem legals_iff_reachable_parsed (s : List Byte) (b₀ b : Board) (hp : Fen.parseFen s = .ok b₀)
    (hr : Board.Reachable b₀ b) (m : Move) :
    m ∈ b.legalsList ↔ (abs b).legal m = true := Legal.legals_iff_reachable_parsed s b₀ b hp hr m

theorem legals_nodup_reachable (b₀ b : Board) (h₀ : b₀.WF = true) (hr : Board.Reachable b₀ b) :
    b.legalsList.Nodup := Legal.legals_nodup_reachable b₀ b h₀ hr

theorem isLegal_iff_spec_reachable (b₀ b : Board) (h₀ : b₀.WF = true) (hr : Board.Reachable b₀ b) (m : Move) :
    b.isLegal m = (abs b).legal m := Legal.isLegal_iff_spec_reachable b₀ b h₀ hr m

/-- every reachable board is well-formed -/
theorem reachable_WF (b₀ b : Board) (h₀ : b₀.WF = true) (hr : Board.Reachable b₀ b) : b.WF = true :=
  Legal.reachable_WF b₀ b h₀ hr

set_option maxRecDepth 1000000 in
/-- Non-vacuity (tests, by kernel evaluation): the start position is well-formed and has 20 moves -/
example : Board.standard.WF = true ∧ Board.standard.legalsList.length = 20 := by decide +kernel

end Chess.Props.C01
