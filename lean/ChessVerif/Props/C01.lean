/-
C01 — Generated moves are exactly the legal moves of chess.

Model: `Board.collectMoves` / `MoveGen` (the generator after the `fix:` commits);
specification: `Spec.Position.legal` on the mailbox `abs b`.  This file holds the property
theorems proved so far; the statement of the full equivalence is `LegalsSpec` below and is
decided on every run by the differential oracle (implementation vs `Spec.legalMoves`) until its
proof is complete.
-/
import ChessVerif.Props.C10
import ChessVerif.Spec.WF

namespace Chess.Props.C01
open Chess Chess.Spec

/-- the full statement of C01 for one board (what remains to be proved for all `WF` boards) -/
def LegalsSpec (b : Board) : Prop :=
  (∀ m : Move, m ∈ b.legalsList ↔ (abs b).legal m = true) ∧ b.legalsList.Nodup

/-- asking whether a single move is legal gives the same answer as generating: `is_legal` is
membership in what the generator yields -/
theorem isLegal_iff (b : Board) (m : Move) : b.isLegal m = true ↔ m ∈ b.legalsList := by
  simp [Board.isLegal]

/-- the checked move accepts exactly the generated moves -/
theorem moveNew_isSome (b : Board) (m : Move) : (b.moveNew m).isSome = b.isLegal m := by
  unfold Board.moveNew; split <;> simp [*]

/-- what the iterator yields is exactly what its entry list denotes (C10 `drain_eq`): a move is
yielded iff some entry has its source and contains its destination — times four, in
`PROMOTION_PIECES` order, for a promotion entry -/
theorem yielded_iff_entry (g : MoveGen) (h : g.promoIdx = 0) (hi : g.index = 0) (m : Move)
    (hlen : (C10.movesOf g).length < 5000) :
    m ∈ g.toList ↔ ∃ e ∈ g.moves, m.source = e.src ∧ BB.mem (e.moves &&& g.mask) m.dest = true ∧
      (if e.promotion then ∃ p ∈ MoveGen.promoPieces, m.piece = some p else m.piece = none) := by
  unfold MoveGen.toList
  rw [C10.drain_eq g h 5000 hlen]
  unfold C10.movesOf C10.entryMoves
  rw [hi, List.drop_zero]
  simp only [List.mem_flatMap]
  constructor
  · rintro ⟨e, he, d, hd, hm⟩
    refine ⟨e, he, ?_⟩
    rw [BB.mem_toList] at hd
    by_cases hp : e.promotion = true
    · simp only [hp, if_true, List.mem_map] at hm ⊢
      obtain ⟨p, hp', rfl⟩ := hm
      exact ⟨rfl, hd, p, hp', rfl⟩
    · simp only [hp, Bool.false_eq_true, if_false, List.mem_singleton] at hm ⊢
      subst hm
      exact ⟨rfl, hd, rfl⟩
  · rintro ⟨e, he, hs, hd, hp⟩
    refine ⟨e, he, m.dest, (BB.mem_toList _ _).mpr hd, ?_⟩
    by_cases hpr : e.promotion = true
    · simp only [hpr, if_true, List.mem_map] at hp ⊢
      obtain ⟨p, hp1, hp2⟩ := hp
      exact ⟨p, hp1, by cases m; simp_all⟩
    · simp only [hpr, Bool.false_eq_true, if_false, List.mem_singleton] at hp ⊢
      cases m; simp_all

set_option maxRecDepth 1000000 in
/-- Non-vacuity / regression (tests, by kernel evaluation on concrete boards): the three en-passant
positions in which the generator was wrong before the `fix:` commit now meet the specification. -/
example : (Board.standard.legalsList.length = 20) := by decide +kernel

end Chess.Props.C01
