/-
C02 — Applying a legal move yields the correct successor position.

`Props/C02/Basic.lean` holds the field-level theorems that need no hypothesis (side to move, clocks,
marker, rights masks, refusal of illegal moves).  This file states the property itself: for every
well-formed board — hence for every position reachable by legal play from the standard start or
from any parsed position — the checked move operations accept exactly the legal moves, and the
successor, read as a mailbox position, is exactly the position the rules prescribe
(`Spec.Position.apply`: rook hop of castling, removal of the pawn captured en passant, promoted
piece, side to move, rights, marker, clocks).
-/
import ChessVerif.Props.C02.Basic
import ChessVerif.Proofs.Legal.Reach

namespace Chess.Props.C02
open Chess Chess.Spec

/-- **C02.** If the checked move returns a successor then the move is legal under the rules, the
successor is again well-formed, and it *is* the position the rules prescribe (clock values below
the 16-bit limit). -/
theorem moveNew_abs (b b' : Board) (h : b.WF = true) (m : Move) (hh : b.half < 65535) (hf : b.full < 65535)
    (hm : b.moveNew m = some b') :
    (abs b).legal m = true ∧ b'.WF = true ∧ abs b' = (abs b).apply m :=
  Legal.moveNew_abs b b' h m hh hf hm

/-- the checked move refuses exactly the illegal moves (and then returns nothing: the board is untouched) -/
theorem moveNew_none_iff (b : Board) (h : b.WF = true) (m : Move) :
    b.moveNew m = none ↔ (abs b).legal m = false := Legal.moveNew_none_iff b h m

/-- piece placement of the successor for every pseudo-legal move of every kind -/
theorem move_placement (b : Board) (h : b.WF = true) (m : Move) (κ : Position.Kind)
    (hps : (abs b).pseudo m = some κ) (s : Sq) :
    pieceOn (b.moveUnchecked m).raw s = ((abs b).applyKind m κ).pieceAt s := Legal.move_placement b h m κ hps s

/-- all six components of the successor -/
theorem move_abs (b : Board) (h : b.WF = true) (m : Move) (κ : Position.Kind)
    (hps : (abs b).pseudo m = some κ) (hh : b.half < 65535) (hf : b.full < 65535) :
    let q := (abs b).applyKind m κ
    let a := abs (b.moveUnchecked m)
    a.pieceAt = q.pieceAt ∧ a.turn = q.turn ∧ (∀ sd c, a.rights sd c = q.rights sd c) ∧
    a.ep = q.ep ∧ a.half = q.half ∧ a.full = q.full := Legal.move_abs b h m κ hps hh hf

/-- well-formedness is preserved by every legal move … -/
theorem move_WF (b : Board) (h : b.WF = true) (m : Move) (hl : b.isLegal m = true) :
    (b.moveUnchecked m).WF = true := Legal.move_WF b h m hl

/-- … so the statements above hold along every legal game from the standard start … -/
theorem moveNew_abs_reachable_standard (b b' : Board) (hr : Board.Reachable Board.standard b)
    (m : Move) (hh : b.half < 65535) (hf : b.full < 65535) (hm : b.moveNew m = some b') :
    (abs b).legal m = true ∧ Board.Reachable Board.standard b' ∧ abs b' = (abs b).apply m :=
  Legal.moveNew_abs_reachable_standard b b' hr m hh hf hm

/-- … and from every position the parser accepts -/
theorem moveNew_abs_reachable_parsed (s : List Byte) (b₀ b b' : Board) (hp : Fen.parseFen s = .ok b₀)
    (hr : Board.Reachable b₀ b) (m : Move) (hh : b.half < 65535) (hf : b.full < 65535)
    (hm : b.moveNew m = some b') :
    (abs b).legal m = true ∧ Board.Reachable b₀ b' ∧ abs b' = (abs b).apply m :=
  Legal.moveNew_abs_reachable_parsed s b₀ b b' hp hr m hh hf hm

end Chess.Props.C02
