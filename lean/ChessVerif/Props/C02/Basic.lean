/-
C02 — Applying a legal move yields the correct successor position.

`Board.moveUnchecked` is the line-by-line model of `move_unchecked_into`; `Spec.Position.applyKind`
is the successor the rules prescribe on the mailbox.  `abs` reads a model board as a mailbox.
-/
import ChessVerif.Proofs.MoveAbs

namespace Chess.Props.C02
open Chess Chess.Spec

/-! ### the checked operations accept exactly the legal moves and leave the board untouched otherwise -/

theorem moveNew_legal (b : Board) (m : Move) (h : b.isLegal m = true) :
    b.moveNew m = some (b.moveUnchecked m) := by simp [Board.moveNew, h]
theorem moveNew_illegal (b : Board) (m : Move) (h : b.isLegal m = false) : b.moveNew m = none := by
  simp [Board.moveNew, h]

/-! ### side to move, clocks, marker, rights — for every board and move (no hypothesis) -/

/-- the side to move flips -/
theorem move_turn (b : Board) (m : Move) : (b.moveUnchecked m).turn = b.turn.flip := by
  rw [Board.moveUnchecked_eq, Board.mvScan_turn, Board.mvSpecial_turn, Board.mvBase_turn]

/-- full-move number: +1 after Black moves (saturating at the 16-bit limit) -/
theorem move_full (b : Board) (m : Move) :
    (b.moveUnchecked m).full = satAdd16 b.full (match b.turn with | .white => 0 | .black => 1) := by
  rw [Board.moveUnchecked_eq, Board.mvScan_full, Board.mvSpecial_full, Board.mvBase_full]
  cases b.turn <;> rfl

/-- half-move clock: reset by pawn moves and captures, otherwise +1 (saturating) -/
theorem move_half (b : Board) (m : Move) :
    (b.moveUnchecked m).half =
      if b.raw.pieceOfUnchecked m.source = .pawn ∨ (b.raw.pieceOf m.dest).isSome then 0
      else satAdd16 b.half 1 := by
  rw [Board.moveUnchecked_eq, Board.mvScan_half, Board.mvSpecial_half, Board.mvBase_half]
  by_cases h1 : b.raw.pieceOfUnchecked m.source = .pawn <;>
    by_cases h2 : (b.raw.pieceOf m.dest).isSome = true <;> simp [h1, h2]

/-- castling rights: the per-square masks of the destination (opponent's rights) and of the source
(own rights) are applied, nothing else -/
theorem move_castle (b : Board) (m : Move) :
    (b.moveUnchecked m).castle =
      Castle.removeForSq (Castle.removeForSq b.castle b.turn.flip m.dest) b.turn m.source := by
  rw [Board.moveUnchecked_eq, Board.mvScan_castle, Board.mvSpecial_castle, Board.mvBase_castle]

/-- en-passant marker: set on, and only on, a non-promoting pawn move whose source and destination
both lie on the mover's double-step ranks (`PAWN_DOUBLE_MOVE`) -/
theorem move_ep (b : Board) (m : Move) :
    (b.moveUnchecked m).ep =
      if b.raw.pieceOfUnchecked m.source = .pawn ∧ m.piece = none ∧
         ((BB.ofSq m.source ^^^ BB.ofSq m.dest) &&& Lookup.pawnDoubleMove b.turn) = (BB.ofSq m.source ^^^ BB.ofSq m.dest)
      then some m.dest.file else none := by
  rw [Board.moveUnchecked_eq, Board.mvScan_ep, Board.mvSpecial_ep, Board.mvBase_ep]

set_option maxRecDepth 100000 in
/-- the per-square right masks (translated grid) are exactly: a1/h1/e1 clear White's Q/K/both,
a8/h8/e8 clear Black's, every other square clears nothing -/
theorem castle_grid : ∀ (c : Color) (s : Sq) (cr : Fin 16),
    Castle.removeForSq cr.val c s =
      cr.val &&& (match c, s.val with
        | .white, 0 => 13 | .white, 7 => 14 | .white, 4 => 12
        | .black, 56 => 7 | .black, 63 => 11 | .black, 60 => 3
        | _, _ => 15) := by
  intro c
  cases c
  · decide +kernel
  · decide +kernel

/-! ### piece placement: the mailbox of the successor is the one the rules prescribe -/

/-- quiet moves and plain captures of every piece type except pawn special cases and castling:
on a board whose sets form a partition, if the source holds a piece of the mover and the destination
holds no piece of the mover, the successor's mailbox is "source emptied, destination holds the mover" -/
theorem move_placement_simple (b : Board) (m : Move) (c : Color) (p : Piece)
    (hpart : b.raw.partitionOk = true)
    (hsrc : pieceOn b.raw m.source = some (c, p)) (hturn : b.turn = c)
    (hdst : ∀ q, pieceOn b.raw m.dest ≠ some (c, q))
    (hne : m.source ≠ m.dest)
    (hnp : p ≠ .pawn) (hnc : ¬ (p = .king ∧ ((BB.ofSq m.source ^^^ BB.ofSq m.dest) &&& Gen.Consts.castleMoves) = (BB.ofSq m.source ^^^ BB.ofSq m.dest))) :
    ∀ s : Sq, pieceOn (b.moveUnchecked m).raw s =
      if s = m.dest then some (c, p) else if s = m.source then none else pieceOn b.raw s :=
  fun s => (Board.move_at_simple b m c p hpart hsrc hturn hdst hne hnp hnc s).pieceOn

/-- … and the partition is preserved -/
theorem move_partition_simple (b : Board) (m : Move) (c : Color) (p : Piece)
    (hpart : b.raw.partitionOk = true)
    (hsrc : pieceOn b.raw m.source = some (c, p)) (hturn : b.turn = c)
    (hdst : ∀ q, pieceOn b.raw m.dest ≠ some (c, q))
    (hne : m.source ≠ m.dest)
    (hnp : p ≠ .pawn) (hnc : ¬ (p = .king ∧ ((BB.ofSq m.source ^^^ BB.ofSq m.dest) &&& Gen.Consts.castleMoves) = (BB.ofSq m.source ^^^ BB.ofSq m.dest))) :
    (b.moveUnchecked m).raw.partitionOk = true :=
  (RawBoard.partitionOk_iff_sqOk _).2
    (fun s => (Board.move_at_simple b m c p hpart hsrc hturn hdst hne hnp hnc s).sqOk)

end Chess.Props.C02
