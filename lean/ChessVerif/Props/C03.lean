/-
C03 — Check, mate and draw status are right; incremental state never goes stale.
-/
import ChessVerif.Props.C06
import ChessVerif.Spec.Abs

namespace Chess.Props.C03
open Chess Chess.Spec

def statusOf : Board.GameState → Position.Status
  | .checkMate => .checkMate | .staleMate => .staleMate | .check => .check | .running => .running

/-- the four-way classification is the specification's, given that the three ingredients are right:
"no legal move" (C01), "in check" and the half-move clock -/
theorem state_classify (b : Board)
    (hmoves : (MoveGen.legals b).isEmpty = (abs b).legalMoves.isEmpty)
    (hcheck : b.inCheck = (abs b).inCheck b.turn) :
    statusOf b.state = (abs b).classify := by
  unfold Board.state Position.classify
  rw [hmoves, hcheck]
  have hh : (abs b).half = b.half := rfl
  have ht : (abs b).turn = b.turn := rfl
  rw [hh, ht]
  generalize (abs b).legalMoves.isEmpty = e
  generalize (abs b).inCheck b.turn = c
  by_cases h : b.half ≥ 100 <;> cases e <;> cases c <;> simp [h, statusOf]

/-- `in_check` is "the checkers set is not empty" -/
theorem inCheck_def (b : Board) : b.inCheck = BB.any b.checkers := rfl

/-- the derived pin/check state of every board the parser returns is the from-scratch state -/
theorem parse_pinInfo (s : List Byte) (b : Board) (h : Fen.parseFen s = .ok b) :
    b.pinned = b.updatePinInfo.pinned ∧ b.checkers = b.updatePinInfo.checkers := by
  have hw := C06.parse_WF s b h
  simp only [Board.WF, Board.pinInfoOk, Bool.and_eq_true, beq_iff_eq] at hw
  exact ⟨hw.1.2.1, hw.1.2.2⟩

/-- the from-scratch state depends only on placement and side to move: two boards with the same
placement and side to move, both carrying from-scratch state, carry the same state — so a position
reached by moves is indistinguishable from the rebuilt one as soon as `pinInfoOk` is preserved -/
theorem pinInfo_determined (a b : Board) (hr : a.raw = b.raw) (ht : a.turn = b.turn)
    (ha : a.pinInfoOk = true) (hb : b.pinInfoOk = true) : a.pinned = b.pinned ∧ a.checkers = b.checkers := by
  simp only [Board.pinInfoOk, Bool.and_eq_true, beq_iff_eq] at ha hb
  have key : a.updatePinInfo.pinned = b.updatePinInfo.pinned ∧ a.updatePinInfo.checkers = b.updatePinInfo.checkers := by
    unfold Board.updatePinInfo Board.kingSq Board.kingSq? Board.kingBB
    simp only [hr, ht]
    exact ⟨trivial, trivial⟩
  exact ⟨by rw [ha.1, hb.1, key.1], by rw [ha.2, hb.2, key.2]⟩

end Chess.Props.C03
