/-
C03 — Check, mate and draw status are right; incremental state never goes stale.
-/
import ChessVerif.Props.C06
import ChessVerif.Props.C01
import ChessVerif.Props.C05
import ChessVerif.Spec.Abs

namespace Chess.Props.C03
open Chess Chess.Spec

def statusOf : Board.GameState → Position.Status
  | .checkMate => .checkMate | .staleMate => .staleMate | .check => .check | .running => .running

/-- **in check**: the board reports check exactly when the side to move's king is attacked -/
theorem inCheck_iff (b : Board) (h : b.WF = true) : b.inCheck = (abs b).inCheck b.turn :=
  Legal.inCheck_iff b h

/-- the specification's enumeration lists exactly the legal moves -/
theorem mem_legalMoves_iff (p : Position) (m : Move) : m ∈ p.legalMoves ↔ p.legal m = true := by
  unfold Position.legalMoves
  constructor
  · intro hm
    rcases List.mem_flatMap.mp hm with ⟨s, _, hs⟩
    split at hs
    · split at hs
      · rcases List.mem_flatMap.mp hs with ⟨d, _, hd⟩
        rcases List.mem_filterMap.mp hd with ⟨pr, _, hpr⟩
        simp only [] at hpr
        by_cases hl : p.legal ⟨s, d, pr⟩ = true
        · rw [if_pos hl] at hpr
          have := Option.some.inj hpr
          subst this
          exact hl
        · rw [if_neg hl] at hpr
          cases hpr
      · cases hs
    · cases hs
  · intro hl
    obtain ⟨pc, hsrc⟩ := Legal.legal_source p m hl
    apply List.mem_flatMap.mpr ⟨m.source, List.mem_finRange _, ?_⟩
    rw [hsrc]
    simp only [beq_self_eq_true, if_true]
    apply List.mem_flatMap.mpr ⟨m.dest, List.mem_finRange _, ?_⟩
    apply List.mem_filterMap.mpr ⟨m.piece, ?_, ?_⟩
    · unfold Position.promoChoices
      rcases hm : m.piece with _ | pr
      · simp
      · cases pr <;> simp
    · have : (⟨m.source, m.dest, m.piece⟩ : Move) = m := by cases m; rfl
      simp [this, hl]

/-- "no legal move" is decided correctly -/
theorem isEmpty_iff (b : Board) (h : b.WF = true) :
    (MoveGen.legals b).isEmpty = (abs b).legalMoves.isEmpty := by
  have h1 : (MoveGen.legals b).isEmpty = b.legalsList.isEmpty := by
    have hg : (MoveGen.legals b).promoIdx = 0 := rfl
    rw [C10.isEmpty_iff _ hg]
    unfold Board.legalsList MoveGen.toList
    rw [C10.drain_eq _ hg 5000 ?_]
    have := Legal.wf_entries_le b h
    have hlt := Entries.mvsOf_length_lt (MoveGen.legals b) (by simpa [MoveGen.legals] using this)
    simpa [C10.movesOf_eq] using hlt
  rw [h1]
  have : (b.legalsList = [] ↔ (abs b).legalMoves = []) := by
    constructor
    · intro he
      apply List.eq_nil_iff_forall_not_mem.mpr
      intro m hm
      have := (C01.legals_iff b h m).mpr ((mem_legalMoves_iff _ m).mp hm)
      rw [he] at this; cases this
    · intro he
      apply List.eq_nil_iff_forall_not_mem.mpr
      intro m hm
      have := (mem_legalMoves_iff _ m).mpr ((C01.legals_iff b h m).mp hm)
      rw [he] at this; cases this
  cases h2 : b.legalsList with
  | nil => rw [this.mp h2]
  | cons x xs =>
    cases h3 : (abs b).legalMoves with
    | nil => rw [this.mpr h3] at h2; cases h2
    | cons y ys => rfl

/-- **status**: checkmate (no legal move, in check), draw (no legal move and not in check, or 100
half-moves), check, running — exactly the specification's classification -/
theorem state_eq (b : Board) (h : b.WF = true) : statusOf b.state = (abs b).classify := by
  unfold Board.state Position.classify
  rw [isEmpty_iff b h, inCheck_iff b h]
  have hh : (abs b).half = b.half := rfl
  have ht : (abs b).turn = b.turn := rfl
  rw [hh, ht]
  generalize (abs b).legalMoves.isEmpty = e
  generalize (abs b).inCheck b.turn = c
  by_cases h : b.half ≥ 100 <;> cases e <;> cases c <;> simp [h, statusOf]

/-- the derived pin/check state of every board the parser returns is the from-scratch state -/
theorem parse_pinInfo (s : List Byte) (b : Board) (h : Fen.parseFen s = .ok b) :
    b.pinned = b.updatePinInfo.pinned ∧ b.checkers = b.updatePinInfo.checkers := by
  have hw := C06.parse_WF s b h
  simp only [Board.WF, Board.pinInfoOk, Bool.and_eq_true, beq_iff_eq] at hw
  exact ⟨hw.1.2.1, hw.1.2.2⟩

/-- what the pin/check sets mean: checkers are exactly the enemy pieces attacking the king, pinned
squares exactly the single occupied squares between the king and an aligned enemy slider -/
theorem checkers_meaning (b : Board) (h : b.WF = true) (x : Sq) :
    BB.mem b.checkers x = true ↔
      (Legal.contactOn (abs b).pieceAt b.turn.flip x (b.kingSq b.turn) = true ∨
       (Legal.sliderOn (abs b).pieceAt b.turn.flip x (b.kingSq b.turn) = true ∧
        Legal.clear (abs b).occupied x (b.kingSq b.turn) = true)) := Legal.mem_checkers_iff b h x

/-- the from-scratch state depends only on placement and side to move: a moved board and a rebuilt
one agree as soon as both carry from-scratch state -/
theorem pinInfo_determined (a b : Board) (hr : a.raw = b.raw) (ht : a.turn = b.turn)
    (ha : a.pinInfoOk = true) (hb : b.pinInfoOk = true) : a.pinned = b.pinned ∧ a.checkers = b.checkers := by
  simp only [Board.pinInfoOk, Bool.and_eq_true, beq_iff_eq] at ha hb
  have key : a.updatePinInfo.pinned = b.updatePinInfo.pinned ∧ a.updatePinInfo.checkers = b.updatePinInfo.checkers := by
    unfold Board.updatePinInfo Board.kingSq Board.kingSq? Board.kingBB
    simp only [hr, ht]
    exact ⟨trivial, trivial⟩
  exact ⟨by rw [ha.1, hb.1, key.1], by rw [ha.2, hb.2, key.2]⟩

/-- **`incr_eq`**: the pin/check state `move_unchecked_into` maintains incrementally (direct check only
from the moved knight / pawn / promoted knight, every slider of the mover rescanned) is the
from-scratch state of the successor — it never goes stale -/
theorem move_pinInfo (b : Board) (h : b.WF = true) (m : Move) (hl : (abs b).legal m = true) :
    (b.moveUnchecked m).pinInfoOk = true := Legal.move_pinInfo b h m hl

/-- in check ⇔ king attacked, for every reachable position -/
theorem inCheck_iff_reachable (b₀ b : Board) (h₀ : b₀.WF = true) (hr : Board.Reachable b₀ b) :
    b.inCheck = (abs b).inCheck b.turn := Legal.inCheck_iff_reachable b₀ b h₀ hr

theorem state_eq_reachable (b₀ b : Board) (h₀ : b₀.WF = true) (hr : Board.Reachable b₀ b) :
    statusOf b.state = (abs b).classify := state_eq b (Legal.reachable_WF b₀ b h₀ hr)

/-- **a position reached by playing moves is the same position constructed from scratch**: writing
any reachable board (clocks up to 9999) as text and parsing it back returns the *identical* board —
placement, rights, marker, clocks, hash, pinned and checkers — hence the same legal moves, check
status, hash, `Display` and `Debug` rendering -/
theorem rebuilt_eq_reachable (b₀ b : Board) (h₀ : b₀.WF = true) (hr : Board.Reachable b₀ b)
    (hh : b.half ≤ 9999) (hf : b.full ≤ 9999) :
    Fen.parseFen (Fen.display b) = .ok b :=
  C05.parse_display b (Legal.reachable_WF b₀ b h₀ hr) hh hf

end Chess.Props.C03
