/-
C04 — Position hash is a pure function of the position.

(a) `Props/C04/Keys.lean`: the 794 translated keys are pairwise distinct and non-zero.
(b) the hash the accessor `zobrist()` returns is a function of (piece hash, turn, e.p. file, rights);
    the piece hash kept in the board equals the from-scratch hash of the placement for every board
    the parser returns (C06 `parse_hash`), for the standard position, and is preserved by every
    builder step; (c) boards that compare equal hash equal.
-/
import ChessVerif.Props.C04.Keys
import ChessVerif.Props.C06
import ChessVerif.Proofs.Legal.Reach

namespace Chess.Props.C04
open Chess

/-- boards that compare equal (`impl PartialEq`: turn, rights, e.p. file, placement) and whose stored
piece hash is the from-scratch hash of their placement have equal hashes — whatever move order
produced them, whatever their clocks and pin/check state -/
theorem eq_hash (a b : Board) (h : Board.beq a b = true)
    (ha : a.zobrist = a.raw.pieceHash) (hb : b.zobrist = b.raw.pieceHash) : a.hash = b.hash := by
  unfold Board.beq at h
  simp only [Bool.and_eq_true, decide_eq_true_eq, beq_iff_eq] at h
  obtain ⟨⟨⟨h1, h2⟩, h3⟩, h4⟩ := h
  unfold Board.hash
  rw [ha, hb, h1, h2, h3, h4]

/-- in particular for well-formed boards -/
theorem eq_hash_WF (a b : Board) (h : Board.beq a b = true) (ha : a.WF = true) (hb : b.WF = true) :
    a.hash = b.hash := by
  apply eq_hash a b h
  · simp only [Board.WF, Bool.and_eq_true, beq_iff_eq] at ha; exact ha.2
  · simp only [Board.WF, Bool.and_eq_true, beq_iff_eq] at hb; exact hb.2

set_option maxRecDepth 100000 in
/-- the literal in `Board::standard()` is the from-scratch hash of the standard placement -/
theorem standard_hash : Board.standard.zobrist = Board.standard.raw.pieceHash := by decide +kernel

/-- every board returned by the parser carries the from-scratch hash (C06) -/
theorem parse_hash (s : List Byte) (b : Board) (h : Fen.parseFen s = .ok b) :
    b.zobrist = b.raw.pieceHash := C06.parse_hash s b h

/-- the hash depends on the clocks, the pin set and the checkers in no way -/
theorem hash_ignores (b : Board) (h f : Nat) (p c : BB) :
    ({ b with half := h, full := f, pinned := p, checkers := c } : Board).hash = b.hash := rfl

/-- **incremental maintenance**: after any pseudo-legal move on a well-formed board the hash kept by
`move_unchecked_into` equals the from-scratch hash of the new placement (captures, promotion, the
en-passant victim and the castling rook all go through the one xor helper) -/
theorem move_hash (b : Board) (h : b.WF = true) (m : Move) (κ : Spec.Position.Kind)
    (hps : (Spec.abs b).pseudo m = some κ) :
    (b.moveUnchecked m).zobrist = (b.moveUnchecked m).raw.pieceHash := Legal.move_hash b h m κ hps

/-- hence, for every position reachable by legal play, the stored hash is the from-scratch hash … -/
theorem reachable_hash (b₀ b : Board) (h₀ : b₀.WF = true) (hr : Board.Reachable b₀ b) :
    b.zobrist = b.raw.pieceHash := by
  have := Legal.reachable_WF b₀ b h₀ hr
  simp only [Board.WF, Bool.and_eq_true, beq_iff_eq] at this
  exact this.2

/-- … and boards that compare equal hash equal whatever move orders produced them -/
theorem eq_hash_reachable (a₀ a b₀ b : Board) (ha₀ : a₀.WF = true) (hb₀ : b₀.WF = true)
    (hra : Board.Reachable a₀ a) (hrb : Board.Reachable b₀ b) (h : Board.beq a b = true) :
    a.hash = b.hash :=
  eq_hash_WF a b h (Legal.reachable_WF a₀ a ha₀ hra) (Legal.reachable_WF b₀ b hb₀ hrb)

end Chess.Props.C04
