/-
C04 (a) — the 794 keys (768 piece×colour×square, 16 castling-right sets, 8 en-passant files,
2 sides to move), *translated from `chess-lookup/src/zobrist.rs`*, are pairwise distinct and
non-zero; the tables have the shapes the accessors index.
-/
import ChessVerif.Model.Lookup

namespace Chess.Props.C04
open Chess

/-- all keys in one list -/
def allKeys : List Nat :=
  (Gen.Zobrist.piece.toList.flatMap fun a => a.toList.flatMap fun b => b.toList) ++
  Gen.Zobrist.castle.toList ++ Gen.Zobrist.enPassant.toList ++ Gen.Zobrist.turn.toList

/-- sortedness-free distinctness check the kernel can evaluate quickly: every key differs from all later ones -/
def distinctB : List Nat → Bool
  | [] => true
  | x :: xs => xs.all (fun y => x != y) && distinctB xs

theorem distinctB_sound : ∀ l : List Nat, distinctB l = true → l.Nodup
  | [], _ => List.nodup_nil
  | x :: xs, h => by
    simp only [distinctB, Bool.and_eq_true, List.all_eq_true] at h
    refine List.nodup_cons.mpr ⟨?_, distinctB_sound xs h.2⟩
    intro hm
    have := h.1 x hm
    simp at this

set_option maxRecDepth 1000000 in
theorem keys_count : allKeys.length = 794 := by decide +kernel

set_option maxRecDepth 1000000 in
theorem keys_distinctB : distinctB allKeys = true := by decide +kernel

/-- the 794 keys are pairwise distinct -/
theorem keys_nodup : allKeys.Nodup := distinctB_sound _ keys_distinctB

set_option maxRecDepth 1000000 in
/-- every key is non-zero and fits in 64 bits -/
theorem keys_nonzero_u64 : allKeys.all (fun k => decide (0 < k ∧ k < 2 ^ 64)) = true := by decide +kernel

set_option maxRecDepth 1000000 in
/-- shapes: `PIECE_ZOBRIST[2][64][6]`, `CASTLE_ZOBRIST[16]`, `EN_PASSANT_ZOBRIST[8]`, `TURN_ZOBRIST[2]` -/
theorem key_shapes :
    Gen.Zobrist.piece.size = 2 ∧ Gen.Zobrist.piece.all (fun a => a.size == 64 && a.all (fun b => b.size == 6)) = true ∧
    Gen.Zobrist.castle.size = 16 ∧ Gen.Zobrist.enPassant.size = 8 ∧ Gen.Zobrist.turn.size = 2 := by
  decide +kernel

end Chess.Props.C04
