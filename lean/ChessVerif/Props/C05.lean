/-
C05 — FEN text and board are inverse representations.

`Fen.display` is the model of `Display for Board`, `Fen.parseFen` of `parse_fen`.
-/
import ChessVerif.Proofs.FenRound
import ChessVerif.Proofs.Builder

namespace Chess.Props.C05
open Chess Chess.Fen

/-! ### field round trips (all values of the field) -/

/-- decimal printing then `parse_number` returns the number, for every clock value up to 9999,
whatever follows as long as it does not start with a digit -/
theorem number_roundtrip (n : Nat) (hn : n ≤ 9999) (rest : List Byte)
    (hrest : ∀ c r, rest = c :: r → ¬ (48 ≤ c.val ∧ c.val ≤ 57)) :
    parseNumber (toDec n ++ rest) = some (n, rest) :=
  parseNumber_toDec n hn rest hrest

/-- castling letters: for all 16 subsets, what the writer prints is read back by the four
`parse_castle_rights` calls plus the `-` rule -/
theorem castle_roundtrip : ∀ cr : Fin 16,
    let s := showCastle cr.val ++ [32]
    let (wk, s1) := parseCastle s 75
    let (wq, s2) := parseCastle s1 81
    let (bk, s3) := parseCastle s2 107
    let (bq, s4) := parseCastle s3 113
    (if wk then 1 else 0) + (if wq then 2 else 0) + (if bk then 4 else 0) + (if bq then 8 else 0) = cr.val ∧
    (if !(wk || wq || bk || bq) then s4 = [45, 32] else s4 = [32]) := by
  decide +kernel

set_option maxRecDepth 100000 in
/-- the start position: constructor = parser = writer (by evaluation) -/
theorem standard_parse :
    parseFen (display Board.standard) = .ok Board.standard :=
  eq_of_okIs (by decide +kernel)

set_option maxRecDepth 100000 in
theorem standard_text :
    display Board.standard = ("rnbqkbnr/pppppppp/8/8/8/8/PPPPPPPP/RNBQKBNR w KQkq - 0 0".toList.map (fun c => Fin.ofNat 256 c.toNat)) := by
  decide +kernel

/-- **Round trip.**  Writing any well-formed board with clocks up to 9999 and parsing the text
back yields the same board: placement, side, rights, marker, clocks, hash and pin/check state. -/
theorem parse_display (b : Board) (hwf : b.WF = true) (hh : b.half ≤ 9999) (hf : b.full ≤ 9999) :
    parseFen (display b) = .ok b :=
  parseFen_display b hwf hh hf

/-- parsing then writing any canonical text reproduces it byte for byte -/
theorem display_parse (b : Board) (hwf : b.WF = true) (hh : b.half ≤ 9999) (hf : b.full ≤ 9999) :
    ∀ b', parseFen (display b) = .ok b' → display b' = display b := by
  intro b' h
  rw [parse_display b hwf hh hf] at h
  cases h
  rfl

/-- the standard-position constructor is what the parser produces from the start FEN -/
theorem standard_is_parsed :
    parseFen ("rnbqkbnr/pppppppp/8/8/8/8/PPPPPPPP/RNBQKBNR w KQkq - 0 0".toList.map (fun c => Fin.ofNat 256 c.toNat)) = .ok Board.standard := by
  rw [← standard_text]; exact standard_parse

/-! ### the incremental builder -/

/-- **The builder refines the mailbox builder** (`Spec/Build.lean`) for every sequence of calls: the same calls are
accepted and refused, and afterwards every square, the side to move, the rights, the marker and the clocks are
those of the mailbox — refused placements and removals leave no trace. -/
theorem build_refines (ops : List BuildOp) (hops : ∀ op ∈ ops, OpOk op) :
    (runBuild ops).2 = (Spec.runBuild ops).2 ∧
    (∀ q, (Spec.abs (runBuild ops).1).pieceAt q = (Spec.runBuild ops).1.at_ q) ∧
    (runBuild ops).1.turn = (Spec.runBuild ops).1.turn ∧ (runBuild ops).1.castle = (Spec.runBuild ops).1.castle ∧
    (runBuild ops).1.ep = (Spec.runBuild ops).1.ep ∧ (runBuild ops).1.half = (Spec.runBuild ops).1.half ∧
    (runBuild ops).1.full = (Spec.runBuild ops).1.full := by
  obtain ⟨-, hr, hf⟩ := runBuild_spec ops hops
  exact ⟨hf, hr.sq, hr.turn, hr.castle, hr.ep, hr.half, hr.full⟩

/-- **Builder = parser.**  The board `build()` returns after any session is the board the parser returns for the
text of that position: identical placement, side, rights, marker, clocks, hash and pin/check state. -/
theorem build_eq_parse (ops : List BuildOp) (hops : ∀ op ∈ ops, OpOk op) (b : Board)
    (h : Fen.build (runBuild ops).1 = .ok b) (hh : b.half ≤ 9999) (hf : b.full ≤ 9999) :
    parseFen (display b) = .ok b :=
  parseFen_display b (Fen.build_WF ops hops b h) hh hf

/-- `build()` changes nothing but the cached pin/check sets -/
theorem build_fields (b0 b : Board) (h : Fen.build b0 = .ok b) :
    b.raw = b0.raw ∧ b.turn = b0.turn ∧ b.castle = b0.castle ∧ b.ep = b0.ep ∧ b.half = b0.half ∧
    b.full = b0.full ∧ b.zobrist = b0.zobrist := by
  unfold Fen.build at h
  split at h
  · cases h
  · cases h; exact ⟨rfl, rfl, rfl, rfl, rfl, rfl, rfl⟩

end Chess.Props.C05
