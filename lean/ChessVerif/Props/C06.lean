/-
C06 — FEN parsing is total and admits only playable positions.

`Fen.parseFen` is the byte-for-byte model of `chess-movegen/src/fen.rs`; `.error .trap` is the
model's representation of a panic inside the parser (`unwrap` on `None`).  All theorems quantify
over every byte string.
-/
import ChessVerif.Proofs.FenParse
import ChessVerif.Proofs.Builder

namespace Chess.Props.C06
open Chess Chess.Fen

/-- the parser never panics: for every byte string it returns a board or a `ParseFenError` -/
theorem parse_total (s : List Byte) : parseFen s ≠ .error .trap := parseFen_ne_trap s

/-- every board the parser returns went through `validate` and then `update_pin_info` -/
theorem parse_validated (s : List Byte) (b : Board) (h : parseFen s = .ok b) :
    ∃ b0 : Board, b0.validate = .ok () ∧ b = b0.updatePinInfo := by
  obtain ⟨raw, z, turn, wk, wq, bk, bq, ep, half, full, -, -, -, -, hv, rfl⟩ := parseFen_ok h
  exact ⟨_, hv, rfl⟩

/-- … and so did every board the builder returns -/
theorem build_validated (b0 b : Board) (h : Fen.build b0 = .ok b) :
    b0.validate = .ok () ∧ b = b0.updatePinInfo := by
  unfold Fen.build at h
  split at h
  · cases h
  · cases h; exact ⟨‹_›, rfl⟩

/-- the placement loop never puts two pieces on one square: colours and piece sets form a partition -/
theorem parse_partition (s : List Byte) (b : Board) (h : parseFen s = .ok b) :
    b.raw.partitionOk = true := by
  obtain ⟨raw, z, turn, wk, wq, bk, bq, ep, half, full, hp, -, -, -, -, rfl⟩ := parseFen_ok h
  exact hp

/-- the hash accumulated while parsing is the from-scratch hash of the placement -/
theorem parse_hash (s : List Byte) (b : Board) (h : parseFen s = .ok b) :
    b.zobrist = b.raw.pieceHash := by
  obtain ⟨raw, z, turn, wk, wq, bk, bq, ep, half, full, -, hz, -, -, -, rfl⟩ := parseFen_ok h
  exact hz

/-- only the four right bits can be set -/
theorem parse_castle_lt (s : List Byte) (b : Board) (h : parseFen s = .ok b) : b.castle < 16 := by
  obtain ⟨raw, z, turn, wk, wq, bk, bq, ep, half, full, -, -, -, -, -, rfl⟩ := parseFen_ok h
  exact crOf_lt wk wq bk bq

/-- clocks read by the parser fit in four digits -/
theorem parse_clocks (s : List Byte) (b : Board) (h : parseFen s = .ok b) :
    b.half ≤ 9999 ∧ b.full ≤ 9999 := by
  obtain ⟨raw, z, turn, wk, wq, bk, bq, ep, half, full, -, -, h1, h2, -, rfl⟩ := parseFen_ok h
  exact ⟨h1, h2⟩

/-- **every accepted board is well-formed** (`Board.WF`: partition, validation clauses — one king per
side, at most 16 men per side, opponent not in check, rights only with king and rook at home, e.p.
marker only on an empty square behind an enemy pawn —, derived pin/check state, hash) -/
theorem parse_WF (s : List Byte) (b : Board) (h : parseFen s = .ok b) : b.WF = true := by
  obtain ⟨raw, z, turn, wk, wq, bk, bq, ep, half, full, hp, hz, -, -, hv, rfl⟩ := parseFen_ok h
  have hc : (mkB raw z turn (crOf wk wq bk bq) ep half full).updatePinInfo.castle < 16 :=
    crOf_lt wk wq bk bq
  have hp' : (mkB raw z turn (crOf wk wq bk bq) ep half full).updatePinInfo.raw.partitionOk = true := hp
  have hz' : (mkB raw z turn (crOf wk wq bk bq) ep half full).updatePinInfo.zobrist =
      (mkB raw z turn (crOf wk wq bk bq) ep half full).updatePinInfo.raw.pieceHash := hz
  simp only [Board.WF, hp', Board.validate_updatePinInfo, hv, hc, Board.pinInfoOk_updatePinInfo, hz',
    decide_true, beq_self_eq_true, Bool.and_self]

/-- **every board the builder returns is well-formed**, for every sequence of builder calls (`turn`,
`castle_rights`, the clocks, `enpassant`, `place` — refused on an occupied square —, `remove`) in any order:
the same clauses as `parse_WF`.  `OpOk` only says that a `CastleRights` argument has four bits. -/
theorem build_WF (ops : List BuildOp) (hops : ∀ op ∈ ops, OpOk op) (b : Board)
    (h : Fen.build (runBuild ops).1 = .ok b) : b.WF = true :=
  Fen.build_WF ops hops b h

/-- non-vacuity: a session with a refused placement and a removal that `build()` accepts -/
def sampleSession : List BuildOp :=
  [.place 4 .white .king, .place 4 .black .queen, .place 60 .black .king,
   .place 12 .white .pawn, .remove 12, .turn .black, .half 7]

example : (match (runBuild sampleSession).1.validate with | .ok () => true | .error _ => false) = true ∧
    (runBuild sampleSession).2 = [true, false, true, true, true, true, true] ∧
    (∀ op ∈ sampleSession, OpOk op) := by
  refine ⟨by decide +kernel, by decide +kernel, ?_⟩
  intro op hop
  simp only [sampleSession, List.mem_cons, List.mem_nil_iff, or_false] at hop
  rcases hop with h | h | h | h | h | h | h <;> subst h <;> trivial

end Chess.Props.C06
