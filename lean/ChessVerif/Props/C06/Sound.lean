/-
C06, soundness half: whatever the parser (or the builder) accepts is a *valid position* in the
sense of the property — exactly one king per colour, at most 16 men per colour, an en-passant
marker only on an empty square behind an enemy pawn that could just have made a double step,
castling rights only with king and rook on their home squares, the side not to move not in check —
stated on the mailbox (`Spec.Position.valid`), not on the bitboards the validation code reads.
Kept apart from `Props/C06.lean` because it rests on the C01–C03 development (`Proofs/Legal`).
-/
import ChessVerif.Props.C06
import ChessVerif.Proofs.Mirror.Valid

namespace Chess.Props.C06
open Chess Chess.Spec Chess.Fen

/-- the model of `Board::validate` accepts exactly the valid mailbox positions (for a consistent
placement and a 4-bit rights field, which the parser and the builder guarantee) -/
theorem validate_iff_valid (b : Board) (hp : b.raw.partitionOk = true) (hc : b.castle < 16) :
    b.validate = .ok () ↔ (abs b).valid = true :=
  Proofs.Valid.validate_iff_valid b hp hc

/-- every well-formed board is a valid position -/
theorem wf_valid (b : Board) (h : b.WF = true) : (abs b).valid = true := Proofs.Valid.wf_valid b h

/-- **accepted ⇒ valid**, for every byte string -/
theorem parse_valid (s : List Byte) (b : Board) (h : parseFen s = .ok b) : (abs b).valid = true :=
  wf_valid b (parse_WF s b h)

end Chess.Props.C06
