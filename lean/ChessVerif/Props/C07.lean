/-
C07 — Safe API never violates an unchecked-operation precondition (partial: the model carries the
preconditions; machine-level UB is a property of the compiled artefact and is exercised by running
every stream of every property under the checked build).

Each theorem discharges the precondition of one unchecked / panicking operation of the Rust:
`get_unchecked` on the slider tables (C08), `get_unchecked` on the book (C17), the parser's
`unwrap`s (C06), `to_index`'s `unreachable_unchecked` (`castle < 16`), `king_sq`'s `pop_unchecked`
(a king of each colour exists on every validated board).
-/
import ChessVerif.Props.C06
import ChessVerif.Props.C08
import ChessVerif.Props.C17
import ChessVerif.Proofs.Legal.Reach

namespace Chess.Props.C07
open Chess

/-- slider-table indices stay in range for every square and occupancy (`get_unchecked` in `rook_moves`/`bishop_moves`) -/
theorem slider_index_in_range (s : Sq) (occ : BB) :
    Lookup.rookIndex s occ < Gen.RookMagic.solLen ∧ Lookup.bishopIndex s occ < Gen.BishopMagic.solLen :=
  ⟨(C08.rook_eq s occ).1, (C08.bishop_eq s occ).1⟩

/-- walking the opening book never reads outside `BOOK` (`get_unchecked` in `BookMovesIter::next`) and terminates -/
theorem book_in_range : Book.walkModel.oob = 0 ∧ Book.walkModel.fuelOut = 0 :=
  ⟨C17.book_walk_ok.2.1, C17.book_walk_ok.2.2⟩

/-- the parser never panics on any byte string -/
theorem parser_total (s : List Byte) : Fen.parseFen s ≠ .error .trap := C06.parse_total s

/-- `CastleRights::to_index`'s `unreachable_unchecked` is unreachable on every parsed board -/
theorem castle_index_ok (s : List Byte) (b : Board) (h : Fen.parseFen s = .ok b) : b.castle < 16 :=
  C06.parse_castle_lt s b h

/-- `has_kings` makes both king bitboards non-empty, so `king_sq`'s `pop_unchecked` has its precondition -/
theorem kingSq_ok (b : Board) (h : b.raw.hasKings = true) (c : Color) : (b.kingSq? c).isSome = true := by
  unfold RawBoard.hasKings at h
  simp only [Bool.and_eq_true, beq_iff_eq] at h
  have hc : BB.count (b.kingBB c) = 1 := by
    unfold Board.kingBB
    cases c
    · have := h.1.2; simpa [RawBoard.color, BitVec.and_comm] using this
    · have := h.2; simpa [RawBoard.color, BitVec.and_comm] using this
  have hne : b.kingBB c ≠ 0#64 := by
    intro h0; rw [h0] at hc; revert hc; decide
  unfold Board.kingSq?
  have : (b.kingBB c == 0#64) = false := by simpa using hne
  rw [this]
  simp only [Bool.false_eq_true, if_false]
  have hlt := BB.tz_lt_of_ne_zero (b.kingBB c) hne
  simp [Sq.ofNat?, hlt]

/-- every validated board has both kings -/
theorem validate_hasKings (b : Board) (h : b.validate = .ok ()) : b.raw.hasKings = true := by
  unfold Board.validate at h
  split at h
  · cases h
  · rename_i hk; simpa using hk

/-- … hence `king_sq` is safe for both colours on every board the parser or the builder returns -/
theorem parsed_kingSq_ok (s : List Byte) (b : Board) (h : Fen.parseFen s = .ok b) (c : Color) :
    (b.kingSq? c).isSome = true := by
  obtain ⟨b0, hv, rfl⟩ := C06.parse_validated s b h
  have := kingSq_ok b0 (validate_hasKings b0 hv) c
  simpa [Board.updatePinInfo, Board.kingSq?, Board.kingBB] using this

/-- the saturating clock increment never leaves `u16` -/
theorem satAdd16_le (a b : Nat) : satAdd16 a b ≤ 65535 := by
  unfold satAdd16; split <;> omega

/-- **the fixed-capacity move list never overflows**: on every well-formed board `collect_moves`
pushes at most 18 entries (≤ 16 men, one entry each, plus at most two en-passant entries), for every
destination mask — `push_unchecked` on `ArrayVec<_, 18>` has its precondition -/
theorem moveList_capacity (b : Board) (h : b.WF = true) (mask : BB) :
    (b.collectMoves mask).length ≤ Gen.Consts.moveListCapacity := by
  have hp := AbsL.wf_partition b h
  have hk := AbsL.wf_hasKings b h
  have hc := AbsL.wf_counts b h
  apply Entries.collectMoves_length_le b hp
  · unfold RawBoard.hasKings at hk
    simp only [Bool.and_eq_true, beq_iff_eq] at hk
    cases hb : b.turn
    · simpa [RawBoard.color] using hk.1.2
    · simpa [RawBoard.color] using hk.2
  · cases hb : b.turn
    · simpa [RawBoard.color] using hc.1
    · simpa [RawBoard.color] using hc.2

/-- `check_mask`'s `assert_eq!` holds at every call site of `collect_moves` -/
theorem checkMask_assert_ok (b : Board) :
    (BB.none b.checkers = true → b.checkMaskOk false = true) ∧
    (BB.none b.checkers = false → BB.count b.checkers = 1 → b.checkMaskOk true = true) :=
  Entries.collect_checkMask_ok b

/-- all of the above hold for every position reachable by legal play (well-formedness is invariant) -/
theorem reachable_preconditions (b₀ b : Board) (h₀ : b₀.WF = true) (hr : Board.Reachable b₀ b) (mask : BB) (c : Color) :
    (b.collectMoves mask).length ≤ Gen.Consts.moveListCapacity ∧ (b.kingSq? c).isSome = true ∧ b.castle < 16 := by
  have hw := Legal.reachable_WF b₀ b h₀ hr
  exact ⟨moveList_capacity b hw mask, kingSq_ok b (AbsL.wf_hasKings b hw) c, AbsL.wf_castle b hw⟩

end Chess.Props.C07
