/-
C07 — Safe API never violates an unchecked-operation precondition (partial: the model carries the
preconditions; machine-level UB is a property of the compiled artefact and is exercised by running
every stream of every property under the checked build).

Each theorem discharges the precondition of one unchecked / panicking operation of the Rust:
`get_unchecked` on the slider tables (C08), `get_unchecked` on the book (C17), the parser's
`unwrap`s (C06), `to_index`'s `unreachable_unchecked` (`castle < 16`), `king_sq`'s `pop_unchecked`
(a king of each colour exists on every validated board).
-/
import ChessVerif.Props.C06
import ChessVerif.Props.C08
import ChessVerif.Props.C17

namespace Chess.Props.C07
open Chess

/-- slider-table indices stay in range for every square and occupancy (`get_unchecked` in `rook_moves`/`bishop_moves`) -/
theorem slider_index_in_range (s : Sq) (occ : BB) :
    Lookup.rookIndex s occ < Gen.RookMagic.solLen ∧ Lookup.bishopIndex s occ < Gen.BishopMagic.solLen :=
  ⟨(C08.rook_eq s occ).1, (C08.bishop_eq s occ).1⟩

/-- walking the opening book never reads outside `BOOK` (`get_unchecked` in `BookMovesIter::next`) and terminates -/
theorem book_in_range : Book.walkModel.oob = 0 ∧ Book.walkModel.fuelOut = 0 :=
  ⟨C17.book_walk_ok.2.1, C17.book_walk_ok.2.2⟩

/-- the parser never panics on any byte string -/
theorem parser_total (s : List Byte) : Fen.parseFen s ≠ .error .trap := C06.parse_total s

/-- `CastleRights::to_index`'s `unreachable_unchecked` is unreachable on every parsed board -/
theorem castle_index_ok (s : List Byte) (b : Board) (h : Fen.parseFen s = .ok b) : b.castle < 16 :=
  C06.parse_castle_lt s b h

/-- `has_kings` makes both king bitboards non-empty, so `king_sq`'s `pop_unchecked` has its precondition -/
theorem kingSq_ok (b : Board) (h : b.raw.hasKings = true) (c : Color) : (b.kingSq? c).isSome = true := by
  unfold RawBoard.hasKings at h
  simp only [Bool.and_eq_true, beq_iff_eq] at h
  have hc : BB.count (b.kingBB c) = 1 := by
    unfold Board.kingBB
    cases c
    · have := h.1.2; simpa [RawBoard.color, BitVec.and_comm] using this
    · have := h.2; simpa [RawBoard.color, BitVec.and_comm] using this
  have hne : b.kingBB c ≠ 0#64 := by
    intro h0; rw [h0] at hc; revert hc; decide
  unfold Board.kingSq?
  have : (b.kingBB c == 0#64) = false := by simpa using hne
  rw [this]
  simp only [Bool.false_eq_true, if_false]
  have hlt := BB.tz_lt_of_ne_zero (b.kingBB c) hne
  simp [Sq.ofNat?, hlt]

/-- every validated board has both kings -/
theorem validate_hasKings (b : Board) (h : b.validate = .ok ()) : b.raw.hasKings = true := by
  unfold Board.validate at h
  split at h
  · cases h
  · rename_i hk; simpa using hk

/-- … hence `king_sq` is safe for both colours on every board the parser or the builder returns -/
theorem parsed_kingSq_ok (s : List Byte) (b : Board) (h : Fen.parseFen s = .ok b) (c : Color) :
    (b.kingSq? c).isSome = true := by
  obtain ⟨b0, hv, rfl⟩ := C06.parse_validated s b h
  have := kingSq_ok b0 (validate_hasKings b0 hv) c
  simpa [Board.updatePinInfo, Board.kingSq?, Board.kingBB] using this

/-- the saturating clock increment never leaves `u16` -/
theorem satAdd16_le (a b : Nat) : satAdd16 a b ≤ 65535 := by
  unfold satAdd16; split <;> omega

end Chess.Props.C07
