/-
C08 — Slider attack lookup equals ray casting for every square and occupancy.

`Lookup.rookMoves`/`bishopMoves` read the *translated* magic tables of
`chess-lookup/src/{rook,bishop}_moves.rs` with the index computation of `chess-lookup/src/lib.rs`.
For each of the 128 (piece, square) pairs the kernel evaluates "index < table length ∧ entry =
ray cast" over every subset of the magic mask (`Props/C08/R*.lean`, `B*.lean`: 102 400 + 5 248
subsets); the lemmas of `Proofs/Magic.lean` lift this to all 2^64 occupancies.
-/
import ChessVerif.Props.C08.All
import ChessVerif.Proofs.MagicGen

namespace Chess.Props.C08
open Chess Chess.Spec Chess.Magic

set_option maxRecDepth 100000 in
/-- every on-ray square with a successor along the ray lies in the square's magic mask -/
theorem rook_mask_covers : ∀ s : Sq, maskCovers (Lookup.rookMagic s).mask rookDirs s = true := by
  decide +kernel
set_option maxRecDepth 100000 in
theorem bishop_mask_covers : ∀ s : Sq, maskCovers (Lookup.bishopMagic s).mask bishopDirs s = true := by
  decide +kernel

/-- **Rook.** For every square and every one of the 2^64 occupancies, the index is in range and the
lookup returns exactly the squares reached by sliding along ranks and files up to and including
the first occupied square in each direction. -/
theorem rook_eq (s : Sq) (occ : BB) :
    Lookup.rookIndex s occ < Gen.RookMagic.solLen ∧ Lookup.rookMoves s occ = rookCast s occ := by
  have h := checkAll_masked (rookOk s) _ (checkRook_all s) occ
  simp only [rookOk, Bool.and_eq_true, decide_eq_true_eq, beq_iff_eq] at h
  have hidx : Lookup.rookIndex s ((Lookup.rookMagic s).mask &&& occ) = Lookup.rookIndex s occ := by
    simp only [Lookup.rookIndex, Lookup.magicIndex, and_mask_idem]
  have hmv : Lookup.rookMoves s ((Lookup.rookMagic s).mask &&& occ) = Lookup.rookMoves s occ := by
    simp only [Lookup.rookMoves, hidx]
  have hcast : rookCast s ((Lookup.rookMagic s).mask &&& occ) = rookCast s occ := by
    simp only [rookCast, rookReach]
    rw [reach_masked rookDirs _ occ s (rook_mask_covers s)]
  rw [hidx, hmv, hcast] at h
  exact h

/-- **Bishop.** Likewise along diagonals. -/
theorem bishop_eq (s : Sq) (occ : BB) :
    Lookup.bishopIndex s occ < Gen.BishopMagic.solLen ∧ Lookup.bishopMoves s occ = bishopCast s occ := by
  have h := checkAll_masked (bishopOk s) _ (checkBishop_all s) occ
  simp only [bishopOk, Bool.and_eq_true, decide_eq_true_eq, beq_iff_eq] at h
  have hidx : Lookup.bishopIndex s ((Lookup.bishopMagic s).mask &&& occ) = Lookup.bishopIndex s occ := by
    simp only [Lookup.bishopIndex, Lookup.magicIndex, and_mask_idem]
  have hmv : Lookup.bishopMoves s ((Lookup.bishopMagic s).mask &&& occ) = Lookup.bishopMoves s occ := by
    simp only [Lookup.bishopMoves, hidx]
  have hcast : bishopCast s ((Lookup.bishopMagic s).mask &&& occ) = bishopCast s occ := by
    simp only [bishopCast, bishopReach]
    rw [reach_masked bishopDirs _ occ s (bishop_mask_covers s)]
  rw [hidx, hmv, hcast] at h
  exact h

/-- membership form used by the move-generator proofs -/
theorem mem_rookMoves (s t : Sq) (occ : BB) :
    BB.mem (Lookup.rookMoves s occ) t = (rookReach (occOf occ) s).contains t := by
  rw [(rook_eq s occ).2, rookCast, bbOfList, BB.mem_ofList]
theorem mem_bishopMoves (s t : Sq) (occ : BB) :
    BB.mem (Lookup.bishopMoves s occ) t = (bishopReach (occOf occ) s).contains t := by
  rw [(bishop_eq s occ).2, bishopCast, bbOfList, BB.mem_ofList]

/-- the declared table length (a translated constant) is what the index is compared against in
the source's `debug_assert!` and what `get_unchecked` relies on -/
theorem table_lengths : Gen.RookMagic.solLen = 262144 ∧ Gen.BishopMagic.solLen = 262144 := by decide

/-! Non-vacuity (tests): a rook on d4 with blockers on d6 and f4 -/
example : Lookup.rookMoves 27 (BB.ofSq 43 ||| BB.ofSq 29) = bbOfList [35, 43, 19, 11, 3, 26, 25, 24, 28, 29] := by
  decide +kernel

/-! ### the generator (`chess-lookup-generator/src/magic.rs`, `Model/MagicGen.lean`)

The embedded tables are judged above entry by entry.  The theorems below are about the PROGRAM that makes such
tables: whichever multiplier its random search ends up accepting for a square, the table then answers every one of
the 2^64 occupancies with the ray cast.  (`trySquare` is the acceptance loop over all blocker sets of the square.) -/

/-- the acceptance loop is sound: if it accepts, every blocker set's slot holds that set's solution -/
theorem generator_fill_sound (magic : BB) (shift offset : Nat) (ps : List MagicGen.Blocker) (data data' : Array BB)
    (h : MagicGen.fill magic shift offset ps data = some data') (hne : ∀ p ∈ ps, p.solution ≠ 0#64) :
    ∀ p ∈ ps, data'.getD (MagicGen.indexOf magic shift offset p.puzzle) 0#64 = p.solution :=
  MagicGen.fill_sound magic shift offset ps data data' h hne

/-- … and leaves every other slot (the regions of the squares done before) alone -/
theorem generator_fill_frame (magic : BB) (shift offset : Nat) (ps : List MagicGen.Blocker) (data data' : Array BB)
    (h : MagicGen.fill magic shift offset ps data = some data') :
    data'.size = data.size ∧
    ∀ i, (∀ p ∈ ps, MagicGen.indexOf magic shift offset p.puzzle ≠ i) → data'.getD i 0#64 = data.getD i 0#64 :=
  MagicGen.fill_frame magic shift offset ps data data' h

/-- the enumeration of blocker sets reaches every subset of the relevance mask -/
theorem generator_blockers_complete (mask : BB) (sol : BB → BB) (x : BB) (hx : x &&& mask = x) :
    ∃ p ∈ MagicGen.blockersOf mask sol, p.puzzle = x ∧ p.solution = sol x :=
  MagicGen.blockers_complete mask sol x hx

/-- **generated rook table**: for every square, every relevance mask that covers the inner squares of the rays, every
multiplier the loop accepts and EVERY occupancy, the slot of the masked occupancy holds the ray-cast attack set -/
theorem generator_rook (s : Sq) (magic mask : BB) (offset : Nat) (data data' : Array BB)
    (hm : maskCovers mask rookDirs s = true)
    (h : MagicGen.trySquare magic mask (rookCast s) offset data = some data') (occ : BB) :
    data'.getD (MagicGen.indexOf magic (MagicGen.shiftFor mask) offset (mask &&& occ)) 0#64 = rookCast s occ :=
  MagicGen.rook_generated s magic mask offset data data' hm h occ

/-- **generated bishop table** -/
theorem generator_bishop (s : Sq) (magic mask : BB) (offset : Nat) (data data' : Array BB)
    (hm : maskCovers mask bishopDirs s = true)
    (h : MagicGen.trySquare magic mask (bishopCast s) offset data = some data') (occ : BB) :
    data'.getD (MagicGen.indexOf magic (MagicGen.shiftFor mask) offset (mask &&& occ)) 0#64 = bishopCast s occ :=
  MagicGen.bishop_generated s magic mask offset data data' hm h occ

/-- non-vacuity: the embedded multiplier of the bishop on a1 is accepted by the modelled loop on an empty table -/
example : (MagicGen.trySquare (Lookup.bishopMagic 0).factor (Lookup.bishopMagic 0).mask (bishopCast 0) 0
    (Array.replicate 64 0#64)).isSome = true := by decide +kernel

end Chess.Props.C08
