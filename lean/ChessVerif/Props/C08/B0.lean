import ChessVerif.Proofs.Magic
namespace Chess.Props.C08
set_option maxRecDepth 1000000 in
theorem bishop_0 : Magic.checkBishop 0 = true := by decide +kernel
set_option maxRecDepth 1000000 in
theorem bishop_1 : Magic.checkBishop 1 = true := by decide +kernel
set_option maxRecDepth 1000000 in
theorem bishop_2 : Magic.checkBishop 2 = true := by decide +kernel
set_option maxRecDepth 1000000 in
theorem bishop_3 : Magic.checkBishop 3 = true := by decide +kernel
set_option maxRecDepth 1000000 in
theorem bishop_4 : Magic.checkBishop 4 = true := by decide +kernel
set_option maxRecDepth 1000000 in
theorem bishop_5 : Magic.checkBishop 5 = true := by decide +kernel
set_option maxRecDepth 1000000 in
theorem bishop_6 : Magic.checkBishop 6 = true := by decide +kernel
set_option maxRecDepth 1000000 in
theorem bishop_7 : Magic.checkBishop 7 = true := by decide +kernel
end Chess.Props.C08
