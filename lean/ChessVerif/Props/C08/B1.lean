import ChessVerif.Proofs.Magic
namespace Chess.Props.C08
set_option maxRecDepth 1000000 in
theorem bishop_8 : Magic.checkBishop 8 = true := by decide +kernel
set_option maxRecDepth 1000000 in
theorem bishop_9 : Magic.checkBishop 9 = true := by decide +kernel
set_option maxRecDepth 1000000 in
theorem bishop_10 : Magic.checkBishop 10 = true := by decide +kernel
set_option maxRecDepth 1000000 in
theorem bishop_11 : Magic.checkBishop 11 = true := by decide +kernel
set_option maxRecDepth 1000000 in
theorem bishop_12 : Magic.checkBishop 12 = true := by decide +kernel
set_option maxRecDepth 1000000 in
theorem bishop_13 : Magic.checkBishop 13 = true := by decide +kernel
set_option maxRecDepth 1000000 in
theorem bishop_14 : Magic.checkBishop 14 = true := by decide +kernel
set_option maxRecDepth 1000000 in
theorem bishop_15 : Magic.checkBishop 15 = true := by decide +kernel
end Chess.Props.C08
