import ChessVerif.Proofs.Magic
namespace Chess.Props.C08
set_option maxRecDepth 1000000 in
theorem bishop_16 : Magic.checkBishop 16 = true := by decide +kernel
set_option maxRecDepth 1000000 in
theorem bishop_17 : Magic.checkBishop 17 = true := by decide +kernel
set_option maxRecDepth 1000000 in
theorem bishop_18 : Magic.checkBishop 18 = true := by decide +kernel
set_option maxRecDepth 1000000 in
theorem bishop_19 : Magic.checkBishop 19 = true := by decide +kernel
set_option maxRecDepth 1000000 in
theorem bishop_20 : Magic.checkBishop 20 = true := by decide +kernel
set_option maxRecDepth 1000000 in
theorem bishop_21 : Magic.checkBishop 21 = true := by decide +kernel
set_option maxRecDepth 1000000 in
theorem bishop_22 : Magic.checkBishop 22 = true := by decide +kernel
set_option maxRecDepth 1000000 in
theorem bishop_23 : Magic.checkBishop 23 = true := by decide +kernel
end Chess.Props.C08
