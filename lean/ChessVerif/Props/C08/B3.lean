import ChessVerif.Proofs.Magic
namespace Chess.Props.C08
set_option maxRecDepth 1000000 in
theorem bishop_24 : Magic.checkBishop 24 = true := by decide +kernel
set_option maxRecDepth 1000000 in
theorem bishop_25 : Magic.checkBishop 25 = true := by decide +kernel
set_option maxRecDepth 1000000 in
theorem bishop_26 : Magic.checkBishop 26 = true := by decide +kernel
set_option maxRecDepth 1000000 in
theorem bishop_27 : Magic.checkBishop 27 = true := by decide +kernel
set_option maxRecDepth 1000000 in
theorem bishop_28 : Magic.checkBishop 28 = true := by decide +kernel
set_option maxRecDepth 1000000 in
theorem bishop_29 : Magic.checkBishop 29 = true := by decide +kernel
set_option maxRecDepth 1000000 in
theorem bishop_30 : Magic.checkBishop 30 = true := by decide +kernel
set_option maxRecDepth 1000000 in
theorem bishop_31 : Magic.checkBishop 31 = true := by decide +kernel
end Chess.Props.C08
