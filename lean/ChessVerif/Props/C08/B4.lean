import ChessVerif.Proofs.Magic
namespace Chess.Props.C08
set_option maxRecDepth 1000000 in
theorem bishop_32 : Magic.checkBishop 32 = true := by decide +kernel
set_option maxRecDepth 1000000 in
theorem bishop_33 : Magic.checkBishop 33 = true := by decide +kernel
set_option maxRecDepth 1000000 in
theorem bishop_34 : Magic.checkBishop 34 = true := by decide +kernel
set_option maxRecDepth 1000000 in
theorem bishop_35 : Magic.checkBishop 35 = true := by decide +kernel
set_option maxRecDepth 1000000 in
theorem bishop_36 : Magic.checkBishop 36 = true := by decide +kernel
set_option maxRecDepth 1000000 in
theorem bishop_37 : Magic.checkBishop 37 = true := by decide +kernel
set_option maxRecDepth 1000000 in
theorem bishop_38 : Magic.checkBishop 38 = true := by decide +kernel
set_option maxRecDepth 1000000 in
theorem bishop_39 : Magic.checkBishop 39 = true := by decide +kernel
end Chess.Props.C08
