import ChessVerif.Proofs.Magic
namespace Chess.Props.C08
set_option maxRecDepth 1000000 in
theorem bishop_40 : Magic.checkBishop 40 = true := by decide +kernel
set_option maxRecDepth 1000000 in
theorem bishop_41 : Magic.checkBishop 41 = true := by decide +kernel
set_option maxRecDepth 1000000 in
theorem bishop_42 : Magic.checkBishop 42 = true := by decide +kernel
set_option maxRecDepth 1000000 in
theorem bishop_43 : Magic.checkBishop 43 = true := by decide +kernel
set_option maxRecDepth 1000000 in
theorem bishop_44 : Magic.checkBishop 44 = true := by decide +kernel
set_option maxRecDepth 1000000 in
theorem bishop_45 : Magic.checkBishop 45 = true := by decide +kernel
set_option maxRecDepth 1000000 in
theorem bishop_46 : Magic.checkBishop 46 = true := by decide +kernel
set_option maxRecDepth 1000000 in
theorem bishop_47 : Magic.checkBishop 47 = true := by decide +kernel
end Chess.Props.C08
