import ChessVerif.Proofs.Magic
namespace Chess.Props.C08
set_option maxRecDepth 1000000 in
theorem bishop_48 : Magic.checkBishop 48 = true := by decide +kernel
set_option maxRecDepth 1000000 in
theorem bishop_49 : Magic.checkBishop 49 = true := by decide +kernel
set_option maxRecDepth 1000000 in
theorem bishop_50 : Magic.checkBishop 50 = true := by decide +kernel
set_option maxRecDepth 1000000 in
theorem bishop_51 : Magic.checkBishop 51 = true := by decide +kernel
set_option maxRecDepth 1000000 in
theorem bishop_52 : Magic.checkBishop 52 = true := by decide +kernel
set_option maxRecDepth 1000000 in
theorem bishop_53 : Magic.checkBishop 53 = true := by decide +kernel
set_option maxRecDepth 1000000 in
theorem bishop_54 : Magic.checkBishop 54 = true := by decide +kernel
set_option maxRecDepth 1000000 in
theorem bishop_55 : Magic.checkBishop 55 = true := by decide +kernel
end Chess.Props.C08
