import ChessVerif.Proofs.Magic
namespace Chess.Props.C08
set_option maxRecDepth 1000000 in
theorem bishop_56 : Magic.checkBishop 56 = true := by decide +kernel
set_option maxRecDepth 1000000 in
theorem bishop_57 : Magic.checkBishop 57 = true := by decide +kernel
set_option maxRecDepth 1000000 in
theorem bishop_58 : Magic.checkBishop 58 = true := by decide +kernel
set_option maxRecDepth 1000000 in
theorem bishop_59 : Magic.checkBishop 59 = true := by decide +kernel
set_option maxRecDepth 1000000 in
theorem bishop_60 : Magic.checkBishop 60 = true := by decide +kernel
set_option maxRecDepth 1000000 in
theorem bishop_61 : Magic.checkBishop 61 = true := by decide +kernel
set_option maxRecDepth 1000000 in
theorem bishop_62 : Magic.checkBishop 62 = true := by decide +kernel
set_option maxRecDepth 1000000 in
theorem bishop_63 : Magic.checkBishop 63 = true := by decide +kernel
end Chess.Props.C08
