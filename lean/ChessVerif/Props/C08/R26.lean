import ChessVerif.Proofs.Magic
namespace Chess.Props.C08
set_option maxRecDepth 1000000 in
/-- rook, square 26: index in range and table entry = ray cast for every subset of the mask (kernel evaluation) -/
theorem rook_26 : Magic.checkRook 26 = true := by decide +kernel
end Chess.Props.C08
