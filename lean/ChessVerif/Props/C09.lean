/-
C09 — Geometry tables and constants equal their definitions.

The tables are *regenerated from the Rust source* (`Gen/Tables.lean`, `Gen/Consts.lean`); the
definitions are the coordinate definitions of `Spec/Geometry.lean` (no wrap-around by
construction: `step` leaves the board rather than wrapping).  Finite obligations are closed by
kernel evaluation over the whole domain (`Props/C09/*.lean`, split to run on several cores); this
file lifts them to the membership form the rest of the development uses, and proves the
pawn helpers for *all* occupancies.
-/
import ChessVerif.Props.C09.Between0
import ChessVerif.Props.C09.Between1
import ChessVerif.Props.C09.Between2
import ChessVerif.Props.C09.Between3
import ChessVerif.Props.C09.Line0
import ChessVerif.Props.C09.Line1
import ChessVerif.Props.C09.Line2
import ChessVerif.Props.C09.Line3
import ChessVerif.Props.C09.Small
import ChessVerif.Props.C09.Pawn
import ChessVerif.Proofs.BB

namespace Chess.Props.C09
open Chess Chess.Spec
open Chess.BB (mem)

/-! ### lifting lemmas -/

theorem mem_bbOfList (l : List Sq) (t : Sq) : mem (bbOfList l) t = l.contains t :=
  BB.mem_ofList l t

theorem mem_bbOfPred (p : Sq → Bool) (t : Sq) : mem (bbOfPred p) t = p t := by
  unfold bbOfPred
  rw [mem_bbOfList]
  by_cases h : p t = true
  · rw [h, List.contains_iff_mem]
    exact List.mem_filter.mpr ⟨List.mem_finRange t, h⟩
  · have h' : p t = false := by simpa using h
    rw [h']
    apply Bool.eq_false_iff.mpr
    intro hc
    rw [List.contains_iff_mem] at hc
    exact h (List.mem_filter.mp hc).2

/-! ### per-square attack tables (all 64 squares × all 64 targets) -/

/-- knight table = the eight (±1,±2)/(±2,±1) jumps that stay on the board -/
theorem mem_knightMoves (s t : Sq) : mem (Lookup.knightMoves s) t = knightAtt s t := by
  rw [knight_tbl s, mem_bbOfPred]
/-- king table = the neighbours that stay on the board -/
theorem mem_kingMoves (s t : Sq) : mem (Lookup.kingMoves s) t = kingAtt s t := by
  rw [king_tbl s, mem_bbOfPred]
/-- pawn capture table, both colours -/
theorem mem_pawnAttacksMoves (s t : Sq) (c : Color) :
    mem (Lookup.pawnAttacksMoves s c) t = pawnAtt c s t := by
  cases c
  · rw [pawnAttacks_tbl_white s, mem_bbOfPred]
  · rw [pawnAttacks_tbl_black s, mem_bbOfPred]
/-- rook rays = same rank or file, excluding the square itself -/
theorem mem_rookRays (s t : Sq) : mem (Lookup.rookRays s) t = rookAligned s t := by
  rw [rookRays_tbl s, mem_bbOfPred]
/-- bishop rays = same diagonal, excluding the square itself -/
theorem mem_bishopRays (s t : Sq) : mem (Lookup.bishopRays s) t = bishopAligned s t := by
  rw [bishopRays_tbl s, mem_bbOfPred]
/-- the rays are also exactly what walking to the board edge reaches (no wrap-around) -/
theorem mem_rookRays_walk (s t : Sq) : mem (Lookup.rookRays s) t = (rookRayList s).contains t := by
  rw [rookRays_walk s, mem_bbOfList]
theorem mem_bishopRays_walk (s t : Sq) : mem (Lookup.bishopRays s) t = (bishopRayList s).contains t := by
  rw [bishopRays_walk s, mem_bbOfList]

/-! ### pair tables (all 64 × 64 pairs) -/

theorem between_tbl (a b : Sq) : Lookup.between a b = bbOfList (betweenList a b) := by
  have h := rows_all betweenRowOk
    (fun k => by
      match k with
      | ⟨0, _⟩ => exact between_rows_0
      | ⟨1, _⟩ => exact between_rows_1
      | ⟨2, _⟩ => exact between_rows_2
      | ⟨3, _⟩ => exact between_rows_3) a
  simp only [betweenRowOk, decide_eq_true_eq] at h
  exact h b

theorem line_tbl (a b : Sq) : Lookup.line a b = bbOfList (lineList a b) := by
  have h := rows_all lineRowOk
    (fun k => by
      match k with
      | ⟨0, _⟩ => exact line_rows_0
      | ⟨1, _⟩ => exact line_rows_1
      | ⟨2, _⟩ => exact line_rows_2
      | ⟨3, _⟩ => exact line_rows_3) a
  simp only [lineRowOk, decide_eq_true_eq] at h
  exact h b

/-- `between` = the squares met when walking from `a` towards `b`, strictly before `b` -/
theorem mem_between (a b t : Sq) : mem (Lookup.between a b) t = (betweenList a b).contains t := by
  rw [between_tbl, mem_bbOfList]
/-- `line` = the whole line through both squares -/
theorem mem_line (a b t : Sq) : mem (Lookup.line a b) t = (lineList a b).contains t := by
  rw [line_tbl, mem_bbOfList]

/-- 'between' is empty for non-aligned pairs -/
theorem between_not_aligned (a b : Sq) (h : aligned a b = false) : Lookup.between a b = 0#64 := by
  rw [between_tbl]; simp [betweenList, h, bbOfList, BB.ofList, BB.empty]
/-- 'line' is empty for non-aligned pairs -/
theorem line_not_aligned (a b : Sq) (h : aligned a b = false) : Lookup.line a b = 0#64 := by
  rw [line_tbl]; simp [lineList, h, bbOfList, BB.ofList, BB.empty]

set_option maxRecDepth 100000 in
/-- Chebyshev distance -/
theorem distance_spec : ∀ a b : Sq, (Lookup.distance a b : Int) = distanceSpec a b := by decide +kernel

/-! ### adjacent files / ranks (computed statics) -/

set_option maxRecDepth 100000 in
theorem mem_adjacentFiles : ∀ (f : File) (t : Sq),
    mem (Lookup.adjacentFiles f) t = (absI (fileI t - (f.val : Int)) == 1) := by decide +kernel
set_option maxRecDepth 100000 in
theorem mem_adjacentRanks : ∀ (r : Rank) (t : Sq),
    mem (Lookup.adjacentRanks r) t = (absI (rankI t - (r.val : Int)) == 1) := by decide +kernel

/-! ### the hand-written constants of `chess-lookup/src/lib.rs` (translated as expressions) -/

open Gen.Consts in
theorem consts_spec :
    castleMoves = bbOfList [2, 58, 4, 60, 6, 62] ∧                       -- c1 c8 e1 e8 g1 g8
    pawnDoubleSource = bbOfPred (fun t => rankI t == 1 || rankI t == 6) ∧
    pawnDoubleDest = bbOfPred (fun t => rankI t == 3 || rankI t == 4) ∧
    Lookup.pawnDoubleMove .white = bbOfPred (fun t => rankI t == 1 || rankI t == 3) ∧
    Lookup.pawnDoubleMove .black = bbOfPred (fun t => rankI t == 6 || rankI t == 4) ∧
    Lookup.backrankBB .white = bbOfPred (fun t => rankI t == 0) ∧
    Lookup.backrankBB .black = bbOfPred (fun t => rankI t == 7) ∧
    rookCastleKingside = bbOfPred (fun t => fileI t == 7 || fileI t == 5) ∧
    rookCastleQueenside = bbOfPred (fun t => fileI t == 0 || fileI t == 3) ∧
    kingsideCastleFiles = bbOfPred (fun t => fileI t == 5 || fileI t == 6) ∧
    queensideCastleFiles = bbOfPred (fun t => fileI t == 1 || fileI t == 2 || fileI t == 3) ∧
    kingsideCastleSafeFiles = bbOfPred (fun t => fileI t == 5 || fileI t == 6) ∧
    queensideCastleSafeFiles = bbOfPred (fun t => fileI t == 2 || fileI t == 3) ∧
    backrank = #[0, 7] ∧ promotionRank = #[7, 0] ∧
    pawnDoubleMoveSourceRank = #[1, 6] ∧ pawnDoubleMoveDestRank = #[3, 4] ∧
    castleRookStart = #[0, 0, 0, 0, 7, 7, 7, 7] ∧ castleRookEnd = #[3, 3, 3, 3, 5, 5, 5, 5] := by
  decide +kernel

/-! ### the pawn helpers, for every square, colour and *all* 2^64 occupancies -/

/-- `pawn_attacks`: the capture squares that are occupied -/
theorem mem_pawnAttacks (s t : Sq) (c : Color) (occ : BB) :
    mem (Lookup.pawnAttacks s c occ) t = (pawnAtt c s t && mem occ t) := by
  unfold Lookup.pawnAttacks
  rw [BB.mem_and', mem_pawnAttacksMoves]

/-- the square directly in front of `s` for colour `c` -/
def front (c : Color) (s : Sq) : Option Sq := step s 0 (fwd c)

set_option maxRecDepth 100000 in
private theorem next_eq_w : ∀ s : Sq,
    BB.shiftUp (BB.ofSq s) = (match front .white s with | some u => BB.ofSq u | none => 0#64) := by
  decide +kernel
set_option maxRecDepth 100000 in
private theorem next_eq_b : ∀ s : Sq,
    BB.shiftDown (BB.ofSq s) = (match front .black s with | some u => BB.ofSq u | none => 0#64) := by
  decide +kernel

set_option maxRecDepth 100000 in
private theorem quiet_tbl_front_w : ∀ s : Sq, front .white s = none →
    Lookup.tbl2 Gen.Tables.pawnQuiets s.val 0 = 0#64 := by decide +kernel
set_option maxRecDepth 100000 in
private theorem quiet_tbl_front_b : ∀ s : Sq, front .black s = none →
    Lookup.tbl2 Gen.Tables.pawnQuiets s.val 1 = 0#64 := by decide +kernel

private theorem mem_quietTbl (c : Color) (s t : Sq) :
    mem (Lookup.tbl2 Gen.Tables.pawnQuiets s.val c.idx) t = pawnPushTbl c s t := by
  cases c
  · show mem (Lookup.tbl2 Gen.Tables.pawnQuiets s.val 0) t = _
    rw [pawnQuiets_tbl_white s, mem_bbOfPred]
  · show mem (Lookup.tbl2 Gen.Tables.pawnQuiets s.val 1) t = _
    rw [pawnQuiets_tbl_black s, mem_bbOfPred]

/-- the specified result of `pawn_quiets`: nothing when the square in front is off the board or
occupied; otherwise the table's push squares (`p`) that are empty -/
def quietRes (fr : Option Sq) (p : Sq → Bool) (occ : BB) (t : Sq) : Bool :=
  match fr with
  | none => false
  | some u => !mem occ u && p t && !mem occ t

private theorem quiets_core (next tblE occ : BB) (fr : Option Sq) (p : Sq → Bool) (t : Sq)
    (hnext : next = (match fr with | some u => BB.ofSq u | none => 0#64))
    (htbl0 : fr = none → tblE = 0#64)
    (htbl : mem tblE t = p t) :
    mem (if BB.any (next &&& occ) then BB.empty else tblE &&& ~~~occ) t = quietRes fr p occ t := by
  subst hnext
  cases fr with
  | none =>
    simp only [BitVec.zero_and, quietRes]
    have : BB.any (0#64) = false := by decide
    rw [this, htbl0 rfl]
    simp
  | some u =>
    simp only [quietRes]
    by_cases hu : mem occ u = true
    · have : BB.any (BB.ofSq u &&& occ) = true := by
        rw [BB.any_iff]; exact ⟨u, by simp [hu]⟩
      rw [this]; simp [hu]
    · have hu' : mem occ u = false := by simpa using hu
      have : BB.any (BB.ofSq u &&& occ) = false := by
        apply Bool.eq_false_iff.mpr
        intro h
        rw [BB.any_iff] at h
        obtain ⟨x, hx⟩ := h
        simp at hx
        obtain ⟨h1, h2⟩ := hx
        subst h1
        rw [hu'] at h2; cases h2
      rw [this]
      simp only [Bool.false_eq_true, if_false, BB.mem_and', BB.mem_not', htbl, hu', Bool.not_false, Bool.true_and]

/-- `pawn_quiets`: nothing when the square in front is occupied (or off the board); otherwise the
empty squares among: one step forward, two steps forward from the colour's second rank -/
theorem mem_pawnQuiets (s t : Sq) (c : Color) (occ : BB) :
    mem (Lookup.pawnQuiets s c occ) t = quietRes (front c s) (pawnPushTbl c s) occ t := by
  cases c
  · exact quiets_core _ _ occ (front .white s) (pawnPushTbl .white s) t (next_eq_w s)
      (quiet_tbl_front_w s) (mem_quietTbl .white s t)
  · exact quiets_core _ _ occ (front .black s) (pawnPushTbl .black s) t (next_eq_b s)
      (quiet_tbl_front_b s) (mem_quietTbl .black s t)

/-- `pawn_moves` = pushes ∪ captures -/
theorem mem_pawnMoves (s t : Sq) (c : Color) (occ : BB) :
    mem (Lookup.pawnMoves s c occ) t =
      (mem (Lookup.pawnQuiets s c occ) t || mem (Lookup.pawnAttacks s c occ) t) := by
  unfold Lookup.pawnMoves; rw [BB.mem_or']

/-! Non-vacuity (tests) -/
example : mem (Lookup.between 0 63) 27 = true := by decide +kernel     -- d4 lies between a1 and h8
example : Lookup.between 0 10 = 0#64 := by decide +kernel               -- a1, c2 are not aligned
example : mem (Lookup.pawnQuiets 12 .white 0#64) 28 = true := by decide +kernel   -- e2-e4 on an empty board

end Chess.Props.C09
