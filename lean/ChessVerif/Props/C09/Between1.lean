import ChessVerif.Props.C09.Defs
namespace Chess.Props.C09
set_option maxRecDepth 100000 in
theorem between_rows_1 : rowsOk betweenRowOk 1 = true := by decide +kernel
end Chess.Props.C09
