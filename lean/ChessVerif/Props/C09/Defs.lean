/- Boolean checkers used by the C09 table theorems (so that the finite obligations can be split
over modules and run on several cores). -/
import ChessVerif.Model.Lookup
import ChessVerif.Spec.Geometry

namespace Chess.Props.C09
open Chess Chess.Spec

def betweenRowOk (a : Sq) : Bool := decide (∀ b : Sq, Lookup.between a b = bbOfList (betweenList a b))
def lineRowOk (a : Sq) : Bool := decide (∀ b : Sq, Lookup.line a b = bbOfList (lineList a b))
/-- rows `16*k … 16*k+15` -/
def rowsOk (f : Sq → Bool) (k : Fin 4) : Bool :=
  decide (∀ i : Fin 16, f ⟨16 * k.val + i.val, by omega⟩ = true)

theorem rows_all (f : Sq → Bool) (h : ∀ k : Fin 4, rowsOk f k = true) (a : Sq) : f a = true := by
  have := h ⟨a.val / 16, by omega⟩
  simp only [rowsOk, decide_eq_true_eq] at this
  have := this ⟨a.val % 16, by omega⟩
  have e : (⟨16 * (a.val / 16) + a.val % 16, by omega⟩ : Sq) = a := by ext; simp; omega
  simpa [e] using this

end Chess.Props.C09
