import ChessVerif.Props.C09.Defs
namespace Chess.Props.C09
set_option maxRecDepth 100000 in
theorem line_rows_2 : rowsOk lineRowOk 2 = true := by decide +kernel
end Chess.Props.C09
