import ChessVerif.Props.C09.Defs
namespace Chess.Props.C09
set_option maxRecDepth 100000 in
theorem line_rows_3 : rowsOk lineRowOk 3 = true := by decide +kernel
end Chess.Props.C09
