import ChessVerif.Props.C09.Defs
namespace Chess.Props.C09
open Chess Chess.Spec
set_option maxRecDepth 100000

theorem pawnAttacks_tbl_white : ∀ s : Sq, Lookup.pawnAttacksMoves s .white = bbOfPred (pawnAtt .white s) := by decide +kernel
theorem pawnAttacks_tbl_black : ∀ s : Sq, Lookup.pawnAttacksMoves s .black = bbOfPred (pawnAtt .black s) := by decide +kernel
theorem pawnQuiets_tbl_white : ∀ s : Sq, Lookup.tbl2 Gen.Tables.pawnQuiets s.val 0 = bbOfPred (pawnPushTbl .white s) := by decide +kernel
theorem pawnQuiets_tbl_black : ∀ s : Sq, Lookup.tbl2 Gen.Tables.pawnQuiets s.val 1 = bbOfPred (pawnPushTbl .black s) := by decide +kernel
/-- the ray tables are also the union of the four walks to the edge (no wrap-around) -/
theorem rookRays_walk : ∀ s : Sq, Lookup.rookRays s = bbOfList (rookRayList s) := by decide +kernel
theorem bishopRays_walk : ∀ s : Sq, Lookup.bishopRays s = bbOfList (bishopRayList s) := by decide +kernel
end Chess.Props.C09
