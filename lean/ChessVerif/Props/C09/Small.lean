import ChessVerif.Props.C09.Defs
/-! per-square tables = coordinate definitions, by kernel evaluation over all 64 squares -/
namespace Chess.Props.C09
open Chess Chess.Spec
set_option maxRecDepth 100000

theorem knight_tbl : ∀ s : Sq, Lookup.knightMoves s = bbOfPred (knightAtt s) := by decide +kernel
theorem king_tbl : ∀ s : Sq, Lookup.kingMoves s = bbOfPred (kingAtt s) := by decide +kernel
theorem rookRays_tbl : ∀ s : Sq, Lookup.rookRays s = bbOfPred (rookAligned s) := by decide +kernel
theorem bishopRays_tbl : ∀ s : Sq, Lookup.bishopRays s = bbOfPred (bishopAligned s) := by decide +kernel
end Chess.Props.C09
