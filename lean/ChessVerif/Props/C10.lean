/-
C10 — Move iterator honours its size and filtering contracts.

`Props/C10/Basic.lean` holds the refinement of the iterator (`next`, `len`, `is_empty`,
`size_hint`, `remove`, `remove_move`, `set_mask`) to "the list of moves its entries denote"
(`movesOf`) for states whose promotion cursor is at a group boundary — the states in which the
recorded findings F11/F13 (known_findings.jsonl) cannot occur.  This file adds the statements
about masks: generation under a mask, `set_mask` on an existing iterator, and successive masks
that together cover the board.
-/
import ChessVerif.Props.C10.Basic
import ChessVerif.Proofs.IterMask
import ChessVerif.Proofs.IterLen

namespace Chess.Props.C10
open Chess Chess.MoveGen

/-- **`legals_masked(m)`** yields exactly full generation filtered by destination, in the same
order — for every board -/
theorem movesOf_legalsMasked (b : Board) (m : BB) :
    movesOf (legalsMasked b m) = (movesOf (legals b)).filter (fun x => BB.mem m x.dest) :=
  Proofs.IterMask.movesOf_legalsMasked b m

/-- … i.e., by C01, exactly the legal moves whose destination lies in the mask, each once -/
theorem legalsMasked_iff (b : Board) (h : b.WF = true) (m : BB) (x : Move) :
    x ∈ movesOf (legalsMasked b m) ↔ ((Spec.abs b).legal x = true ∧ BB.mem m x.dest = true) :=
  Proofs.IterMask.legalsMasked_iff b h m x

theorem legalsMasked_nodup (b : Board) (h : b.WF = true) (m : BB) : (movesOf (legalsMasked b m)).Nodup :=
  Proofs.IterMask.legalsMasked_nodup b h m

/-- **`set_mask(m)`** on an existing iterator denotes exactly the not-yet-yielded moves with
destination in `m` -/
theorem setMask_perm_filter (g : MoveGen) (m : BB) :
    (movesOf (g.setMask m)).Perm ((Proofs.IterMask.allMoves g).filter (fun x => BB.mem m x.dest)) :=
  Proofs.IterMask.setMask_perm_filter g m

/-- one round under a mask: yields the remaining moves with destination in the mask, leaves the others -/
theorem drainSt_round (g : MoveGen) (hg : g.promoIdx = 0) (m : BB) (fuel : Nat)
    (hf : (Proofs.IterMask.allMoves g).length < fuel) :
    let r := Proofs.IterMask.drainSt fuel (g.setMask m)
    r.1.Perm ((Proofs.IterMask.allMoves g).filter (fun x => BB.mem m x.dest)) ∧
    r.2.promoIdx = 0 ∧
    (Proofs.IterMask.allMoves r.2).Perm ((Proofs.IterMask.allMoves g).filter (fun x => !BB.mem m x.dest)) :=
  Proofs.IterMask.drainSt_round g hg m fuel hf

/-- **successive masks that together cover the board** yield every remaining move exactly once -/
theorem rounds_cover (g : MoveGen) (hg : g.promoIdx = 0) (ms : List BB) (fuel : Nat)
    (hf : (Proofs.IterMask.allMoves g).length < fuel)
    (hcover : ∀ s : Sq, ∃ m ∈ ms, BB.mem m s = true) :
    (Proofs.IterMask.rounds fuel g ms).Perm (Proofs.IterMask.allMoves g) :=
  Proofs.IterMask.rounds_cover g hg ms fuel hf hcover

/-- … for the legal moves of a well-formed board: every legal move exactly once -/
theorem rounds_legals (b : Board) (h : b.WF = true) (ms : List BB)
    (hcover : ∀ s : Sq, ∃ m ∈ ms, BB.mem m s = true) :
    (Proofs.IterMask.rounds 5000 (legals b) ms).Perm b.legalsList ∧
    (Proofs.IterMask.rounds 5000 (legals b) ms).Nodup :=
  Proofs.IterMask.rounds_legals b h ms hcover

/-! ### at every point of an iteration, also in the middle of a promotion group -/

/-- `len` (= `size_hint`) is the number of moves still to come in every state reached by iterating: the promotion
cursor may stand anywhere inside the group of a non-empty promotion entry (`Good`) -/
theorem len_eq_midgroup (g : MoveGen) (hg : Good g) : g.len = (mvsAt g).length :=
  len_eq_mvsAt g hg

/-- **after any number of `next` calls** on an iterator that started at a group boundary (freshly generated, or just
masked), `len` is exactly the number of moves not yet yielded … -/
theorem len_along_iteration (g : MoveGen) (h0 : g.promoIdx = 0) (n : Nat) :
    (iterate n g).len = (movesOf g).length - n :=
  MoveGen.len_along_iteration g h0 n

/-- … and the next call yields exactly the `n`-th move of what the iterator denoted at the start -/
theorem next_along_iteration (g : MoveGen) (h0 : g.promoIdx = 0) (n : Nat) :
    ((iterate n g).next).1 = (movesOf g)[n]? :=
  MoveGen.next_along_iteration g h0 n

/-- non-vacuity: two calls into a promotion group (cursor 2), six of the eight moves of a two-destination
promotion entry are left -/
example : (iterate 2 ⟨[⟨52, 0x3000000000000000#64, true⟩], 0, BB.full, 0⟩).len = 6 ∧
    (iterate 2 ⟨[⟨52, 0x3000000000000000#64, true⟩], 0, BB.full, 0⟩).promoIdx = 2 := by decide

/-- non-vacuity (test): captures first, then everything — the engine's root ordering — on the start position -/
example : (Proofs.IterMask.rounds 5000 (legals Board.standard) [Board.standard.raw.color .black, BB.full]).length = 20 := by
  decide +kernel

end Chess.Props.C10
