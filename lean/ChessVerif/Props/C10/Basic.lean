/-
C10 — Move iterator honours its size and filtering contracts.

`MoveGen` (Model/MoveGen.lean) is the model of the Rust iterator *after* the `fix:` commits.
`movesOf g` is what the iterator state denotes: the moves it will still yield under its mask, in
order.  The theorems say `next`, `len`, `is_empty`, `size_hint` agree with it for every state
whose promotion cursor is at a group boundary (`promoIdx = 0`) — the states in which the
recorded findings F11/F13 (known_findings.jsonl) cannot occur — and how `set_mask`, `remove`,
`remove_move` change it.
-/
import ChessVerif.Proofs.Iter

namespace Chess.Props.C10
open Chess Chess.MoveGen

/-- the moves one entry contributes under a mask: for each masked destination in ascending order,
the four promotion choices (in `PROMOTION_PIECES` order) or the plain move -/
def entryMoves (e : Entry) (mask : BB) : List Move :=
  (BB.toList (e.moves &&& mask)).flatMap fun d =>
    if e.promotion then promoPieces.map (fun p => (⟨e.src, d, some p⟩ : Move)) else [⟨e.src, d, none⟩]

/-- what the iterator will still yield (cursor at a group boundary) -/
def movesOf (g : MoveGen) : List Move := (g.moves.drop g.index).flatMap (fun e => entryMoves e g.mask)

/-- the denotation functions above are the ones the helper lemmas (Proofs/Iter.lean) speak about -/
theorem entryMoves_eq : entryMoves = eMoves := rfl
theorem movesOf_eq : movesOf = mvsOf := rfl

/-- `PROMOTION_PIECES` has four entries (translated constant) -/
theorem promo_count : promoPieces.length = 4 ∧ numPromo = 4 := by decide

/-- `len` (= `size_hint`) is the number of moves still to be yielded -/
theorem len_eq (g : MoveGen) (h : g.promoIdx = 0) : g.len = (movesOf g).length :=
  len_eq_mvsOf g h

/-- `is_empty` iff nothing is left to yield -/
theorem isEmpty_iff (g : MoveGen) (h : g.promoIdx = 0) : g.isEmpty = (movesOf g).isEmpty := by
  have _ := h   -- holds for every cursor position
  exact isEmpty_eq_mvsOf g

/-- `next` on a non-promotion head entry: yields the head of `movesOf` and leaves a state denoting the tail -/
theorem next_none_iff (g : MoveGen) (h : g.promoIdx = 0) : (g.next).1 = none ↔ movesOf g = [] := by
  rw [(next_spec g (good_of_zero g h)).1, mvsAt_of_zero g h, List.head?_eq_none_iff]
  rfl

/-- draining yields exactly `movesOf g` (each once, in order) -/
theorem drain_eq (g : MoveGen) (h : g.promoIdx = 0) (fuel : Nat) (hf : (movesOf g).length < fuel) :
    drain fuel g = movesOf g := by
  rw [movesOf_eq] at hf ⊢
  rw [← mvsAt_of_zero g h] at hf ⊢
  exact drain_eq_mvsAt fuel g (good_of_zero g h) hf

/-- `remove(mask)` removes exactly the moves whose destination lies in `mask` -/
theorem movesOf_remove (g : MoveGen) (m : BB) :
    movesOf (g.remove m) = (movesOf g).filter (fun mv => !BB.mem m mv.dest) :=
  mvsOf_remove g m

/-- `remove_move(mv)` for a non-promotion entry removes exactly that move
(for a promotion entry it removes all four choices of the destination: finding F11) -/
theorem movesOf_removeMove (g : MoveGen) (mv : Move)
    (hnp : ∀ e ∈ g.moves, e.src = mv.source → e.promotion = false) (hp : mv.piece = none) :
    movesOf (g.removeMove mv).1 = (movesOf g).filter (fun x => x != mv) :=
  mvsOf_removeMove g mv hnp hp

/-- `set_mask(m)` restarts at the first entry and keeps every entry's destinations: the new state
denotes, up to order, all not-yet-yielded moves of all entries whose destination lies in `m` -/
theorem movesOf_setMask_perm (g : MoveGen) (m : BB) :
    (movesOf (g.setMask m)).Perm (g.moves.flatMap (fun e => entryMoves e m)) :=
  mvsOf_setMask_perm g m

/-- `legals_masked(mask)` starts from an iterator whose mask is `mask`; `legals()` from the full mask -/
theorem legalsMasked_mask (b : Board) (m : BB) : (legalsMasked b m).mask = m ∧ (legalsMasked b m).index = 0 ∧ (legalsMasked b m).promoIdx = 0 := by
  simp [legalsMasked]

/-- `next` in a group-boundary state: it yields the head of `movesOf`; the successor state is again
described by the cursor-aware denotation `mvsAt` (= `movesOf` whenever its cursor is 0) -/
theorem next_head (g : MoveGen) (h : g.promoIdx = 0) :
    (g.next).1 = (movesOf g).head? ∧ mvsAt (g.next).2 = (movesOf g).tail ∧ Good (g.next).2 := by
  have := next_spec g (good_of_zero g h)
  rw [mvsAt_of_zero g h] at this
  exact this

/-- `next` on a non-promotion head: the successor is at a group boundary and denotes the tail -/
theorem next_tail_of_boundary (g : MoveGen) (h : g.promoIdx = 0) (h' : (g.next).2.promoIdx = 0) :
    movesOf (g.next).2 = (movesOf g).tail := by
  rw [← (next_head g h).2.1, mvsAt_of_zero _ h']
  rfl

/-! Non-vacuity (tests): an empty entry, a promotion entry with two destinations, a plain entry -/
example : drain 20 ⟨[⟨3, 0#64, false⟩, ⟨52, 0x3000000000000000#64, true⟩, ⟨1, 0x50000#64, false⟩], 0, BB.full, 0⟩ =
    movesOf ⟨[⟨3, 0#64, false⟩, ⟨52, 0x3000000000000000#64, true⟩, ⟨1, 0x50000#64, false⟩], 0, BB.full, 0⟩ := by decide
example : (movesOf ⟨[⟨3, 0#64, false⟩, ⟨52, 0x3000000000000000#64, true⟩, ⟨1, 0x50000#64, false⟩], 0, BB.full, 0⟩).length = 10 := by
  decide

end Chess.Props.C10
