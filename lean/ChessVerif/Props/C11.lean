/-
C11 — Search returns a legal move whenever the time limit may expire (partial: wall-clock expiry
is replaced by the index `k` of the first poll that reports expiry; that `DurationTimeout` is
monotone is an assumption about `Instant`).

`Engine.search pos b tf k prev` is the model of `Engine::search` of an engine with `positional = pos` (the shipped
configuration `Engine::default()` is `pos = false`) and a timeout firing at poll `k`.  Every statement holds for both
values of the flag: the proofs use of the evaluation only that it returns a numeric score.
-/
import ChessVerif.Model.Engine
import ChessVerif.Proofs.Search
import ChessVerif.Proofs.CliGame
import ChessVerif.Proofs.Referee
import ChessVerif.Proofs.Verdicts
import ChessVerif.Proofs.Search.Depth0

namespace Chess.Props.C11
open Chess Chess.Engine

/-- the search terminates for every expiry index: the deepening loop is structurally bounded by
`k + 2` passes and every pass makes at least one poll, so the poll counter reaches `k`; the model
is a total function (Lean's termination checker accepted `deepen`, `alphabeta`, `children`,
`rootLoop` by structural recursion on their fuel arguments).  This lemma records that polls only
ever increase. -/
theorem poll_mono (k : Nat) (st : St) : (poll k st).2.polls = st.polls + 1 := rfl

/-- once a poll has reported expiry every later poll does too (the modelled timeout is monotone) -/
theorem poll_monotone (k : Nat) (st st' : St) (h : st.polls ≤ st'.polls) (hd : (poll k st).1 = true) :
    (poll k st').1 = true := by
  simp only [poll, decide_eq_true_eq] at *; omega

/-- with the limit already expired no root move is ever accepted -/
theorem rootMove_expired (pos : Bool) (board : Board) (pc : Color) (depth : Nat) (tf : ThreeFold) (mv : Move) (p : Pass) (st : St) :
    (rootMove pos 0 board pc depth tf mv p st).1 = none := by
  simp [rootMove, poll]

theorem rootLoop_expired (pos : Bool) (board : Board) (pc : Color) (depth : Nat) (tf : ThreeFold) :
    ∀ (n : Nat) (g : MoveGen) (p : Pass) (st : St), (rootLoop pos 0 board pc depth tf n g p st).1 = p := by
  intro n
  induction n with
  | zero => intro g p st; rfl
  | succ n ih =>
    intro g p st
    unfold rootLoop
    split
    · rfl
    · rename_i mv g' _
      have h := rootMove_expired pos board pc depth tf mv p st
      split
      · rfl
      · rename_i p' st' heq
        rw [heq] at h; cases h

/-- **expiry at once** (`k = 0`): for every board and history the search returns no move — and so
trivially not an illegal one — after a bounded amount of work -/
theorem search_immediate (pos : Bool) (b : Board) (tf : ThreeFold) (prev : Nat) :
    (search pos b tf 0 prev).move = none := by
  unfold search deepen
  simp only [Nat.zero_add]
  split
  · rfl
  · simp only [rootLoop_expired]
    split
    · rfl
    · rename_i h
      simp [poll] at h

open Chess.Spec Chess.Proofs.Search in
/-- **a returned move is legal** — every board, every repetition history, every index `k` at which
the timeout first reports expiry, every stale `max_depth`: the move is one the generator yields … -/
theorem search_legal (pos : Bool) (b : Board) (tf : ThreeFold) (k prev : Nat) (mv : Move)
    (h : (search pos b tf k prev).move = some mv) : mv ∈ Props.C10.movesOf (MoveGen.legals b) :=
  Proofs.Search.search_legal pos b tf k prev mv h

open Chess.Spec in
/-- … which on well-formed boards (C06, C02: every parsed and every reachable position) means legal
by the rules of chess -/
theorem search_legal_spec (pos : Bool) (b : Board) (hwf : b.WF = true) (tf : ThreeFold) (k prev : Nat) (mv : Move)
    (h : (search pos b tf k prev).move = some mv) : (abs b).legal mv = true :=
  Proofs.Search.search_legal_spec pos b hwf tf k prev mv h

/-- **no legal move: no move returned** -/
theorem search_none (pos : Bool) (b : Board) (tf : ThreeFold) (k prev : Nat)
    (h : (MoveGen.legals b).isEmpty = true) : (search pos b tf k prev).move = none :=
  Proofs.Search.search_none pos b tf k prev h

open Chess.Spec in
theorem search_none_spec (pos : Bool) (b : Board) (hwf : b.WF = true) (tf : ThreeFold) (k prev : Nat)
    (h : (abs b).legalMoves = []) : (search pos b tf k prev).move = none :=
  Proofs.Search.search_none_spec pos b hwf tf k prev h

open Chess.Proofs.Search in
/-- the first pass did not finish before the limit: no move is returned -/
theorem search_unfinished (pos : Bool) (b : Board) (tf : ThreeFold) (k prev : Nat)
    (h : firstPassFinished pos b tf k = false) : (search pos b tf k prev).move = none :=
  Proofs.Search.search_unfinished pos b tf k prev h

open Chess.Proofs.Search in
/-- **a move is returned whenever legal moves exist and the first deepening pass finished** -/
theorem search_some (pos : Bool) (b : Board) (tf : ThreeFold) (k prev : Nat)
    (hf : firstPassFinished pos b tf k = true) (hm : (MoveGen.legals b).isEmpty = false) :
    (search pos b tf k prev).move.isSome = true :=
  Proofs.Search.search_some pos b tf k prev hf hm

open Chess.Spec Chess.Proofs.Search in
theorem search_some_spec (pos : Bool) (b : Board) (hwf : b.WF = true) (tf : ThreeFold) (k prev : Nat)
    (hf : firstPassFinished pos b tf k = true) (hm : (abs b).legalMoves ≠ []) :
    (search pos b tf k prev).move.isSome = true :=
  Proofs.Search.search_some_spec pos b hwf tf k prev hf hm

/-! ### the consumer: the game loop of the command line (`Model/Cli.lean`) -/

/-- **the command line never fails `assert!(board.move_mut(mv))` on a searched move**: from every well-formed board
(every position its argument parser accepts, the standard start, every position it reaches), with every repetition table,
and whatever the clock does — every list of poll indices at which the successive searches' time limits expire -/
theorem cli_game_loop_never_asserts (fuel : Nat) (b : Board) (hwf : b.WF = true) (tf : ThreeFold) (prev : Nat)
    (ks : List Nat) : Cli.gameLoop fuel b tf prev ks ≠ .error .assertMoveMut :=
  Cli.gameLoop_never_asserts fuel b hwf tf prev ks

/-- non-vacuity: with the limit expiring at once the loop ends with "no move" on the standard board -/
example : (match Cli.gameLoop 3 Board.standard [] 0 [0] with
    | .ok (o, _) => o == .noMove | .error _ => false) = true := by decide +kernel

/-! ### the consumer: the referee of `chess-cli bot-fight` (`Model/Referee.lean`) over two loads of the plugin

`Referee.game ks`: one game from the standard position, `ks` the poll indices at which the successive evaluations' limits
expire (the wall clock as a parameter).  Whatever the clock does: -/

/-- the two engines hold the same board and the same repetition table throughout -/
theorem referee_lock_step (ks : List Nat) : (Referee.game ks).a = (Referee.game ks).b := Referee.game_sync ks

open Chess.Spec in
/-- **the recorded game is a legal game of chess** from the standard position (every move the referee took from an
engine was legal in the position reached; it never consults `is_valid`) -/
theorem referee_game_legal (ks : List Nat) (hk : ks.length < 60000) :
    (abs Board.standard).playable (Referee.game ks).moves := Referee.game_legal ks hk

open Chess.Spec in
/-- **a win is a checkmate by the rules, credited to the side that made the last move** -/
theorem referee_checkmate_truthful (ks : List Nat) (w : Bool) (h : (Referee.game ks).result = .checkMate w) :
    (abs (Referee.game ks).a.board).classify = .checkMate ∧
    (Referee.game ks).a.board.turn = (if w then .black else .white) := Referee.game_checkMate ks w h

open Chess.Proofs.Search in
/-- **"didn't move" is said of the side to move, and only when its search was cut short** before the first deepening
pass finished (legal moves exist whenever the referee asks) -/
theorem referee_didnt_move_truthful (ks : List Nat) (w : Bool) (h : (Referee.game ks).result = .didntMove w) :
    w = ((Referee.game ks).a.board.turn == .white) ∧
    ∃ k ∈ ks, firstPassFinished false (Referee.game ks).a.board (Referee.game ks).a.table k = false :=
  Referee.game_didntMove ks w h

/-- … from any well-formed position and any common state of the two engines, not only the standard start -/
theorem referee_loop_moves (fuel : Nat) (s : Bot.State) (hwf : s.board.WF = true) (ms : List Move) (ks : List Nat) :
    ∃ new, (Referee.loop fuel s s ms ks).moves = ms ++ new ∧ new.length ≤ ks.length ∧
      Book.playAll (fun b m => Board.moveNew b m) s.board new = some (Referee.loop fuel s s ms ks).a.board :=
  Referee.loop_moves fuel s hwf ms ks

/-- non-vacuity: with every limit expired at once the game is "White didn't move" after no move -/
example : (Referee.game [0]).result = .didntMove true ∧ (Referee.game [0]).moves = [] := by decide +kernel

/-! ### what the two game loops SAY about a game is true (`Proofs/Verdicts.lean`), whatever the clock does -/

open Chess.Spec in
/-- the command line prints "WIN" only on a checkmate by the rules -/
theorem cli_win_truthful (fuel : Nat) (b : Board) (hwf : b.WF = true) (tf : ThreeFold) (prev : Nat) (ks : List Nat)
    (b' : Board) (h : Cli.gameLoop fuel b tf prev ks = .ok (.win, b')) : (abs b').classify = .checkMate :=
  Cli.gameLoop_win fuel b hwf tf prev ks b' h

open Chess.Spec in
/-- … "DRAW (NO LEGAL MOVES)" only on a stalemate by the rules -/
theorem cli_stalemate_truthful (fuel : Nat) (b : Board) (hwf : b.WF = true) (tf : ThreeFold) (prev : Nat) (ks : List Nat)
    (b' : Board) (h : Cli.gameLoop fuel b tf prev ks = .ok (.noLegalMoves, b')) :
    (abs b').legalMoves = [] ∧ (abs b').inCheck b'.turn = false :=
  Cli.gameLoop_noLegalMoves fuel b hwf tf prev ks b' h

open Chess.Spec Chess.Proofs.Search in
/-- … and "DRAW (MATERIAL)" — its word for "the search returned no move" — only when the position it was started on had no
legal move, or when a search was cut short before its first deepening pass finished -/
theorem cli_no_move_truthful (fuel : Nat) (b : Board) (hwf : b.WF = true) (tf : ThreeFold) (prev : Nat) (ks : List Nat)
    (b' : Board) (h : Cli.gameLoop fuel b tf prev ks = .ok (.noMove, b')) :
    (b' = b ∧ (abs b).legalMoves = []) ∨ ∃ k ∈ ks, ∃ tf' : ThreeFold, firstPassFinished false b' tf' k = false :=
  Cli.gameLoop_noMove fuel b hwf tf prev ks b' h

/-- the game the command line plays consists of legal moves -/
theorem cli_game_reachable (fuel : Nat) (b : Board) (hwf : b.WF = true) (tf : ThreeFold) (prev : Nat) (ks : List Nat)
    (o : Cli.Outcome) (b' : Board) (h : Cli.gameLoop fuel b tf prev ks = .ok (o, b')) : Board.Reachable b b' :=
  Cli.gameLoop_reachable fuel b hwf tf prev ks o b' h

open Chess.Spec in
/-- the referee declares a draw only after a move and only for a reason: the plugin raised its threefold flag on that move
(C15 says when it does), or the position reached is a draw by `Board::state` (C03) -/
theorem referee_draw_truthful (ks : List Nat) (h : (Referee.game ks).result = .staleMate) :
    (Referee.game ks).moves ≠ [] ∧
    ((abs (Referee.game ks).a.board).classify = .staleMate ∨
     ∃ (pre : Bot.State) (mv : Move), Bot.makeMove pre mv = ((Referee.game ks).a, ⟨true, true⟩)) :=
  Referee.game_staleMate ks h

/-! ### non-vacuity of the `pos` argument

(stated without the numbers of the evaluation, which the translator re-reads from the source on every run: a retuned
piece-square map must not break an example) -/

/-- the flag is not ignored by the evaluation: after 1. e4 the positional engine and the shipped one score differently -/
example : eval true (Board.standard.moveUnchecked ⟨12, 28, none⟩) ≠ eval false (Board.standard.moveUnchecked ⟨12, 28, none⟩) := by
  decide +kernel

/-- `Engine.search true` with the limit expiring at once, on the standard board -/
example : (search true Board.standard [] 0).move = none ∧ (search true Board.standard [] 0).score = .min := by
  decide +kernel

open Chess.Proofs.Search in
/-- `Engine.search` on the standard board with the limit expiring right after the first deepening pass (20 root moves,
one poll each, and the closing poll): under both configurations the first pass finishes and a move is returned, as
`search_some` says it must -/
example : firstPassFinished true Board.standard [] 21 = true ∧ firstPassFinished false Board.standard [] 21 = true ∧
    (search true Board.standard [] 21).move.isSome = true ∧ (search false Board.standard [] 21).move.isSome = true := by
  have h1 : firstPassFinished true Board.standard [] 21 = true := by
    unfold firstPassFinished; rw [firstPass_eq0]; decide +kernel
  have h2 : firstPassFinished false Board.standard [] 21 = true := by
    unfold firstPassFinished; rw [firstPass_eq0]; decide +kernel
  have hm : (MoveGen.legals Board.standard).isEmpty = false := by decide +kernel
  exact ⟨h1, h2, search_some true _ _ 21 0 h1 hm, search_some false _ _ 21 0 h2 hm⟩

end Chess.Props.C11
