/-
C11 — Search returns a legal move whenever the time limit may expire (partial: wall-clock expiry
is replaced by the index `k` of the first poll that reports expiry; that `DurationTimeout` is
monotone is an assumption about `Instant`).

`Engine.search b tf k prev` is the model of `Engine::search` with a timeout firing at poll `k`.
-/
import ChessVerif.Model.Engine
import ChessVerif.Proofs.Search
import ChessVerif.Proofs.CliGame

namespace Chess.Props.C11
open Chess Chess.Engine

/-- the search terminates for every expiry index: the deepening loop is structurally bounded by
`k + 2` passes and every pass makes at least one poll, so the poll counter reaches `k`; the model
is a total function (Lean's termination checker accepted `deepen`, `alphabeta`, `children`,
`rootLoop` by structural recursion on their fuel arguments).  This lemma records that polls only
ever increase. -/
theorem poll_mono (k : Nat) (st : St) : (poll k st).2.polls = st.polls + 1 := rfl

/-- once a poll has reported expiry every later poll does too (the modelled timeout is monotone) -/
theorem poll_monotone (k : Nat) (st st' : St) (h : st.polls ≤ st'.polls) (hd : (poll k st).1 = true) :
    (poll k st').1 = true := by
  simp only [poll, decide_eq_true_eq] at *; omega

/-- with the limit already expired no root move is ever accepted -/
theorem rootMove_expired (board : Board) (pc : Color) (depth : Nat) (tf : ThreeFold) (mv : Move) (p : Pass) (st : St) :
    (rootMove 0 board pc depth tf mv p st).1 = none := by
  simp [rootMove, poll]

theorem rootLoop_expired (board : Board) (pc : Color) (depth : Nat) (tf : ThreeFold) :
    ∀ (n : Nat) (g : MoveGen) (p : Pass) (st : St), (rootLoop 0 board pc depth tf n g p st).1 = p := by
  intro n
  induction n with
  | zero => intro g p st; rfl
  | succ n ih =>
    intro g p st
    unfold rootLoop
    split
    · rfl
    · rename_i mv g' _
      have h := rootMove_expired board pc depth tf mv p st
      split
      · rfl
      · rename_i p' st' heq
        rw [heq] at h; cases h

/-- **expiry at once** (`k = 0`): for every board and history the search returns no move — and so
trivially not an illegal one — after a bounded amount of work -/
theorem search_immediate (b : Board) (tf : ThreeFold) (prev : Nat) :
    (search b tf 0 prev).move = none := by
  unfold search deepen
  simp only [Nat.zero_add]
  split
  · rfl
  · simp only [rootLoop_expired]
    split
    · rfl
    · rename_i h
      simp [poll] at h

open Chess.Spec Chess.Proofs.Search in
/-- **a returned move is legal** — every board, every repetition history, every index `k` at which
the timeout first reports expiry, every stale `max_depth`: the move is one the generator yields … -/
theorem search_legal (b : Board) (tf : ThreeFold) (k prev : Nat) (mv : Move)
    (h : (search b tf k prev).move = some mv) : mv ∈ Props.C10.movesOf (MoveGen.legals b) :=
  Proofs.Search.search_legal b tf k prev mv h

open Chess.Spec in
/-- … which on well-formed boards (C06, C02: every parsed and every reachable position) means legal
by the rules of chess -/
theorem search_legal_spec (b : Board) (hwf : b.WF = true) (tf : ThreeFold) (k prev : Nat) (mv : Move)
    (h : (search b tf k prev).move = some mv) : (abs b).legal mv = true :=
  Proofs.Search.search_legal_spec b hwf tf k prev mv h

/-- **no legal move: no move returned** -/
theorem search_none (b : Board) (tf : ThreeFold) (k prev : Nat)
    (h : (MoveGen.legals b).isEmpty = true) : (search b tf k prev).move = none :=
  Proofs.Search.search_none b tf k prev h

open Chess.Spec in
theorem search_none_spec (b : Board) (hwf : b.WF = true) (tf : ThreeFold) (k prev : Nat)
    (h : (abs b).legalMoves = []) : (search b tf k prev).move = none :=
  Proofs.Search.search_none_spec b hwf tf k prev h

open Chess.Proofs.Search in
/-- the first pass did not finish before the limit: no move is returned -/
theorem search_unfinished (b : Board) (tf : ThreeFold) (k prev : Nat)
    (h : firstPassFinished b tf k = false) : (search b tf k prev).move = none :=
  Proofs.Search.search_unfinished b tf k prev h

open Chess.Proofs.Search in
/-- **a move is returned whenever legal moves exist and the first deepening pass finished** -/
theorem search_some (b : Board) (tf : ThreeFold) (k prev : Nat)
    (hf : firstPassFinished b tf k = true) (hm : (MoveGen.legals b).isEmpty = false) :
    (search b tf k prev).move.isSome = true :=
  Proofs.Search.search_some b tf k prev hf hm

open Chess.Spec Chess.Proofs.Search in
theorem search_some_spec (b : Board) (hwf : b.WF = true) (tf : ThreeFold) (k prev : Nat)
    (hf : firstPassFinished b tf k = true) (hm : (abs b).legalMoves ≠ []) :
    (search b tf k prev).move.isSome = true :=
  Proofs.Search.search_some_spec b hwf tf k prev hf hm

/-! ### the consumer: the game loop of the command line (`Model/Cli.lean`) -/

/-- **the command line never fails `assert!(board.move_mut(mv))` on a searched move**: from every well-formed board
(every position its argument parser accepts, the standard start, every position it reaches), with every repetition table,
and whatever the clock does — every list of poll indices at which the successive searches' time limits expire -/
theorem cli_game_loop_never_asserts (fuel : Nat) (b : Board) (hwf : b.WF = true) (tf : ThreeFold) (prev : Nat)
    (ks : List Nat) : Cli.gameLoop fuel b tf prev ks ≠ .error .assertMoveMut :=
  Cli.gameLoop_never_asserts fuel b hwf tf prev ks

/-- non-vacuity: with the limit expiring at once the loop ends with "no move" on the standard board -/
example : (match Cli.gameLoop 3 Board.standard [] 0 [0] with
    | .ok (o, _) => o == .noMove | .error _ => false) = true := by decide +kernel

end Chess.Props.C11
