/-
C12 — A mate in one is always found and truthfully reported.

`Props/C12/Basic.lean`: the score facts (a mate in one for the mover outranks every other score the
search can return for that mover).  This file: the statements about the whole search, proved in
`Proofs/Search.lean` for every board, every repetition history, every expiry index `k` of the
modelled timeout and every value of the stale `max_depth` field.

`firstPassFinished b tf k`: the poll that closes the first deepening pass (depth 0) did not report
expiry.  `isMateMove b mv`: the successor has no legal move and its side to move is in check
(`isMateMove_spec`: for well-formed boards that is checkmate by the rules of chess).
-/
import ChessVerif.Props.C12.Basic
import ChessVerif.Proofs.Search

namespace Chess.Props.C12
open Chess Chess.Spec Chess.Engine Chess.Proofs.Search

/-- **found**: if the side to move can mate in one and the time limit lets the first pass finish,
the search returns a mating move together with that side's mate-in-one score.

Side condition `drawnCapture … = false` on the witness: `alphabeta` scores a *capture that leaves
insufficient material* (K v K, K+N v K, K+B v K) as a draw before it looks for mate.  No such move
can mate in chess (a lone minor piece cannot mate a bare king); that chess fact is not proved here,
so the theorem is stated for a mating move that is not of this kind — this is the only gap between
this theorem and the property as worded (`mate1_found_partial` in the sense of DESIGN.md). -/
theorem mate1_found (b : Board) (hwf : b.WF = true) (tf : ThreeFold) (k prev : Nat)
    (hf : firstPassFinished b tf k = true)
    (hm : ∃ mv ∈ Props.C10.movesOf (MoveGen.legals b), isMateMove b mv = true ∧ drawnCapture b mv = false) :
    ∃ mv, (search b tf k prev).move = some mv ∧ isMateMove b mv = true ∧
      (search b tf k prev).score = mateInOne b.turn :=
  Proofs.Search.mate1_found b hwf tf k prev hf hm

/-- **truthful**: a mate-in-one score for the side to move is only ever reported together with a
move that mates — every board, history, expiry index -/
theorem mate1_truthful (b : Board) (tf : ThreeFold) (k prev : Nat)
    (hs : (search b tf k prev).score = mateInOne b.turn) :
    ∃ mv, (search b tf k prev).move = some mv ∧ isMateMove b mv = true :=
  Proofs.Search.mate1_truthful b tf k prev hs

/-- "mates" in terms of the rules of chess -/
theorem isMateMove_spec (b : Board) (hwf : b.WF = true) (mv : Move) (hl : (abs b).legal mv = true) :
    isMateMove b mv = decide (((abs b).apply mv).classify = .checkMate) :=
  Proofs.Search.isMateMove_spec b hwf mv hl

end Chess.Props.C12
