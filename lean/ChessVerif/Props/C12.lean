/-
C12 — A mate in one is always found and truthfully reported.

`Props/C12/Basic.lean`: the score facts (a mate in one for the mover outranks every other score the
search can return for that mover).  This file: the statements about the whole search, proved in
`Proofs/Search.lean` for every board, every repetition history, every expiry index `k` of the
modelled timeout and every value of the stale `max_depth` field.

`firstPassFinished pos b tf k` (`pos` is the engine's `positional` flag; every statement holds for both values):
the poll that closes the first deepening pass (depth 0) did not report
expiry.  `isMateMove b mv`: the successor has no legal move and its side to move is in check
(`isMateMove_spec`: for well-formed boards that is checkmate by the rules of chess).
-/
import ChessVerif.Props.C12.Basic
import ChessVerif.Proofs.Search
import ChessVerif.Proofs.Insufficient

namespace Chess.Props.C12
open Chess Chess.Spec Chess.Engine Chess.Proofs.Search

/-- **found**: if the side to move can mate in one and the time limit lets the first pass finish,
the search returns a mating move together with that side's mate-in-one score — every well-formed
board, repetition history, expiry index, stale `max_depth`.

(`alphabeta` scores a capture that leaves insufficient material as a draw *before* it looks for
mate; `insufficient_not_mate` below shows such a move never mates, so no side condition is needed.) -/
theorem mate1_found (pos : Bool) (b : Board) (hwf : b.WF = true) (tf : ThreeFold) (k prev : Nat)
    (hf : firstPassFinished pos b tf k = true)
    (hm : ∃ mv ∈ Props.C10.movesOf (MoveGen.legals b), isMateMove b mv = true) :
    ∃ mv, (search pos b tf k prev).move = some mv ∧ isMateMove b mv = true ∧
      (search pos b tf k prev).score = mateInOne b.turn :=
  Proofs.Insufficient.mate1_found_full pos b hwf tf k prev hf hm

/-- the chess fact used: with insufficient material in the engine's sense (no queen, rook or pawn,
at most one minor piece on the board) nobody is checkmated -/
theorem insufficient_not_mate (b : Board) (h : b.WF = true) (hi : insufficientMaterial b = true) :
    ((MoveGen.legals b).isEmpty && b.inCheck) = false :=
  Proofs.Insufficient.insufficient_not_mate b h hi

/-- **truthful**: a mate-in-one score for the side to move is only ever reported together with a
move that mates — every board, history, expiry index -/
theorem mate1_truthful (pos : Bool) (b : Board) (tf : ThreeFold) (k prev : Nat)
    (hs : (search pos b tf k prev).score = mateInOne b.turn) :
    ∃ mv, (search pos b tf k prev).move = some mv ∧ isMateMove b mv = true :=
  Proofs.Search.mate1_truthful pos b tf k prev hs

/-- "mates" in terms of the rules of chess -/
theorem isMateMove_spec (b : Board) (hwf : b.WF = true) (mv : Move) (hl : (abs b).legal mv = true) :
    isMateMove b mv = decide (((abs b).apply mv).classify = .checkMate) :=
  Proofs.Search.isMateMove_spec b hwf mv hl

end Chess.Props.C12
