/-
C12 — A mate in one is always found and truthfully reported.

Proved so far: the score facts the argument rests on (a mate in one for the mover outranks every
other score the search can return for that mover, so the strict `is_better` keeps the first mating
move found and nothing later replaces it).  The statement for the whole search is decided on every
run by the oracle `searchchk` (specification side: `Spec.Position.isCheckmate` after the returned
move) on generated positions with zero, one and several mating moves.
-/
import ChessVerif.Props.C14
import ChessVerif.Model.Engine

namespace Chess.Props.C12
open Chess Chess.Gen.ScoreFns Chess.Engine

/-- for White, `WhiteMateIn 1` is at least as good as every score except the sentinel `Max` and a
(non-existent) mate in 0: nothing the search returns for a root move can be better -/
theorem white_mate1_best (s : Score) (h0 : s ≠ .max) (h1 : s ≠ .whiteMateIn 0) :
    isBetter .white (.whiteMateIn 1) s = false := by
  cases s <;> simp [isBetter, Score.lt, partialCmp, cmp, kind, kindIdx] at * <;> try decide
  · rename_i n
    rw [Nat.compare_eq_lt]; omega
  all_goals simp_all

/-- for Black, `BlackMateIn 1` likewise -/
theorem black_mate1_best (s : Score) (h0 : s ≠ .min) (h1 : s ≠ .blackMateIn 0) :
    isBetter .black (.blackMateIn 1) s = false := by
  cases s <;> simp [isBetter, Score.gt, partialCmp, cmp, kind, kindIdx] at * <;> try decide
  · rename_i n
    rw [Nat.compare_eq_gt]; omega
  all_goals simp_all

/-- a mating root move beats the initial sentinel, so it is recorded -/
theorem mate1_beats_worst :
    isBetter .white (worst .white) (.whiteMateIn 1) = true ∧ isBetter .black (worst .black) (.blackMateIn 1) = true := by
  decide

end Chess.Props.C12
