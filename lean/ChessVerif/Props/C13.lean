/-
C13 — Search is colour-symmetric.

`Props/C13/Basic.lean`: negation reverses the score order and the two search policies are exact
duals under it.  This file: the statement for the whole search, for every well-formed position
without a promotion move at the root, with empty repetition history — and the two facts it is
assembled from: a completed deepening pass reports the plain-minimax value of the root whatever
the move order (`pass_exact`), and plain minimax is colour-symmetric (`rootValue_mirror`).

The statements are about the shipped configuration `Engine::default()`, i.e. `positional = false`, the leading argument
`false` of `searchPasses`, `pass`, `rootValue`, `eval` (with the piece-square maps the evaluation is not colour-symmetric;
the exactness theorems hold for both values of the flag: `Proofs.Minimax.pass_exact`, `searchPasses_exact`, `search_reports`).

`searchPasses false b tf k` lists the (depth, score) of the passes the search with expiry index `k`
completes; `Proofs.Minimax.search_reports` (Proofs/Minimax/Exact.lean, audited with this file) ties it to
what `search` returns: the last completed pass, or the initial values if none completed.  `Board.mirror` swaps the colours and
flips the ranks (Spec/Mirror.lean); `abs_mirror` says it is the colour mirror of the rules.
-/
import ChessVerif.Props.C13.Basic
import ChessVerif.Proofs.Minimax.Final

namespace Chess.Props.C13
open Chess Chess.Spec Chess.Engine Chess.MoveGen

/-- **C13**: whenever the search of a position and the search of its mirror image both complete
depth `d` (any two expiry indices), the reported scores are negations of each other: a white mate
in n becomes a black mate in n, a numeric score changes sign -/
theorem search_mirror (b : Board) (hwf : b.WF = true)
    (hnp : ∀ m ∈ mvsOf (legals b), m.piece = none) (k k' d : Nat) (s s' : Score)
    (h : (d, s) ∈ searchPasses false b [] k) (h' : (d, s') ∈ searchPasses false b.mirror [] k') :
    s' = negScore s :=
  Proofs.Minimax.search_mirror b hwf hnp k k' d s s' h h'

/-- **alpha-beta is exact**: a pass that no poll cuts short reports the plain-minimax value of the
root, whatever the order of the moves and the previous best move -/
theorem pass_exact (b : Board) (hwf : b.WF = true) (tf : ThreeFold) (k depth : Nat)
    (bestMv : Option Move) (st st' : St) (p : Pass)
    (hnp : ∀ m ∈ mvsOf (legals b), m.piece = none)
    (hb : ∀ m, bestMv = some m → m ∈ mvsOf (legals b))
    (h : pass false k b b.turn tf depth bestMv st = (some p, st')) :
    p.score = rootValue false b tf depth ∧ (∀ m, p.best = some m → m ∈ mvsOf (legals b)) :=
  Proofs.Minimax.pass_exact false b hwf tf k depth bestMv st st' p hnp hb h

theorem searchPasses_exact (b : Board) (hwf : b.WF = true) (tf : ThreeFold) (k : Nat)
    (hnp : ∀ m ∈ mvsOf (legals b), m.piece = none) :
    ∀ ds ∈ searchPasses false b tf k, ds.2 = rootValue false b tf ds.1 :=
  Proofs.Minimax.searchPasses_exact false b hwf tf k hnp

/-- **plain minimax is colour-symmetric** -/
theorem rootValue_mirror (b : Board) (hwf : b.WF = true) (depth : Nat) :
    rootValue false b.mirror [] depth = negScore (rootValue false b [] depth) :=
  Proofs.Minimax.rootValue_mirror b hwf depth

/-- the mirrored board is well formed and is the colour mirror of the rules' position -/
theorem mirror_WF (b : Board) (h : b.WF = true) : b.mirror.WF = true := Proofs.BoardSym.mirror_WF b h
theorem abs_mirror (b : Board) (hp : b.raw.partitionOk = true) (hc : b.castle < 16) :
    abs b.mirror = (abs b).mirror := Proofs.BoardSym.abs_mirror b hp hc

/-- the evaluation and the move generator under the mirror -/
theorem eval_mirror (b : Board) (h : b.WF = true) : eval false b.mirror = negScore (eval false b) :=
  Proofs.BoardSym.eval_mirror b h
theorem legals_mirror (b : Board) (h : b.WF = true) :
    (mvsOf (legals b.mirror)).Perm ((mvsOf (legals b)).map Move.mirror) := Proofs.BoardSym.legals_mirror b h

/-- non-vacuity: the standard position is well formed and has no promotion move -/
example : Board.standard.WF = true ∧ ∀ m ∈ mvsOf (legals Board.standard), m.piece = none := by
  decide +kernel

end Chess.Props.C13
