/-
C13 — Search is colour-symmetric.

Proved so far (all scores, unbounded payloads): negation is an involution that reverses the
score order, and the two search policies (`White`: maximise, window updates `alpha`; `Black`:
minimise, window updates `beta`) are exact duals under it.  The statement for the whole search,
`search (mirror b) = neg (search b)` per completed depth, is decided on every run by the
metamorphic oracle on the implementation (both searches are also tied to the model exactly).
-/
import ChessVerif.Props.C14
import ChessVerif.Model.Engine
import ChessVerif.Spec.ScoreNeg

namespace Chess.Props.C13
open Chess Chess.Spec Chess.Gen.ScoreFns Chess.Engine

theorem neg_neg (a : Score) : negScore (negScore a) = a := by
  cases a <;> simp [negScore]

/-- negation reverses the order: `cmp (neg a) (neg b) = cmp b a` -/
theorem neg_antitone (a b : Score) : cmp (negScore a) (negScore b) = cmp b a := by
  rw [C14.cmp_eq_spec, C14.cmp_eq_spec]
  cases a <;> cases b <;> simp [negScore, scoreCmp, scoreKey, lexCmp] <;> grind

/-- the sentinels swap -/
theorem neg_worst (c : Color) : negScore (worst c) = worst c.flip := by cases c <;> rfl

/-- `is_better` of one policy is `is_better` of the other on negated scores -/
theorem isBetter_dual (c : Color) (s n : Score) :
    isBetter c.flip (negScore s) (negScore n) = isBetter c s n := by
  cases c <;>
    simp only [isBetter, Color.flip, Score.lt, Score.gt, partialCmp, neg_antitone] <;>
    rw [C14.cmp_swap n s] <;> cases cmp s n <;> rfl

theorem neg_max (a b : Score) : negScore (Score.maxS a b) = Score.minS (negScore a) (negScore b) := by
  unfold Score.maxS Score.minS Score.lt
  simp only [partialCmp, neg_antitone]
  have hs := C14.cmp_swap b a
  cases h : cmp a b
  · rw [h] at hs; simp [hs, Ordering.swap]
  · have := (C14.cmp_eq_iff a b).mp h; subst this; simp
  · rw [h] at hs; simp [hs, Ordering.swap]

theorem neg_min (a b : Score) : negScore (Score.minS a b) = Score.maxS (negScore a) (negScore b) := by
  unfold Score.maxS Score.minS Score.lt
  simp only [partialCmp, neg_antitone]
  have hs := C14.cmp_swap b a
  cases h : cmp a b
  · rw [h] at hs; simp [hs, Ordering.swap]
  · have := (C14.cmp_eq_iff a b).mp h; subst this; simp
  · rw [h] at hs; simp [hs, Ordering.swap]

/-- `update_cutoff` of one policy is `update_cutoff` of the other with the window negated and swapped -/
theorem updateCutoff_dual (c : Color) (alpha beta s : Score) :
    updateCutoff c.flip (negScore beta) (negScore alpha) (negScore s) =
      ((negScore (updateCutoff c alpha beta s).2), (negScore (updateCutoff c alpha beta s).1)) := by
  cases c <;> simp [updateCutoff, Color.flip, neg_max, neg_min]

/-- the cutoff test `beta <= alpha` is invariant under negating and swapping the window -/
theorem cutoff_dual (alpha beta : Score) :
    Score.le (negScore alpha) (negScore beta) = Score.le beta alpha := by
  unfold Score.le
  simp only [partialCmp, neg_antitone]

end Chess.Props.C13
