/-
C14 — Scores form a total order matching game-theoretic preference.

All theorems are about `Gen.ScoreFns.cmp` / `kind` / `partialCmp`, i.e. about Lean functions
*regenerated from `chess-engine/src/score.rs`* on every run, for unbounded payloads
(`Nat ⊇ u16`, `Int ⊇ i32`).
-/
import ChessVerif.Model.ScoreOps
import ChessVerif.Spec.Score

namespace Chess.Props.C14
open Chess Chess.Gen.ScoreFns Chess.Spec

private theorem cmpNat (x y : Nat) :
    compare x y = if x < y then .lt else if y < x then .gt else .eq := by
  rcases Nat.lt_trichotomy x y with h | h | h
  · simp [Nat.compare_eq_lt.mpr h, h]
  · subst h; simp
  · have : ¬ x < y := by omega
    simp [Nat.compare_eq_gt.mpr h, h, this]

private theorem cmpInt (x y : Int) :
    compare x y = if x < y then .lt else if y < x then .gt else .eq := by
  rcases Int.lt_trichotomy x y with h | h | h
  · simp [Int.compare_eq_lt.mpr h, h]
  · subst h; simp
  · have : ¬ x < y := by omega
    simp [Int.compare_eq_gt.mpr h, h, this]

/-- **Main theorem.** The implementation's comparison is the specification's order
`Min < BlackMateIn 0 < BlackMateIn 1 < … < Raw x < … < WhiteMateIn 1 < WhiteMateIn 0 < Max`. -/
theorem cmp_eq_spec (a b : Score) : cmp a b = scoreCmp a b := by
  cases a <;> cases b <;>
    simp only [cmp, kind, kindIdx, scoreCmp, scoreKey, lexCmp, cmpNat, cmpInt] <;> grind

theorem cmp_refl (a : Score) : cmp a a = .eq := by
  rw [cmp_eq_spec]; simp [scoreCmp, lexCmp]

private theorem key_inj (a b : Score) (h : scoreKey a = scoreKey b) : a = b := by
  cases a <;> cases b <;> simp [scoreKey] at h <;> grind

/-- `cmp = Equal` exactly for structurally equal scores: `Ord` agrees with the derived `Eq`. -/
theorem cmp_eq_iff (a b : Score) : cmp a b = .eq ↔ a = b := by
  constructor
  · intro h
    rw [cmp_eq_spec] at h
    apply key_inj
    unfold scoreCmp lexCmp at h
    have : (scoreKey a).1 = (scoreKey b).1 ∧ (scoreKey a).2 = (scoreKey b).2 := by grind
    exact Prod.ext this.1 this.2
  · rintro rfl; exact cmp_refl a

private theorem lex_swap (p q : Int × Int) : lexCmp p q = (lexCmp q p).swap := by
  unfold lexCmp
  by_cases h1 : p.1 < q.1 <;> by_cases h2 : q.1 < p.1 <;> by_cases h3 : p.2 < q.2 <;>
    by_cases h4 : q.2 < p.2 <;> simp [*, Ordering.swap] <;> omega

/-- antisymmetry: swapping the arguments swaps the outcome -/
theorem cmp_swap (a b : Score) : cmp a b = (cmp b a).swap := by
  rw [cmp_eq_spec, cmp_eq_spec]; exact lex_swap _ _

/-- transitivity of `<` -/
theorem cmp_trans (a b c : Score) (h1 : cmp a b = .lt) (h2 : cmp b c = .lt) : cmp a c = .lt := by
  rw [cmp_eq_spec] at *; unfold scoreCmp lexCmp at *
  grind

/-- totality: exactly one of `<`, `=`, `>` -/
theorem cmp_total (a b : Score) : cmp a b = .lt ∨ a = b ∨ cmp b a = .lt := by
  cases h : cmp a b
  · exact Or.inl rfl
  · exact Or.inr (Or.inl ((cmp_eq_iff a b).mp h))
  · right; right; rw [cmp_swap b a, h]; rfl

/-- equality, partial comparison and total comparison agree -/
theorem partialCmp_eq (a b : Score) : partialCmp a b = some (cmp a b) := rfl
theorem beq_iff_cmp (a b : Score) : Score.beq a b = true ↔ cmp a b = .eq := by
  simp [Score.beq, cmp_eq_iff]

/-- the two sentinels are the extremes -/
theorem min_least (a : Score) : cmp .min a ≠ .gt := by
  cases a <;> simp [cmp, kind, kindIdx] <;> decide
theorem max_greatest (a : Score) : cmp a .max ≠ .gt := by
  cases a <;> simp [cmp, kind, kindIdx] <;> decide

/-- every forced white mate beats every numeric score which beats every forced black mate -/
theorem white_mate_gt_raw (n : Nat) (x : Int) : cmp (.raw x) (.whiteMateIn n) = .lt := by
  simp [cmp, kind, kindIdx]; decide
theorem raw_gt_black_mate (n : Nat) (x : Int) : cmp (.blackMateIn n) (.raw x) = .lt := by
  simp [cmp, kind, kindIdx]; decide
theorem white_mate_gt_black_mate (n m : Nat) : cmp (.blackMateIn n) (.whiteMateIn m) = .lt := by
  simp [cmp, kind, kindIdx]; decide

/-- a quicker white mate is greater than a slower one -/
theorem quicker_white_mate (n m : Nat) (h : n < m) : cmp (.whiteMateIn m) (.whiteMateIn n) = .lt := by
  simp [cmp, Nat.compare_eq_lt.mpr h]
/-- a slower black mate is greater than a quicker one -/
theorem slower_black_mate (n m : Nat) (h : n < m) : cmp (.blackMateIn n) (.blackMateIn m) = .lt := by
  simp [cmp, Nat.compare_eq_lt.mpr h]
/-- numeric scores order by value -/
theorem raw_by_value (x y : Int) : cmp (.raw x) (.raw y) = compare x y := rfl

/-- `Ord::max` / `Ord::min` (used by the search's window updates) pick the greater / lesser -/
theorem max_ge (a b : Score) : cmp a (Score.maxS a b) ≠ .gt ∧ cmp b (Score.maxS a b) ≠ .gt := by
  unfold Score.maxS Score.lt
  simp only [partialCmp_eq, beq_iff_eq, Option.some.injEq]
  split
  · next h => exact ⟨by rw [cmp_refl]; decide, by rw [h]; decide⟩
  · next h =>
    refine ⟨?_, by rw [cmp_refl]; decide⟩
    intro hgt; apply h; rw [cmp_swap b a, hgt]; rfl
theorem min_le (a b : Score) : cmp (Score.minS a b) a ≠ .gt ∧ cmp (Score.minS a b) b ≠ .gt := by
  unfold Score.minS Score.lt
  simp only [partialCmp_eq, beq_iff_eq, Option.some.injEq]
  split
  · next h => exact ⟨by rw [h]; decide, by rw [cmp_refl]; decide⟩
  · next h =>
    refine ⟨by rw [cmp_refl]; decide, ?_⟩
    intro hgt; apply h; rw [cmp_swap b a, hgt]; rfl

/-! Non-vacuity: concrete instances at the 16/32-bit extremes (these are tests, labelled as tests). -/
example : cmp (.raw 2147483647) (.whiteMateIn 65535) = .lt := by decide
example : cmp (.blackMateIn 65535) (.raw (-2147483648)) = .lt := by decide
example : cmp (.whiteMateIn 3) (.whiteMateIn 1) = .lt := by decide
example : cmp (.blackMateIn 1) (.blackMateIn 3) = .lt := by decide

end Chess.Props.C14
