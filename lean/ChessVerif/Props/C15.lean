/-
C15 — Bot plugin: legality gate and threefold detection over any history (partial: dynamic
loading and the ABI layout check are runtime behaviour; the encodings crossing the ABI are C16).

`Bot.State` is the model of `ChessBot`; `Engine.ThreeFold` the model of its repetition table.
The main theorem is `bot_refines`: for every sequence of `set_board` / `make_move` calls the model
answers exactly like the specification `Spec.Bot` (legality by the rules of chess on the mailbox,
reference successor, third occurrence counted over the list of produced positions).  "The move
it proposes is legal" is `C11.search_legal` applied to the plugin's current board.
-/
import ChessVerif.Props.C15.Basic
import ChessVerif.Proofs.BotRefine

namespace Chess.Props.C15
open Chess Chess.Bot Chess.Engine

/-- **refinement, every history**: starting from the plugin's initial state, for every sequence of
calls in which the boards handed to `set_board` are well formed (they are: C06), after each call
 * the answer (`is_valid`, `is_three_fold_draw`) equals the specification's: valid iff the move is
   legal by the rules in the current position; flag iff the produced position now occurs exactly
   three times among the positions produced since the board was last set;
 * the plugin's board is the reference successor (same placement, side to move, rights, e.p. file
   as the specification's position) and is again well formed.
`Agree` (Proofs/BotRefine.lean) spells this out call by call. -/
theorem bot_refines (ops : List Proofs.BotRefine.Op) (hwf : ∀ b, Proofs.BotRefine.Op.set b ∈ ops → b.WF = true) :
    Proofs.BotRefine.Agree Bot.init ⟨Spec.abs Board.standard, []⟩ ops :=
  Proofs.BotRefine.bot_refines ops hwf

/-- the same from the state just after `set_board(b)` -/
theorem bot_refines_from (b : Board) (hb : b.WF = true) (ops : List Proofs.BotRefine.Op)
    (hwf : ∀ b, Proofs.BotRefine.Op.set b ∈ ops → b.WF = true) :
    Proofs.BotRefine.Agree ⟨b, []⟩ (Spec.Bot.setBoard (Spec.abs b)) ops :=
  Proofs.BotRefine.bot_refines_from b hb ops hwf

/-- non-vacuity: a sequence with a legal move, an illegal move and a `set_board` meets the hypothesis -/
example : ∀ b, Proofs.BotRefine.Op.set b ∈
    [Proofs.BotRefine.Op.mv ⟨12, 28, none⟩, .mv ⟨0, 63, none⟩, .set Board.standard] → b.WF = true := by
  intro b hb
  simp at hb
  subst hb
  decide +kernel

end Chess.Props.C15
