/-
C15 — Bot plugin: legality gate and threefold detection over any history (partial: dynamic
loading and the ABI layout check are runtime behaviour; the encodings crossing the ABI are C16).

`Bot.State` is the model of `ChessBot`; `Engine.ThreeFold` the model of its repetition table.
-/
import ChessVerif.Model.Bot
import ChessVerif.Spec.WF

namespace Chess.Props.C15
open Chess Chess.Bot Chess.Engine

/-- the legality gate: an illegal move leaves the plugin exactly as it was and is reported invalid -/
theorem makeMove_illegal (s : State) (m : Move) (h : s.board.isLegal m = false) :
    makeMove s m = (s, ⟨false, false⟩) := by simp [makeMove, h]

/-- a legal move is applied: the reported board is the successor, the move is reported valid, and
the flag is what the repetition table answers for the successor -/
theorem makeMove_legal (s : State) (m : Move) (h : s.board.isLegal m = true) :
    (makeMove s m).1.board = s.board.moveUnchecked m ∧ (makeMove s m).2.isValid = true ∧
    (makeMove s m).2.isThreeFold = (s.table.add (s.board.moveUnchecked m)).2 ∧
    (makeMove s m).1.table = (s.table.add (s.board.moveUnchecked m)).1 := by
  simp [makeMove, h]

/-- `set_board` forgets the history -/
theorem setBoard_resets (s : State) (b : Board) : (setBoard s b).board = b ∧ (setBoard s b).table = [] := ⟨rfl, rfl⟩

/-- `beq` (turn, rights, e.p. file, placement) is an equivalence: the table is keyed by positions -/
theorem beq_refl (b : Board) : Board.beq b b = true := by simp [Board.beq]
theorem beq_symm (a b : Board) (h : Board.beq a b = true) : Board.beq b a = true := by
  simp only [Board.beq, Bool.and_eq_true, decide_eq_true_eq, beq_iff_eq] at *
  obtain ⟨⟨⟨h1, h2⟩, h3⟩, h4⟩ := h
  exact ⟨⟨⟨h1.symm, h2.symm⟩, h3.symm⟩, h4.symm⟩
theorem beq_trans (a b c : Board) (h1 : Board.beq a b = true) (h2 : Board.beq b c = true) :
    Board.beq a c = true := by
  simp only [Board.beq, Bool.and_eq_true, decide_eq_true_eq, beq_iff_eq] at *
  obtain ⟨⟨⟨a1, a2⟩, a3⟩, a4⟩ := h1
  obtain ⟨⟨⟨b1, b2⟩, b3⟩, b4⟩ := h2
  exact ⟨⟨⟨a1.trans b1, a2.trans b2⟩, a3.trans b3⟩, a4.trans b4⟩

/-- the flag is raised exactly when the counter of that position becomes 3 -/
theorem add_flag (t : ThreeFold) (b : Board) : (t.add b).2 = (satAdd8 (t.get b) == 3) := by
  simp [ThreeFold.add]

/-- the saturating counter never leaves `u8` and, once saturated, never reports 3 again -/
theorem satAdd8_le (a : Nat) : satAdd8 a ≤ 255 := by unfold satAdd8; split <;> omega
theorem satAdd8_three (a : Nat) : satAdd8 a = 3 ↔ a = 2 := by unfold satAdd8; split <;> omega

end Chess.Props.C15
