/-
C16 — Stable-ABI move and score encodings are lossless.

The per-variant maps (`pieceToSp`, `spToPiece`, `pieceToSmp`, `smpToPiece`, `scoreToStable`,
`stableToScore`, the `None` sentinel) are *regenerated from the match arms of
`chess-api/src/lib.rs`* on every run, so these theorems are about what the source says now.
They hold for every move (all `Sq × Sq × Option Promo`) and every score with unbounded payloads.
-/
import ChessVerif.Model.Api

namespace Chess.Props.C16
open Chess Chess.Api Chess.Gen.Api

/-- `ChessMove -> StableChessMove -> ChessMove` is the identity (the path `make_move` takes) -/
theorem move_roundtrip (m : Move) : ofStable (toStable m) = m := by
  rcases m with ⟨s, d, p⟩
  rcases p with _ | p
  · rfl
  · cases p <;> rfl

/-- every `StableChessMove` is the image of exactly the move it decodes to -/
theorem stable_roundtrip (m : SMove) : toStable (ofStable m) = m := by
  rcases m with ⟨s, d, p⟩
  cases p <;> rfl

/-- `Option<ChessMove> -> StableOptionalChessMove -> Option<ChessMove>` is the identity:
a present move comes back unchanged and an absent move stays absent (the path `evaluate` takes) -/
theorem optmove_roundtrip (m : Option Move) : ofStableOpt (toStableOpt m) = m := by
  rcases m with _ | ⟨s, d, p⟩
  · rfl
  · rcases p with _ | p
    · rfl
    · cases p <;> rfl

/-- the sentinel used for "no move" is not the encoding of any move -/
theorem sentinel_not_a_move (m : Move) : toStableOpt (some m) ≠ toStableOpt none := by
  rcases m with ⟨s, d, p⟩
  rcases p with _ | p
  · simp [toStableOpt, toStableOpt1, pieceToSmp, nonePiece]
  · cases p <;> simp [toStableOpt, toStableOpt1, pieceToSmp, nonePiece]

/-- `Score -> StableScore -> Score` is the identity -/
theorem score_roundtrip (s : Score) : stableToScore (scoreToStable s) = s := by
  cases s <;> rfl

/-- the composite the plugin boundary uses: `EvaluatedMove::new(mv, score)` read back -/
theorem evaluated_roundtrip (m : Option Move) (s : Score) :
    (Evaluated.new m s).move = m ∧ (Evaluated.new m s).getScore = s :=
  ⟨optmove_roundtrip m, score_roundtrip s⟩

/-! Non-vacuity (tests): -/
example : ofStable (toStable ⟨12, 28, none⟩) = ⟨12, 28, none⟩ := by decide
example : (Evaluated.new (some ⟨52, 60, some .knight⟩) (.whiteMateIn 65535)).move = some ⟨52, 60, some .knight⟩ := by decide

end Chess.Props.C16
