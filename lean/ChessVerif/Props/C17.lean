/-
C17 — Every opening-book line is a legal game.

`Book.step` is the model of `BookMovesIter::next` over the *translated* `BOOK` table.
`Book.walkModel` walks the whole trie from `INITIAL_BOOOK_MOVES` and plays every move with the
model's checked `move_new` from the standard position, with no promotion piece.

-/
import ChessVerif.Props.C17.Basic
import ChessVerif.Proofs.BookWalk.All

namespace Chess.Props.C17
open Chess Chess.Book

/-- **the whole book** (all 29 037 nodes): no move is illegal in the position reached, no read leaves
the table, the walk terminates.  Checked by the kernel alone (`Proofs/BookWalk`): table-shape and
count facts plus 193 index ranges of legality checks, each a `decide +kernel`, assembled by lemmas
proved for every tally; the evaluation runs on copies of the model's table accessors, make-move and
generator that are proved equal to the model's (no `native_decide`). -/
theorem book_walk_ok : walkModel.illegal = 0 ∧ walkModel.oob = 0 ∧ walkModel.fuelOut = 0 :=
  Proofs.BookWalk.book_walk_ok'

/-- the walk is not vacuous: it visits 29 037 nodes over 29 036 moves -/
theorem book_walk_size : walkModel.nodes = 29037 ∧ walkModel.edges = 29036 :=
  Proofs.BookWalk.book_walk_size'

end Chess.Props.C17
