/-
C17 — Every opening-book line is a legal game.

`Book.step` is the model of `BookMovesIter::next` over the *translated* `BOOK` table.
`Book.walkModel` walks the whole trie from `INITIAL_BOOOK_MOVES` and plays every move with the
model's checked `move_new` from the standard position, with no promotion piece.

-/
import ChessVerif.Props.C17.Basic
import ChessVerif.Proofs.BookWalk.All
import ChessVerif.Proofs.BookLines
import ChessVerif.Proofs.CliBook
import ChessVerif.Proofs.BookGenRound

namespace Chess.Props.C17
open Chess Chess.Book

/-- **the whole book** (all 29 037 nodes): no move is illegal in the position reached, no read leaves
the table, the walk terminates.  Checked by the kernel alone (`Proofs/BookWalk`): table-shape and
count facts plus 193 index ranges of legality checks, each a `decide +kernel`, assembled by lemmas
proved for every tally; the evaluation runs on copies of the model's table accessors, make-move and
generator that are proved equal to the model's (no `native_decide`). -/
theorem book_walk_ok : walkModel.illegal = 0 ∧ walkModel.oob = 0 ∧ walkModel.fuelOut = 0 :=
  Proofs.BookWalk.book_walk_ok'

/-- the walk is not vacuous: it visits 29 037 nodes over 29 036 moves -/
theorem book_walk_size : walkModel.nodes = 29037 ∧ walkModel.edges = 29036 :=
  Proofs.BookWalk.book_walk_size'

/-! ### the property in its own words: every path, every move -/

/-- **Every path through the opening book, taken from its root, is a sequence of moves each of which is legal — by
the rules of chess on the mailbox — in the position reached from the standard start by the preceding moves.**
`Book.Path root ms`: at every level `ms` takes one of the moves the iterator yields there and continues among that
move's children.  Obtained from `book_walk_ok` by an induction over the walk that holds for any way of playing a
move (the count of refused moves never decreases), then carried to the rules by C01/C02 along the reachable boards. -/
theorem every_line_legal (ms : List Move) (hp : Book.Path Book.root ms) :
    (Spec.abs Board.standard).playable ms :=
  Book.paths_legal ms hp

/-- … and the implementation's checked make-move plays it to the end (this is how the command line consumes the book:
`assert!(board.move_mut(..))` on every step) -/
theorem every_line_playable (ms : List Move) (hp : Book.Path Book.root ms) :
    (Book.playAll (fun b m => Board.moveNew b m) Board.standard ms).isSome = true :=
  Book.paths_playable ms hp

/-- … and needs no promotion choice -/
theorem every_line_no_promotion (ms : List Move) (hp : Book.Path Book.root ms) : ∀ m ∈ ms, m.piece = none :=
  Book.path_no_promotion Book.root ms hp

/-- … and has at most `BOOK_SIZE / 2` moves: paths are finite, the walk cannot loop -/
theorem every_line_bounded (ms : List Move) (hp : Book.Path Book.root ms) : 2 * ms.length ≤ Book.root :=
  Book.path_length Book.root ms hp

/-! ### the consumer: the book phase of the command line (`Model/Cli.lean`) -/

/-- whatever indices the random sampler draws, `assert!(board.move_mut(..))` never fails in the book phase -/
theorem cli_book_phase_never_asserts (fuel : Nat) (draws : List Nat) :
    Cli.bookPhase fuel Book.root Board.standard draws ≠ .error .assertMoveMut :=
  Cli.cli_book_phase_never_asserts fuel draws

/-- … and `nth(x).unwrap()` can only fail for a draw outside `0..count`, which a sampler over `count` weights never makes -/
theorem cli_book_phase_unwrap (fuel : Nat) (draws : List Nat)
    (h : Cli.bookPhase fuel Book.root Board.standard draws = .error .nthUnwrap) :
    ∃ (i : Nat) (x : Nat), x ∈ draws ∧ (Cli.siblings (i + 1) i).length ≤ x :=
  Cli.bookPhase_unwrap fuel Book.root Board.standard draws h

/-- non-vacuity: drawing index 0 plays 1. e2-e4 and hands the move to Black -/
example : (match Cli.bookPhase 3 Book.root Board.standard [0] with
    | .ok b => b.turn == .black && (b.raw.get 28).isSome | .error _ => false) = true := by decide +kernel

/-! ### the producer: the book builder (`Model/BookGen.lean`: `validate`, `trim`, `encode` of chess-lookup-generator) -/

/-- **Round trip of the builder, for every trie.**  Whatever table `read_lichess_games()` emits (`build t = some tbl`),
reading it the way `BookMovesIter::next` reads the embedded one finds — up to order — exactly the lines of the trimmed
trie that `encode` keeps, except the subtree of the first block written (`readable`: the reader stops before yielding a
block that starts at table index 0), and the walk never leaves the table.  In particular a sibling link that does not
fit 16 bits cannot occur in an emitted table: the builder refuses such a trie (`build t = none`). -/
theorem builder_round_trip (t : BookGen.Trie) (tbl : Array Nat) (h : BookGen.build t = some tbl) :
    ∃ t' r, BookGen.trim t 0 = some (t', r) ∧
      (BookGen.lines tbl (tbl.size + 1) (tbl.size - 1) [] []).Perm (BookGen.keptLines (BookGen.readable t') 0 [] []) ∧
      (tbl.size ≠ 0 → BookGen.inRange tbl (tbl.size + 1) (tbl.size - 1) = true) := by
  unfold BookGen.build at h
  split at h
  · cases h
  · split at h
    · cases h
    · rename_i t' r htrim
      exact ⟨t', r, htrim, BookGen.lines_encode t' tbl h, BookGen.inRange_encode t' tbl h⟩

/-- non-vacuity: a two-line trie (counts above the trimming and commit thresholds, leaves at ply 8 omitted by giving
the inner nodes the depth fields the source would) is accepted and its table is non-empty -/
example : (match BookGen.encode (.node 1000 8 [(1, .node 400 7 []), (2, .node 600 7 [(3, .node 600 6 [])])]) #[] 0 with
    | some tbl => tbl.size == 9 | none => false) = true := by decide +kernel

/-- non-vacuity: 1. e2-e4 is a path of the book (the first move the root iterator yields) -/
example : Book.Path Book.root [⟨12, 28, none⟩] := by
  have h : step root = .yield 12 28 87201 32462 := by
    have : (match step root with
      | .yield s d c n => s == 12 && d == 28 && c == 87201 && n == 32462
      | _ => false) = true := by decide +kernel
    revert this
    cases step root with
    | yield s d c n =>
      simp only [Bool.and_eq_true, beq_iff_eq]
      rintro ⟨⟨⟨rfl, rfl⟩, rfl⟩, rfl⟩
      rfl
    | done => intro h; cases h
    | oob => intro h; cases h
  exact Book.Path.take h (Book.Path.nil _)

end Chess.Props.C17
