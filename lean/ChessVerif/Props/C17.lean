/-
C17 — Every opening-book line is a legal game.

`Book.step` is the model of `BookMovesIter::next` over the *translated* `BOOK` table.
`Book.walkModel` walks the whole trie from `INITIAL_BOOOK_MOVES` and plays every move with the
model's checked `move_new` from the standard position, with no promotion piece.

Trusted base note: `book_walk_ok` is closed by `native_decide` (axiom `Lean.ofReduceBool`, i.e.
trust in the Lean compiler/interpreter for this one evaluation) because kernel evaluation of
29 037 legality checks is out of reach (≈0.1 s per node); everything else is kernel-checked.
-/
import ChessVerif.Model.Book

namespace Chess.Props.C17
open Chess Chess.Book

/-- traversal from any node moves to strictly smaller indices: children and next sibling -/
theorem step_decreases (index : Nat) (s d : Sq) (c n : Nat) (h : step index = .yield s d c n) :
    c < index ∧ n < index := by
  unfold step at h
  split at h
  · cases h
  · simp only at h
    split at h
    · cases h
    · split at h
      · cases h
      · split at h
        · cases h
        · split at h
          · injection h with _ _ h3 h4
            subst h3 h4
            constructor <;> omega
          · cases h

/-- hence traversal from any node terminates: `index + 1` units of fuel always suffice -/
theorem visit_fuel {β : Type} (play : β → Move → Option β) :
    ∀ (fuel index : Nat) (b : β) (depth : Nat) (t : Tally), index < fuel →
      (visit play fuel index b depth t).fuelOut = t.fuelOut := by
  intro fuel
  induction fuel with
  | zero => intro index b depth t h; omega
  | succ fuel ih =>
    intro index b depth t h
    unfold visit
    split
    · rfl
    · rfl
    · rename_i s d children next hst
      have hd := step_decreases index s d children next hst
      simp only []
      rw [ih next b depth _ (by omega)]
      split
      · rfl
      · rw [ih children _ (depth + 1) _ (by omega)]

/-- a read outside the table is reported, never performed: `step` answers `.oob` for every index ≥ `BOOK_SIZE` -/
theorem step_oob (index : Nat) (h : Gen.Book.bookSize ≤ index) : step index = .oob := by
  unfold step; simp [h]

/-- **the whole book** (all 29 037 nodes): no move is illegal in the position reached, no read leaves
the table, the walk terminates -/
theorem book_walk_ok : walkModel.illegal = 0 ∧ walkModel.oob = 0 ∧ walkModel.fuelOut = 0 := by
  native_decide

/-- the walk is not vacuous: it visits 29 037 nodes over 29 036 moves -/
theorem book_walk_size : walkModel.nodes = 29037 ∧ walkModel.edges = 29036 := by native_decide

end Chess.Props.C17
