/-
C17 — Every opening-book line is a legal game.

`Book.step` is the model of `BookMovesIter::next` over the *translated* `BOOK` table.
`Book.walkModel` walks the whole trie from `INITIAL_BOOOK_MOVES` and plays every move with the
model's checked `move_new` from the standard position, with no promotion piece.

The whole-book walk (`book_walk_ok`, `book_walk_size` in Props/C17.lean) is checked by the kernel
alone, split over the modules of Proofs/BookWalk; this file holds the structural theorems.
-/
import ChessVerif.Model.Book

namespace Chess.Props.C17
open Chess Chess.Book

/-- traversal from any node moves to strictly smaller indices: children and next sibling -/
theorem step_decreases (index : Nat) (s d : Sq) (c n : Nat) (h : step index = .yield s d c n) :
    c < index ∧ n < index := by
  unfold step at h
  split at h
  · cases h
  · simp only at h
    split at h
    · cases h
    · split at h
      · cases h
      · split at h
        · cases h
        · split at h
          · injection h with _ _ h3 h4
            subst h3 h4
            constructor <;> omega
          · cases h

/-- hence traversal from any node terminates: `index + 1` units of fuel always suffice -/
theorem visit_fuel {β : Type} (play : β → Move → Option β) :
    ∀ (fuel index : Nat) (b : β) (depth : Nat) (t : Tally), index < fuel →
      (visit play fuel index b depth t).fuelOut = t.fuelOut := by
  intro fuel
  induction fuel with
  | zero => intro index b depth t h; omega
  | succ fuel ih =>
    intro index b depth t h
    unfold visit
    split
    · rfl
    · rfl
    · rename_i s d children next hst
      have hd := step_decreases index s d children next hst
      simp only []
      rw [ih next b depth _ (by omega)]
      split
      · rfl
      · rw [ih children _ (depth + 1) _ (by omega)]

/-- a read outside the table is reported, never performed: `step` answers `.oob` for every index ≥ `BOOK_SIZE` -/
theorem step_oob (index : Nat) (h : Gen.Book.bookSize ≤ index) : step index = .oob := by
  unfold step; simp [h]

end Chess.Props.C17
