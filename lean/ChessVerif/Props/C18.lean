/-
C18 — Bitboards behave as sets of squares.

Every statement is for *all* 2^64 words (`b c : BB`) and all squares; the set-level meaning of a
word is `mem b s` (bit `s`), and `Spec.setOf b = mem b` is the plain set it denotes.
Helper lemmas live in `Proofs/BB.lean`; this file holds only the property theorems.
-/
import ChessVerif.Proofs.BB
import ChessVerif.Proofs.BitIter

namespace Chess.Props.C18
open Chess Chess.BB Chess.Spec

/-- two words denoting the same set are equal -/
theorem ext (a b : BB) (h : ∀ s, mem a s = mem b s) : a = b := BB.ext_mem h

/-! construction -/
theorem mem_empty (t : Sq) : mem empty t = false := BB.mem_empty t
theorem mem_full (t : Sq) : mem full t = true := BB.mem_full t
theorem mem_ofSq (s t : Sq) : mem (ofSq s) t = (t == s) := BB.mem_ofSq s t
theorem mem_ofFile (f : File) (t : Sq) : mem (ofFile f) t = (t.file == f) := BB.mem_ofFile f t
theorem mem_ofRank (r : Rank) (t : Sq) : mem (ofRank r) t = (t.rank == r) := BB.mem_ofRank r t

/-! membership, insertion, removal -/
theorem contains_eq_mem (b : BB) (s : Sq) : contains b s = mem b s := BB.contains_eq_mem b s
theorem mem_set (b : BB) (s t : Sq) : mem (set b s) t = (mem b t || t == s) := BB.mem_set b s t
theorem mem_clear (b : BB) (s t : Sq) : mem (clear b s) t = (mem b t && t != s) := BB.mem_clear b s t

/-! union, intersection, symmetric difference, complement, difference (and the operator impls, which call these) -/
theorem mem_or (a b : BB) (t : Sq) : mem (BB.or a b) t = (mem a t || mem b t) := BB.mem_or a b t
theorem mem_and (a b : BB) (t : Sq) : mem (BB.and a b) t = (mem a t && mem b t) := BB.mem_and a b t
theorem mem_xor (a b : BB) (t : Sq) : mem (BB.xor a b) t = (mem a t != mem b t) := BB.mem_xor a b t
theorem mem_not (a : BB) (t : Sq) : mem (BB.not a) t = !mem a t := BB.mem_not a t
theorem mem_diff (a b : BB) (t : Sq) : mem (diff a b) t = (mem a t && !mem b t) := BB.mem_diff a b t

/-! the four one-step shifts never wrap around an edge -/
theorem mem_shiftUp (b : BB) (t : Sq) : mem (shiftUp b) t = SqSet.up (setOf b) t := BB.mem_shiftUp b t
theorem mem_shiftDown (b : BB) (t : Sq) : mem (shiftDown b) t = SqSet.down (setOf b) t := BB.mem_shiftDown b t
theorem mem_shiftLeft (b : BB) (t : Sq) : mem (shiftLeft b) t = SqSet.left (setOf b) t := BB.mem_shiftLeft b t
theorem mem_shiftRight (b : BB) (t : Sq) : mem (shiftRight b) t = SqSet.right (setOf b) t := BB.mem_shiftRight b t

/-! rank flip -/
theorem mem_flipRanks (b : BB) (t : Sq) : mem (flipRanks b) t = mem b t.flipRank := BB.mem_flipRanks b t

/-! population count and the emptiness / fullness tests -/
theorem count_eq_card (b : BB) : count b = SqSet.card (setOf b) := BB.count_eq_card b
theorem any_iff (b : BB) : any b = true ↔ ∃ s, mem b s = true := BB.any_iff b
theorem none_iff (b : BB) : BB.none b = true ↔ ∀ s, mem b s = false := BB.none_iff b
theorem isFull_iff (b : BB) : isFull b = true ↔ ∀ s, mem b s = true := BB.isFull_iff b
theorem notFull_iff (b : BB) : notFull b = true ↔ ∃ s, mem b s = false := BB.notFull_iff b

/-! pop: returns and removes the minimum -/
theorem pop_none_iff (b : BB) : pop b = Option.none ↔ ∀ s, mem b s = false := BB.pop_none_iff b
theorem pop_some (b b' : BB) (s : Sq) (h : pop b = some (s, b')) :
    mem b s = true ∧ (∀ t, mem b t = true → s.val ≤ t.val) ∧ (∀ t, mem b' t = (mem b t && t != s)) := BB.pop_some b b' s h

/-! iteration: ascending order, every member exactly once, exact size hint -/
theorem iterList_eq_toList (b : BB) : iterList b = toList b := BB.iterList_eq_toList b
theorem toList_members (b : BB) : toList b = SqSet.members (setOf b) := rfl
theorem toList_ascending (b : BB) : (toList b).Pairwise (fun s t => s.val < t.val) := BB.toList_ascending b
theorem mem_toList (b : BB) (s : Sq) : s ∈ toList b ↔ mem b s = true := BB.mem_toList b s
theorem sizeHint_exact (b : BB) : sizeHint b = (iterList b).length := BB.sizeHint_exact b

/-! n-th element = skipping n elements; both the portable path and the BMI2/PDEP path, including n ≥ 64 -/
theorem nthPortable_spec (n : Nat) (b : BB) :
    (nthPortable n b).1 = (toList b)[n]? ∧
    (∀ t, mem (nthPortable n b).2 t = ((toList b).drop (n + 1)).contains t) := BB.nthPortable_spec n b
theorem nthBmi2_elem (n : Nat) (b : BB) : (nthBmi2 n b).1 = (toList b)[n]? := BB.nthBmi2_elem n b
theorem nthBmi2_rest (n : Nat) (b : BB) (s : Sq) (h : (nthBmi2 n b).1 = some s) :
    ∀ t, mem (nthBmi2 n b).2 t = ((toList b).drop (n + 1)).contains t := BB.nthBmi2_rest n b s h

/-! collection from iterators -/
theorem mem_ofList (l : List Sq) (t : Sq) : mem (ofList l) t = l.contains t := BB.mem_ofList l t
theorem mem_unionList (l : List BB) (t : Sq) : mem (unionList l) t = l.any (fun b => mem b t) := BB.mem_unionList l t

/-! any interleaving of `next`, `nth(k)` and `size_hint` on ONE iterator -/

/-- **operation sequences**: for every word, every sequence of `next` / `nth(k)` / `size_hint` calls on one
`BitBoardIter` (up to the first `nth` that returns nothing) and both `nth` implementations, the outputs are those of the
same operations on the ascending list of members — the size hint stays exact after `nth`, `next` after `nth(k)` yields the
`(k+1)`-th element, and so on -/
theorem runIter_refines (bmi2 : Bool) (ops : List IterOp) (b : BB) :
    runIter bmi2 ops b = runIterList ops (toList b) := BB.runIter_refines bmi2 ops b

example : runIter true [.nth 1, .hint, .next, .hint] 0x8000000000000105#64 =
    [.sq (some 2), .size 2, .sq (some 8), .size 1] := by decide

/-! Non-vacuity (tests) -/
example : iterList 0x8000000000000005#64 = [0, 2, 63] := by decide
example : (nthBmi2 1 0x8000000000000005#64).1 = some 2 := by decide

end Chess.Props.C18
