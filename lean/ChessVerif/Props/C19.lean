/-
C19 — Square, file, rank, piece and move text forms round-trip; parsers accept exactly the
intended spellings; the enumerating iterators behave like slice iterators from both ends.
-/
import ChessVerif.Model.Text
import ChessVerif.Spec.Text

namespace Chess.Props.C19
open Chess Chess.Text

/-! index / (file, rank) / neighbour / flip consistency -/
theorem mk_file_rank (s : Sq) : Sq.mk s.file s.rank = s := by
  rcases s with ⟨n, h⟩; simp only [Sq.mk, Sq.file, Sq.rank, Fin.mk.injEq]; omega
theorem file_mk (f : File) (r : Rank) : (Sq.mk f r).file = f := by
  rcases f with ⟨f, hf⟩; rcases r with ⟨r, hr⟩; simp only [Sq.mk, Sq.file, Fin.mk.injEq]; omega
theorem rank_mk (f : File) (r : Rank) : (Sq.mk f r).rank = r := by
  rcases f with ⟨f, hf⟩; rcases r with ⟨r, hr⟩; simp only [Sq.mk, Sq.rank, Fin.mk.injEq]; omega
theorem ofNat_val (s : Sq) : Sq.ofNat? s.val = some s := by
  simp only [Sq.ofNat?, s.isLt, dite_true, Fin.eta]
theorem ofNat_none (n : Nat) (h : 64 ≤ n) : Sq.ofNat? n = none := by
  simp only [Sq.ofNat?, dif_neg (show ¬ n < 64 by omega)]
theorem up_spec (s : Sq) : s.up = if h : s.val < 56 then some ⟨s.val + 8, by omega⟩ else none := by
  revert s; decide +kernel
theorem down_spec (s : Sq) : s.down = if h : 8 ≤ s.val then some ⟨s.val - 8, by omega⟩ else none := by
  revert s; decide +kernel
set_option linter.unusedVariables false in
theorem left_spec (s : Sq) : s.left = if h : s.val % 8 ≠ 0 then some ⟨s.val - 1, by omega⟩ else none := by
  revert s; decide +kernel
theorem right_spec (s : Sq) : s.right = if h : s.val % 8 ≠ 7 then some ⟨s.val + 1, by omega⟩ else none := by
  revert s; decide +kernel
theorem up_down (s t : Sq) : s.up = some t ↔ t.down = some s := by
  rw [up_spec, down_spec]; rcases s with ⟨s, hs⟩; rcases t with ⟨t, ht⟩
  simp only
  constructor <;> intro h <;> split at h <;> simp_all <;> omega
theorem left_right (s t : Sq) : s.left = some t ↔ t.right = some s := by
  rw [left_spec, right_spec]; rcases s with ⟨s, hs⟩; rcases t with ⟨t, ht⟩
  simp only
  constructor <;> intro h <;> split at h <;> simp_all <;> omega
theorem flipRank_file (s : Sq) : s.flipRank.file = s.file := by
  simp only [Sq.flipRank, file_mk]
theorem flipRank_rank (s : Sq) : s.flipRank.rank.val = 7 - s.rank.val := by
  simp only [Sq.flipRank, rank_mk, Sq.flipRankR]
theorem flipRank_flipRank (s : Sq) : s.flipRank.flipRank = s := by
  revert s; decide +kernel

/-! text form then parse returns the same value -/
theorem file_roundtrip (f : File) : fileOfByte (fileByte f) = some f ∧ fileOfByte (fileUpperByte f) = some f := by
  revert f; decide +kernel
theorem rank_roundtrip (r : Rank) : rankOfByte (rankByte r) = some r := by
  revert r; decide +kernel
theorem sq_roundtrip (s : Sq) : sqOfBytes (sqBytes s) = some s := by
  simp only [sqBytes, sqOfBytes, (file_roundtrip _).1, rank_roundtrip, mk_file_rank]
theorem move_roundtrip (s t : Sq) : moveOfBytes (moveBytes ⟨s, t, none⟩) = some ⟨s, t, none⟩ := by
  have hs := sq_roundtrip s
  have ht := sq_roundtrip t
  simp only [sqBytes] at hs ht
  show moveOfBytes [fileByte s.file, rankByte s.rank, 45, fileByte t.file, rankByte t.rank] = _
  simp only [moveOfBytes, hs, ht]
  rfl
theorem promo_roundtrip (p : Promo) : promoOfByte (promoByte p) = some p := by
  cases p <;> decide

/-! the accepted language, for every byte and every byte string -/
theorem file_language (c : Byte) : fileOfByte c = Spec.Text.fileOfByte c := by
  revert c; decide +kernel
theorem rank_language (c : Byte) : rankOfByte c = Spec.Text.rankOfByte c := by
  revert c; decide +kernel
theorem piece_language (c : Byte) : pieceOfByte c = Spec.Text.pieceOfByte c := by
  revert c; decide +kernel
theorem promo_language (c : Byte) : promoOfByte c = Spec.Text.promoOfByte c := by
  revert c; decide +kernel
theorem single_language {α} (f : Byte → Option α) (l : List Byte) :
    single f l = if l.length = 1 then f (l.getD 0 0) else none := by
  rcases l with _ | ⟨a, _ | ⟨b, l⟩⟩ <;> simp [single]
theorem sq_language (l : List Byte) : sqOfBytes l = Spec.Text.sqOfBytes l := by
  rcases l with _ | ⟨a, _ | ⟨b, _ | ⟨c, l⟩⟩⟩ <;>
    simp [sqOfBytes, Spec.Text.sqOfBytes, ← file_language, ← rank_language]
  cases fileOfByte a <;> cases rankOfByte b <;> rfl
theorem move_language (l : List Byte) : moveOfBytes l = Spec.Text.moveOfBytes l := by
  rcases l with _ | ⟨a, _ | ⟨b, _ | ⟨c, _ | ⟨d, _ | ⟨e, _ | ⟨f, l⟩⟩⟩⟩⟩⟩ <;>
    simp [moveOfBytes, Spec.Text.moveOfBytes, ← sq_language]
  · cases sqOfBytes [a, b] <;> cases sqOfBytes [c, d] <;> rfl
  · have : (c.val = 45) = (c = 45) := by rw [Fin.ext_iff]; rfl
    simp only [this]
    split
    · cases sqOfBytes [a, b] <;> cases sqOfBytes [d, e] <;> rfl
    · rfl
/-- in particular no parser ever yields a promotion piece and only lengths 4 and 5 are accepted -/
theorem move_accepts_only (l : List Byte) (m : Move) (h : moveOfBytes l = some m) :
    m.piece = none ∧ (l.length = 4 ∨ (l.length = 5 ∧ l.getD 2 0 = 45)) := by
  rw [move_language] at h
  unfold Spec.Text.moveOfBytes at h
  split at h
  · rename_i h4
    refine ⟨?_, Or.inl h4⟩
    split at h
    · cases h; rfl
    · cases h
  · split at h
    · rename_i h5
      refine ⟨?_, Or.inr h5⟩
      split at h
      · cases h; rfl
      · cases h
    · cases h

/-! the `Range<u8>`-backed iterators refine a two-ended list iterator, for every operation sequence -/
def absRange (r : Range) : List Nat := List.range' r.start (r.stop - r.start)

/-- One step refines the list iterator and preserves the invariant "`stop` fits in `u8` or the range
is empty".  (`stop ≤ 256` alone is *not* preserved when `start > 256`: see
the docstring of `range_step_refines`.) -/
theorem range_step_refines_inv (r : Range) (op : IterOp) (h : r.stop ≤ 256 ∨ r.stop ≤ r.start) :
    (r.step op).1 = (listStep (absRange r) op).1 ∧
    absRange (r.step op).2 = (listStep (absRange r) op).2 ∧
    ((r.step op).2.stop ≤ 256 ∨ (r.step op).2.stop ≤ (r.step op).2.start) := by
  rcases r with ⟨a, b⟩
  simp only at h
  cases op with
  | next =>
    simp only [Range.step, Range.next, listStep, absRange, List.head?_range', List.tail_range']
    split
    · refine ⟨?_, ?_, ?_⟩
      · rw [if_neg (by omega)]
      · simp only []; congr 1 <;> omega
      · simp only []; omega
    · refine ⟨?_, ?_, ?_⟩
      · rw [if_pos (by omega)]
      · simp only []
        rw [show b - a = 0 by omega]; rfl
      · simpa using h
  | nextBack =>
    simp only [Range.step, Range.nextBack, listStep, absRange, List.getLast?_range',
      List.dropLast_eq_take, List.length_range']
    split
    · refine ⟨?_, ?_, ?_⟩
      · rw [if_neg (by omega)]; simp only []; congr 1; omega
      · simp only []; rw [List.take_range'_of_length_ge (by omega)]; congr 1; omega
      · simp only []; omega
    · refine ⟨?_, ?_, ?_⟩
      · rw [if_pos (by omega)]
      · simp only []
        rw [show b - a = 0 by omega]; rfl
      · simpa using h
  | nth n =>
    simp only [Range.step, Range.nth, listStep, absRange, List.drop_range', List.head?_range']
    split
    · refine ⟨?_, ?_, ?_⟩
      · rw [if_neg (by omega)]; simp only []; congr 1; omega
      · simp only []; congr 1 <;> omega
      · simp only []; omega
    · refine ⟨?_, ?_, ?_⟩
      · rw [if_pos (by omega)]
      · simp only []
        rw [show b - b = 0 by omega, show b - a - (n + 1) = 0 by omega]; rfl
      · simp only []; omega
  | nthBack n =>
    simp only [Range.step, Range.nthBack, listStep, absRange, List.length_range']
    split
    · refine ⟨?_, ?_, ?_⟩
      · rw [List.take_range'_of_length_ge (by omega), List.getLast?_range', if_neg (by omega)]
        simp only []; congr 1; omega
      · simp only []; rw [List.take_range'_of_length_ge (by omega)]; congr 1; omega
      · simp only []; omega
    · refine ⟨?_, ?_, ?_⟩
      · rw [show b - a - n = 0 by omega]; rfl
      · simp only []
        rw [show a - a = 0 by omega, show b - a - n - 1 = 0 by omega]; rfl
      · simp only []; omega
  | sizeHint =>
    simp only [Range.step, Range.sizeHint, listStep, absRange, List.length_range']
    refine ⟨?_, trivial, h⟩
    split
    · rfl
    · congr 1; omega
  | last =>
    simp only [Range.step, listStep, absRange, List.getLast?_range']
    refine ⟨?_, trivial, h⟩
    split
    · rw [if_neg (by omega)]; congr 1; omega
    · rw [if_pos (by omega)]
  | count =>
    simp only [Range.step, Range.sizeHint, listStep, absRange, List.length_range']
    refine ⟨?_, trivial, h⟩
    split
    · rfl
    · congr 1; omega

/-- `stop` never exceeds `max start stop`, so with `start ≤ 256` the bound `stop ≤ 256` is kept. -/
theorem range_step_stop_le (r : Range) (op : IterOp) (hs : r.start ≤ 256) (h : r.stop ≤ 256) :
    (r.step op).2.stop ≤ 256 := by
  rcases r with ⟨a, b⟩
  simp only at hs h
  cases op <;> simp only [Range.step, Range.next, Range.nextBack, Range.nth, Range.nthBack] <;>
    first | (split <;> simp only [] <;> omega) | exact h

/-- The statement `range_step_refines` with the additional hypothesis `r.start ≤ 256` (true of every
`Range<u8>`, and in particular of every state reachable from `0..n`). -/
theorem range_step_refines_of_start_le (r : Range) (op : IterOp) (hs : r.start ≤ 256) (h : r.stop ≤ 256) :
    (r.step op).1 = (listStep (absRange r) op).1 ∧
    absRange (r.step op).2 = (listStep (absRange r) op).2 ∧ (r.step op).2.stop ≤ 256 :=
  have h' := range_step_refines_inv r op (Or.inl h)
  ⟨h'.1, h'.2.1, range_step_stop_le r op hs h⟩

/-- one step of a `Range<u8>`-backed iterator refines one step of the list iterator, for every
`Range<u8>` value (`start, stop ≤ 256`; an earlier draft of this statement omitted `r.start ≤ 256`
and was refuted by `r = ⟨300, 10⟩`, `nthBack 0`) -/
theorem range_step_refines (r : Range) (op : IterOp) (hs : r.start ≤ 256) (h : r.stop ≤ 256) :
    (r.step op).1 = (listStep (absRange r) op).1 ∧
    absRange (r.step op).2 = (listStep (absRange r) op).2 ∧ (r.step op).2.stop ≤ 256 :=
  range_step_refines_of_start_le r op hs h

theorem range_run_refines_inv (r : Range) (ops : List IterOp) (h : r.stop ≤ 256 ∨ r.stop ≤ r.start) :
    Range.run r ops = listRun (absRange r) ops := by
  induction ops generalizing r with
  | nil => rfl
  | cons op ops ih =>
    obtain ⟨h1, h2, h3⟩ := range_step_refines_inv r op h
    simp only [Range.run, listRun]
    rw [h1, ih _ h3, h2]

theorem range_run_refines (r : Range) (ops : List IterOp) (h : r.stop ≤ 256) :
    Range.run r ops = listRun (absRange r) ops :=
  range_run_refines_inv r ops (Or.inl h)

/-- the five concrete iterators start as `0..n` with `n ∈ {8, 8, 6, 2, 2}` -/
theorem all_iter_refines (n : Nat) (hn : n ≤ 8) (ops : List IterOp) :
    Range.run ⟨0, n⟩ ops = listRun (List.range n) ops := by
  rw [range_run_refines ⟨0, n⟩ ops (by simp only []; omega), List.range_eq_range']
  rfl

/-! Non-vacuity (tests) -/
example : moveOfBytes [101, 50, 45, 101, 52] = some ⟨12, 28, none⟩ := by decide
example : Range.run ⟨0, 8⟩ [.next, .nextBack, .nth 2, .nthBack 1, .sizeHint] = [some 0, some 7, some 3, some 5, some 1] := by decide
example : Range.run ⟨0, 8⟩ [.last, .nth 8, .last, .count] = [some 7, none, none, some 0] := by decide

end Chess.Props.C19
