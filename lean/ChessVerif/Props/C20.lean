/-
C20 — Per-thread tracing override is isolated from other threads.

Model: `Model/Tracing.lean` (one global atomic flag, one thread-local flag per thread, any number
of threads, one atomic access per operation).  The theorems quantify over every interleaving
(`List (Nat × Op)`: which thread issues which operation), by induction over the history.
-/
import ChessVerif.Model.Tracing
import ChessVerif.Spec.Tracing

namespace Chess.Props.C20
open Chess.Tracing Chess.Spec.Tracing

/-- an operation issued by thread `t` never changes another thread's override -/
theorem step_isolated (s : State) (t t' : Nat) (op : Op) (h : t' ≠ t) :
    (step s t op).1.loc t' = s.loc t' := by
  cases op <;> simp [step, setLoc, h]

/-- … under every interleaving: the override of `t'` after a history equals its override after
the sub-history of its own operations only (operations of other threads are invisible to it) -/
theorem loc_run (s : State) (h : List (Nat × Op)) (t : Nat) :
    (run s h).loc t = (h.filter (fun p => p.1 = t)).foldl (fun f p => ownEffect f p.2) (s.loc t) := by
  induction h generalizing s with
  | nil => rfl
  | cons p rest ih =>
    obtain ⟨u, op⟩ := p
    simp only [run]
    rw [ih]
    by_cases hu : u = t
    · subst hu
      simp only [List.filter_cons, decide_true, if_true, List.foldl_cons]
      congr 1
      cases op <;> simp [step, setLoc, ownEffect]
    · have : ¬ (u = t) := hu
      simp only [List.filter_cons, this, decide_false, Bool.false_eq_true, if_false]
      rw [step_isolated s u t op (Ne.symm hu)]

/-- the global flag after a history is the fold of the global writes of all threads -/
theorem global_run (s : State) (h : List (Nat × Op)) :
    (run s h).global = h.foldl (fun g p => globalEffect g p.2) s.global := by
  induction h generalizing s with
  | nil => rfl
  | cons p rest ih =>
    obtain ⟨u, op⟩ := p
    simp only [run, List.foldl_cons]
    rw [ih]
    congr 1
    cases op <;> simp [step, setLoc, globalEffect]

/-- **Main theorem.** After any history, what `is_enabled()` returns on thread `t` is the thread's own
local override if it has one, and otherwise the latest global setting. -/
theorem view_eq_spec (h : List (Nat × Op)) (t : Nat) :
    Tracing.view (run init h) t = Spec.Tracing.view t h := by
  unfold Tracing.view Spec.Tracing.view overrideOf lastGlobal
  rw [loc_run, global_run]
  rfl

/-- `is_enabled` itself answers with the view and changes nothing -/
theorem isEnabled_out (s : State) (t : Nat) : step s t .isEnabled = (s, .bool (Tracing.view s t)) := rfl

/-- operations on other threads can change the view of `t` only through the global setting, and
only while `t` has no override -/
theorem other_thread_effect (s : State) (t u : Nat) (op : Op) (hu : u ≠ t) :
    Tracing.view (step s u op).1 t =
      match s.loc t with
      | .global => (step s u op).1.global
      | .enabled => true
      | .disabled => false := by
  unfold Tracing.view
  rw [step_isolated s u t op (Ne.symm hu)]
  cases s.loc t <;> rfl

/-- saving (`local_take`) and later restoring returns the thread to the saved override, whatever
happened in between on any thread -/
theorem take_restore (s : State) (t : Nat) (between : List (Nat × Op)) :
    let s1 := (step s t .localTake).1
    (step s t .localTake).2 = .saved (s.loc t) ∧
    (step (run s1 between) t (.restore (s.loc t))).1.loc t = s.loc t := by
  simp [step, setLoc]

/-- … and restoring touches nothing else: not the global flag, not other threads -/
theorem restore_frame (s : State) (t u : Nat) (f : LocalFlag) (hu : u ≠ t) :
    (step s t (.restore f)).1.global = s.global ∧ (step s t (.restore f)).1.loc u = s.loc u := by
  simp [step, setLoc, hu]

/-! Non-vacuity (tests): a concrete two-thread interleaving. -/
example : Tracing.view (run init [(0, .localDisable), (1, .disable), (0, .localTake)]) 0 = false := by decide
example : Tracing.view (run init [(0, .localDisable), (1, .enable), (1, .toggle)]) 1 = false := by decide
example : Spec.Tracing.view 0 [(0, .localEnable), (1, .disable)] = true := by decide

end Chess.Props.C20
