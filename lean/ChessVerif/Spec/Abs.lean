/- The abstraction from the bitboard `Board` of the model to the mailbox `Position` of the rules. -/
import ChessVerif.Model.Board
import ChessVerif.Spec.Rules

namespace Chess.Spec
open Chess

/-- what the model board says stands on each square, read piece set by piece set (not through
`piece_of_unchecked`, so that an inconsistent board is not silently repaired) -/
def pieceOn (r : RawBoard) (s : Sq) : Option (Color × Piece) :=
  let col : Option Color :=
    if BB.mem r.white s then some .white else if BB.mem r.black s then some .black else none
  let pc : Option Piece :=
    if BB.mem r.pawn s then some .pawn else if BB.mem r.knight s then some .knight
    else if BB.mem r.bishop s then some .bishop else if BB.mem r.rook s then some .rook
    else if BB.mem r.queen s then some .queen else if BB.mem r.king s then some .king else none
  match col, pc with
  | some c, some p => some (c, p)
  | _, _ => none

def abs (b : Board) : Position :=
  { pieceAt := pieceOn b.raw,
    turn := b.turn,
    rights := fun sd c => Castle.contains b.castle sd c,
    ep := b.ep,
    half := b.half,
    full := b.full }

end Chess.Spec
