/-
Specification of the plugin (C15): a position and the list of position keys produced by accepted
moves since the board was last set.  A move is applied iff legal; the threefold flag is raised
exactly when the new position's key now occurs three times among the produced positions.
-/
import ChessVerif.Spec.Rules

namespace Chess.Spec.Bot
open Chess Chess.Spec

/-- same placement, side to move, castling rights and en-passant file -/
def sameKey (p q : Position) : Bool :=
  (List.finRange 64).all (fun s => p.pieceAt s == q.pieceAt s) && p.turn == q.turn &&
  [Side.king, Side.queen].all (fun sd => [Color.white, Color.black].all (fun c => p.rights sd c == q.rights sd c)) &&
  p.ep == q.ep

structure State where
  pos : Position
  produced : List Position

def setBoard (p : Position) : State := ⟨p, []⟩

/-- (new state, is_valid, is_three_fold_draw) -/
def makeMove (s : State) (m : Move) : State × Bool × Bool :=
  if s.pos.legal m then
    let q := s.pos.apply m
    let produced := s.produced ++ [q]
    (⟨q, produced⟩, true, (produced.filter (sameKey q)).length == 3)
  else (s, false, false)

end Chess.Spec.Bot
