/-
Specification of `BoardBuilder` on a mailbox: a square holds what the last accepted `place` put there;
`place` on an occupied square is refused and changes nothing; `remove` empties the square.  The board
`build()` returns is the position so assembled, *constructed from scratch* (C05: "the incremental
builder and the FEN parser produce identical boards for the same position"; C04: the hash depends on
the position only) — whatever was refused or removed on the way leaves no trace.
-/
import ChessVerif.Model.Fen

namespace Chess.Spec

structure BuildSt where
  sq : Array (Option (Color × Piece))
  turn : Color
  castle : Nat
  ep : Option File
  half : Nat
  full : Nat

def BuildSt.init : BuildSt := ⟨Array.replicate 64 none, .white, 0, none, 0, 0⟩

def BuildSt.at_ (s : BuildSt) (q : Sq) : Option (Color × Piece) := (s.sq[q.val]?).join

def buildStep (s : BuildSt) : Fen.BuildOp → BuildSt × Bool
  | .turn c => ({ s with turn := c }, true)
  | .castle cr => ({ s with castle := cr }, true)
  | .half n => ({ s with half := n }, true)
  | .full n => ({ s with full := n }, true)
  | .ep f => ({ s with ep := f }, true)
  | .place q c p =>
    match s.at_ q with
    | some _ => (s, false)
    | none => ({ s with sq := s.sq.set! q.val (some (c, p)) }, true)
  | .remove q => ({ s with sq := s.sq.set! q.val none }, true)

/-- a whole session on the mailbox -/
def runBuild (ops : List Fen.BuildOp) : BuildSt × List Bool :=
  ops.foldl (fun st op => let r := buildStep st.1 op; (r.1, st.2 ++ [r.2])) (BuildSt.init, [])

end Chess.Spec
