/-
Geometric definitions on the 8×8 board in (file, rank) coordinates: what the lookup tables of
`chess-lookup` are supposed to contain (C08, C09) and what the rules of chess refer to (C01).
Nothing here uses a table, a mask or a machine word.
-/
import ChessVerif.Model.Basic

namespace Chess.Spec
open Chess

/-- file and rank of a square as integers -/
def fileI (s : Sq) : Int := (s.val % 8 : Nat)
def rankI (s : Sq) : Int := (s.val / 8 : Nat)

/-- the square `(df, dr)` away from `s`, if it is on the board (no wrap-around) -/
def step (s : Sq) (df dr : Int) : Option Sq :=
  let f := fileI s + df
  let r := rankI s + dr
  if 0 ≤ f ∧ f < 8 ∧ 0 ≤ r ∧ r < 8 then Sq.ofNat? (r.toNat * 8 + f.toNat) else none

def absI (x : Int) : Int := if x < 0 then -x else x
def dF (a b : Sq) : Int := fileI b - fileI a
def dR (a b : Sq) : Int := rankI b - rankI a

/-- knight: the eight (±1,±2)/(±2,±1) jumps -/
def knightAtt (s t : Sq) : Bool :=
  (absI (dF s t) == 1 && absI (dR s t) == 2) || (absI (dF s t) == 2 && absI (dR s t) == 1)
/-- king: the eight neighbours -/
def kingAtt (s t : Sq) : Bool :=
  s != t && absI (dF s t) ≤ 1 && absI (dR s t) ≤ 1
/-- forward direction of a colour -/
def fwd : Color → Int
  | .white => 1
  | .black => -1
/-- pawn capture squares: one step diagonally forward -/
def pawnAtt (c : Color) (s t : Sq) : Bool := dR s t == fwd c && absI (dF s t) == 1
/-- the table `PAWN_QUIETS`: one step forward, and two steps from the colour's second rank
(occupancy is handled by the accessor, not by the table) -/
def pawnPushTbl (c : Color) (s t : Sq) : Bool :=
  dF s t == 0 && (dR s t == fwd c ||
    (dR s t == 2 * fwd c && rankI s == (match c with | .white => 1 | .black => 6)))

/-- same rank or file, different square -/
def rookAligned (a b : Sq) : Bool := a != b && (dF a b == 0 || dR a b == 0)
/-- same diagonal, different square -/
def bishopAligned (a b : Sq) : Bool := a != b && absI (dF a b) == absI (dR a b)
def aligned (a b : Sq) : Bool := rookAligned a b || bishopAligned a b

def sgn (x : Int) : Int := if x < 0 then -1 else if x = 0 then 0 else 1

/-- `t` lies strictly between `a` and `b` on a common rank, file or diagonal -/
def betweenSpec (a b t : Sq) : Bool :=
  aligned a b && t != a && t != b &&
  -- t is on the segment: same direction from a as b, and closer
  (sgn (dF a t) == sgn (dF a b) && sgn (dR a t) == sgn (dR a b)) &&
  (if dF a b == 0 then dF a t == 0 else if dR a b == 0 then dR a t == 0 else absI (dF a t) == absI (dR a t)) &&
  (absI (dF a t) < absI (dF a b) || absI (dR a t) < absI (dR a b))

/-- `t` lies on the whole line through `a` and `b` (inclusive of both) when they are aligned -/
def lineSpec (a b t : Sq) : Bool :=
  aligned a b &&
  (if dF a b == 0 then dF a t == 0
   else if dR a b == 0 then dR a t == 0
   else dF a t * sgn (dF a b) == dR a t * sgn (dR a b) )

/-- Chebyshev distance -/
def distanceSpec (a b : Sq) : Int := if absI (dF a b) < absI (dR a b) then absI (dR a b) else absI (dF a b)

/-- sliding: the squares reached from `s` in direction `(df, dr)` up to and including the first
occupied one (`occ t` = square `t` is occupied); `fuel` ≥ 7 always suffices -/
def slide (occ : Sq → Bool) (df dr : Int) : Nat → Sq → List Sq
  | 0, _ => []
  | fuel + 1, s =>
    match step s df dr with
    | none => []
    | some t => if occ t then [t] else t :: slide occ df dr fuel t

def rookDirs : List (Int × Int) := [(0, 1), (0, -1), (-1, 0), (1, 0)]
def bishopDirs : List (Int × Int) := [(-1, 1), (1, 1), (-1, -1), (1, -1)]

def rookReach (occ : Sq → Bool) (s : Sq) : List Sq := rookDirs.flatMap (fun d => slide occ d.1 d.2 7 s)
def bishopReach (occ : Sq → Bool) (s : Sq) : List Sq := bishopDirs.flatMap (fun d => slide occ d.1 d.2 7 s)

/-- all squares from `s` (exclusive) in direction `(df, dr)` up to the edge of the board -/
def walk (df dr : Int) : Nat → Sq → List Sq
  | 0, _ => []
  | n + 1, s => match step s df dr with
    | none => []
    | some t => t :: walk df dr n t

/-- the squares strictly between two aligned squares, found by walking from `a` towards `b`;
empty when the squares are not aligned (or equal, or adjacent) -/
def betweenList (a b : Sq) : List Sq :=
  if aligned a b then (walk (sgn (dF a b)) (sgn (dR a b)) 7 a).takeWhile (· != b) else []

/-- the whole line through two aligned squares (both included); empty when they are not aligned -/
def lineList (a b : Sq) : List Sq :=
  if aligned a b then
    a :: (walk (sgn (dF a b)) (sgn (dR a b)) 7 a ++ walk (-sgn (dF a b)) (-sgn (dR a b)) 7 a)
  else []

/-- empty-board rook / bishop rays -/
def rookRayList (s : Sq) : List Sq := rookDirs.flatMap (fun d => walk d.1 d.2 7 s)
def bishopRayList (s : Sq) : List Sq := bishopDirs.flatMap (fun d => walk d.1 d.2 7 s)

/-- the word with exactly the listed squares set (only used to compare with table entries) -/
def bbOfList (l : List Sq) : BB := BB.ofList l
/-- the word of a predicate -/
def bbOfPred (p : Sq → Bool) : BB := bbOfList ((List.finRange 64).filter p)

end Chess.Spec
