/-
Specification of the move iterator (C10): a set of remaining moves and a destination mask.
`Monitor` checks an observed trace of operations and outputs against it; it never chooses which
move `next` yields (yield order is unspecified), it only checks that the yielded move was
available.
-/
import ChessVerif.Spec.Rules

namespace Chess.Spec.Iter
open Chess Chess.Spec

structure State where
  remaining : List Move
  mask : Sq → Bool

/-- an observed operation together with the output the implementation produced -/
inductive Obs
  | next (out : Option Move)
  | len (n : Nat)
  | isEmpty (b : Bool)
  | sizeHint (n : Nat)
  | setMask (m : Sq → Bool)
  | remove (m : Sq → Bool)
  | removeMove (mv : Move)
  | clone

def available (s : State) : List Move := s.remaining.filter (fun m => s.mask m.dest)

/-- one observed step: `none` = the observation contradicts the specification -/
def step (s : State) : Obs → Option State
  | .next (some m) =>
    if (available s).contains m then some { s with remaining := s.remaining.filter (· != m) } else none
  | .next none => if (available s).isEmpty then some s else none
  | .len n => if n = (available s).length then some s else none
  | .isEmpty b => if b = (available s).isEmpty then some s else none
  | .sizeHint n => if n = (available s).length then some s else none
  | .setMask m => some { s with mask := m }
  | .remove m => some { s with remaining := s.remaining.filter (fun mv => !m mv.dest) }
  | .removeMove mv => some { s with remaining := s.remaining.filter (· != mv) }
  | .clone => some s

/-- index of the first rejected observation, if any -/
def monitor (s : State) : List Obs → Nat → Option Nat
  | [], _ => none
  | o :: rest, k => match step s o with
    | none => some k
    | some s' => monitor s' rest (k + 1)

/-- `legals()` / `legals_masked(mask)` start from the legal moves whose destination is in the mask -/
def init (p : Position) (mask : Sq → Bool) : State :=
  { remaining := p.legalMoves.filter (fun m => mask m.dest), mask := mask }

end Chess.Spec.Iter
