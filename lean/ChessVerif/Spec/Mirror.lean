/-
Colour mirror of model boards and moves (C13): swap the colours, flip the ranks; rights swapped
between the colours, e.p. file and clocks carried over; the derived fields (pins, checkers, piece
hash) recomputed from scratch.
-/
import ChessVerif.Spec.WF
import ChessVerif.Model.Engine

namespace Chess

/-- the same move seen from the other side of the board -/
def Move.mirror (m : Move) : Move := { m with source := m.source.flipRank, dest := m.dest.flipRank }

def RawBoard.mirror (r : RawBoard) : RawBoard :=
  ⟨BB.flipRanks r.black, BB.flipRanks r.white, BB.flipRanks r.pawn, BB.flipRanks r.knight,
   BB.flipRanks r.bishop, BB.flipRanks r.rook, BB.flipRanks r.queen, BB.flipRanks r.king⟩

/-- rights are stored as bits `K Q k q` = 0 1 2 3: swap the white pair with the black pair -/
def Castle.mirror (cr : Nat) : Nat := (cr % 4) * 4 + (cr / 4) % 4

def Board.mirror (b : Board) : Board :=
  Board.updatePinInfo
    { zobrist := b.raw.mirror.pieceHash, turn := b.turn.flip, castle := Castle.mirror b.castle,
      ep := b.ep, half := b.half, full := b.full, pinned := 0#64, checkers := 0#64, raw := b.raw.mirror }

end Chess
