/-
The rules of chess on a mailbox board — the right-hand side of C01–C03, C06, C10–C12, C15.
Deliberately naive: no bitboards, no tables, no pins, no incremental state.  Everything is
defined by stepping over squares (`Spec/Geometry.lean`).
-/
import ChessVerif.Spec.Geometry
import ChessVerif.Model.Text

namespace Chess.Spec
open Chess

/-- a position: mailbox, side to move, castling rights, e.p. file, clocks -/
structure Position where
  pieceAt : Sq → Option (Color × Piece)
  turn : Color
  rights : Side → Color → Bool
  ep : Option File
  half : Nat
  full : Nat

namespace Position

def occupied (p : Position) (s : Sq) : Bool := (p.pieceAt s).isSome
def colorAt (p : Position) (s : Sq) : Option Color := (p.pieceAt s).map (·.1)

/-- does the piece `pc` of colour `c` standing on `x` attack square `t`? -/
def attacksFrom (p : Position) (x : Sq) (c : Color) (pc : Piece) (t : Sq) : Bool :=
  match pc with
  | .knight => knightAtt x t
  | .king => kingAtt x t
  | .pawn => pawnAtt c x t
  | .rook => (rookReach p.occupied x).contains t
  | .bishop => (bishopReach p.occupied x).contains t
  | .queen => (rookReach p.occupied x).contains t || (bishopReach p.occupied x).contains t

/-- is square `t` attacked by some piece of colour `c`? -/
def attacked (p : Position) (t : Sq) (c : Color) : Bool :=
  (List.finRange 64).any fun x =>
    match p.pieceAt x with
    | some (c', pc) => c' == c && p.attacksFrom x c pc t
    | none => false

/-- the squares holding a king of colour `c` -/
def kings (p : Position) (c : Color) : List Sq :=
  (List.finRange 64).filter fun x => p.pieceAt x == some (c, .king)

/-- the side `c` is in check: (one of) its king(s) is attacked by the other side -/
def inCheck (p : Position) (c : Color) : Bool := (p.kings c).any fun k => p.attacked k c.flip

def homeRank (c : Color) : Int := match c with | .white => 0 | .black => 7
def secondRank (c : Color) : Int := match c with | .white => 1 | .black => 6
def seventhRank (c : Color) : Int := match c with | .white => 6 | .black => 1
/-- rank index of the e.p. target square for the side to move -/
def epTargetRank (c : Color) : Int := match c with | .white => 5 | .black => 2

def sqAt (f r : Int) : Option Sq :=
  if 0 ≤ f ∧ f < 8 ∧ 0 ≤ r ∧ r < 8 then Sq.ofNat? (r.toNat * 8 + f.toNat) else none

def kingHome (c : Color) : Option Sq := sqAt 4 (homeRank c)
def rookHome (sd : Side) (c : Color) : Option Sq := sqAt (match sd with | .king => 7 | .queen => 0) (homeRank c)

/-- the en-passant target square, if a marker is set -/
def epSquare (p : Position) : Option Sq :=
  match p.ep with
  | some f => sqAt f.val (epTargetRank p.turn)
  | none => none

/-- kind of a pseudo-legal move -/
inductive Kind | normal | double | enPassant | castle (sd : Side)
  deriving DecidableEq, Repr

/-- is `m` a castling move of the side to move (king from its home square two files sideways)? -/
def castleSide (p : Position) (m : Move) : Option Side :=
  if p.pieceAt m.source == some (p.turn, .king) && some m.source == kingHome p.turn then
    if some m.dest == sqAt 6 (homeRank p.turn) then some .king
    else if some m.dest == sqAt 2 (homeRank p.turn) then some .queen
    else none
  else none

/-- the castling clauses of the Laws: right held, squares between king and rook empty, king not in
check, transit and arrival squares not attacked -/
def castleOk (p : Position) (sd : Side) : Bool :=
  let c := p.turn
  let r := homeRank c
  let between : List Int := match sd with | .king => [5, 6] | .queen => [1, 2, 3]
  let safe : List Int := match sd with | .king => [5, 6] | .queen => [2, 3]
  p.rights sd c &&
  between.all (fun f => match sqAt f r with | some s => !p.occupied s | none => false) &&
  !p.inCheck c &&
  safe.all (fun f => match sqAt f r with | some s => !p.attacked s c.flip | none => false)

/-- pseudo-legality (everything except leaving one's own king attacked), with the move's kind -/
def pseudo (p : Position) (m : Move) : Option Kind :=
  match p.pieceAt m.source with
  | none => none
  | some (c, pc) =>
    if c != p.turn then none else
    -- the destination holds no own piece and no king
    let destOk := match p.pieceAt m.dest with
      | some (c', pc') => c' != c && pc' != .king
      | none => true
    if !destOk then none else
    match pc with
    | .pawn =>
      let promoOk := (m.piece.isSome == (rankI m.source == seventhRank c))
      if !promoOk then none else
      let one := step m.source 0 (fwd c)
      if some m.dest == one && !p.occupied m.dest then some .normal
      else if rankI m.source == secondRank c && some m.dest == step m.source 0 (2 * fwd c) &&
              (match one with | some o => !p.occupied o | none => false) && !p.occupied m.dest then some .double
      else if pawnAtt c m.source m.dest then
        if p.occupied m.dest then some .normal
        else if some m.dest == p.epSquare &&
                (match sqAt (fileI m.dest) (rankI m.source) with
                 | some v => p.pieceAt v == some (c.flip, .pawn)
                 | none => false) then some .enPassant
        else none
      else none
    | .king =>
      if m.piece.isSome then none
      else if kingAtt m.source m.dest then some .normal
      else match p.castleSide m with
        | some sd => if p.castleOk sd then some (.castle sd) else none
        | none => none
    | _ =>
      if m.piece.isSome then none
      else if p.attacksFrom m.source c pc m.dest then some .normal else none

/-- the successor position the rules prescribe -/
def applyKind (p : Position) (m : Move) (k : Kind) : Position :=
  let c := p.turn
  let moved : Option (Color × Piece) := match p.pieceAt m.source, m.piece with
    | some (c', _), some pr => some (c', pr.toPiece)
    | x, _ => x
  let isPawn := match p.pieceAt m.source with | some (_, .pawn) => true | _ => false
  let isCapture := p.occupied m.dest || k == .enPassant
  let epVictim : Option Sq := if k == .enPassant then sqAt (fileI m.dest) (rankI m.source) else none
  let rookFrom : Option Sq := match k with | .castle sd => rookHome sd c | _ => none
  let rookTo : Option Sq := match k with
    | .castle .king => sqAt 5 (homeRank c)
    | .castle .queen => sqAt 3 (homeRank c)
    | _ => none
  let at' : Sq → Option (Color × Piece) := fun s =>
    if s == m.dest then moved
    else if s == m.source then none
    else if some s == epVictim then none
    else if some s == rookFrom then none
    else if some s == rookTo then some (c, .rook)
    else p.pieceAt s
  let rights' : Side → Color → Bool := fun sd col =>
    p.rights sd col &&
      (if col == c then
        -- own rights: lost when the king or that rook leaves its home square
        !(some m.source == kingHome c) && !(some m.source == rookHome sd c)
       else
        -- opponent's rights: lost when that home rook is captured
        !(some m.dest == rookHome sd col))
  { pieceAt := at',
    turn := c.flip,
    rights := rights',
    ep := if k == .double then some m.dest.file else none,
    half := if isPawn || isCapture then 0 else p.half + 1,
    full := p.full + (match c with | .white => 0 | .black => 1) }

/-- a move is legal iff it is pseudo-legal and does not leave the mover's king attacked -/
def legal (p : Position) (m : Move) : Bool :=
  match p.pseudo m with
  | none => false
  | some k => !(p.applyKind m k).inCheck p.turn

/-- the successor after a legal move (identity for an illegal one) -/
def apply (p : Position) (m : Move) : Position :=
  match p.pseudo m with
  | none => p
  | some k => p.applyKind m k

def promoChoices : List (Option Promo) := [none, some .queen, some .rook, some .bishop, some .knight]

/-- all legal moves (as a list without duplicates, in a fixed enumeration order) -/
def legalMoves (p : Position) : List Move :=
  (List.finRange 64).flatMap fun s =>
    match p.pieceAt s with
    | some (c, _) =>
      if c == p.turn then
        (List.finRange 64).flatMap fun d =>
          promoChoices.filterMap fun pr =>
            let m : Move := ⟨s, d, pr⟩
            if p.legal m then some m else none
      else []
    | none => []

/-- game status as `GameState` words it -/
inductive Status | checkMate | staleMate | check | running
  deriving DecidableEq, Repr

def classify (p : Position) : Status :=
  let noMoves := (p.legalMoves).isEmpty
  let chk := p.inCheck p.turn
  if noMoves then (if chk then .checkMate else .staleMate)
  else if p.half ≥ 100 then .staleMate
  else if chk then .check else .running

def isCheckmate (p : Position) : Bool := p.inCheck p.turn && p.legalMoves.isEmpty

/-- colour mirror: swap the colours, flip the ranks (rights and e.p. file carried over) -/
def mirror (p : Position) : Position :=
  { pieceAt := fun s => (p.pieceAt s.flipRank).map (fun cp => (cp.1.flip, cp.2)),
    turn := p.turn.flip,
    rights := fun sd c => p.rights sd c.flip,
    ep := p.ep, half := p.half, full := p.full }

/-- the validity clauses of C06 -/
def valid (p : Position) : Bool :=
  (p.kings .white).length == 1 && (p.kings .black).length == 1 &&
  ((List.finRange 64).filter (fun s => p.colorAt s == some .white)).length ≤ 16 &&
  ((List.finRange 64).filter (fun s => p.colorAt s == some .black)).length ≤ 16 &&
  !p.inCheck p.turn.flip &&
  [Color.white, Color.black].all (fun c => [Side.king, Side.queen].all (fun sd =>
    !p.rights sd c ||
      ((match kingHome c with | some k => p.pieceAt k == some (c, .king) | none => false) &&
       (match rookHome sd c with | some r => p.pieceAt r == some (c, .rook) | none => false)))) &&
  (match p.ep with
   | none => true
   | some f =>
     (match sqAt f.val (epTargetRank p.turn) with | some t => !p.occupied t | none => false) &&
     (match sqAt f.val (epTargetRank p.turn - fwd p.turn) with
      | some v => p.pieceAt v == some (p.turn.flip, .pawn)
      | none => false))

end Position
end Chess.Spec
