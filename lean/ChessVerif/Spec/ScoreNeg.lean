import ChessVerif.Model.ScoreOps
namespace Chess.Spec
/-- the score seen from the other colour: a white mate-in-n becomes a black mate-in-n -/
def negScore : Score → Score
  | .min => .max | .max => .min
  | .raw x => .raw (-x)
  | .whiteMateIn n => .blackMateIn n
  | .blackMateIn n => .whiteMateIn n
end Chess.Spec
