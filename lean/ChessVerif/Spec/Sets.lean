/-
Specification for C18: a bitboard is a plain set of the 64 squares.  Sets are Boolean
predicates on `Sq`; nothing here touches machine words.  `ofSet`/`members` are the only bridge
(bit `i` of the word ↔ membership of square `i`).
-/
import ChessVerif.Model.Basic
namespace Chess.Spec

abbrev SqSet := Sq → Bool

namespace SqSet
def members (p : SqSet) : List Sq := (List.finRange 64).filter p
def card (p : SqSet) : Nat := (members p).length
def single (s : Sq) : SqSet := fun t => t == s
def fileSet (f : File) : SqSet := fun t => t.file == f
def rankSet (r : Rank) : SqSet := fun t => t.rank == r
def union (p q : SqSet) : SqSet := fun t => p t || q t
def inter (p q : SqSet) : SqSet := fun t => p t && q t
def symmDiff (p q : SqSet) : SqSet := fun t => p t != q t
def compl (p : SqSet) : SqSet := fun t => !p t
def sdiff (p q : SqSet) : SqSet := fun t => p t && !q t
def insert (p : SqSet) (s : Sq) : SqSet := fun t => p t || t == s
def erase (p : SqSet) (s : Sq) : SqSet := fun t => p t && t != s
/-- one step towards rank 8: `t` is in the result iff the square below `t` is in `p` (no wrap) -/
def up (p : SqSet) : SqSet := fun t => match t.down with | some u => p u | none => false
def down (p : SqSet) : SqSet := fun t => match t.up with | some u => p u | none => false
/-- one step towards file a -/
def left (p : SqSet) : SqSet := fun t => match t.right with | some u => p u | none => false
def right (p : SqSet) : SqSet := fun t => match t.left with | some u => p u | none => false
def flipRanks (p : SqSet) : SqSet := fun t => p t.flipRank
def isEmpty (p : SqSet) : Bool := (members p).isEmpty
def isAll (p : SqSet) : Bool := (members p).length == 64
/-- minimum element and the rest -/
def popMin (p : SqSet) : Option (Sq × SqSet) :=
  match members p with
  | [] => none
  | s :: _ => some (s, erase p s)
/-- `nth n` = skip `n` members, yield the next, keep the members after it -/
def nth (p : SqSet) (n : Nat) : Option Sq × SqSet :=
  match (members p).drop n with
  | [] => (none, fun _ => false)
  | s :: _ => (some s, fun t => p t && s.val < t.val)
def ofList (l : List Sq) : SqSet := fun t => l.contains t
/-- the machine word whose bit `i` is set iff square `i` is a member -/
def toBB (p : SqSet) : BB := (members p).foldl (fun b s => b ||| BitVec.twoPow 64 s.val) 0#64
end SqSet

/-- the set a word denotes -/
def setOf (b : BB) : SqSet := fun s => b.getLsbD s.val

end Chess.Spec
