/-
Specification for C19: the accepted language of every parser as an explicit finite description,
and the list iterator the `Range<u8>`-backed iterators must behave like (`Text.listStep`).
-/
import ChessVerif.Model.Text
namespace Chess.Spec.Text
open Chess

/-- files: `a`–`h` in either case -/
def fileOfByte (c : Byte) : Option File :=
  if h : 97 ≤ c.val ∧ c.val ≤ 104 then some ⟨c.val - 97, by omega⟩
  else if h : 65 ≤ c.val ∧ c.val ≤ 72 then some ⟨c.val - 65, by omega⟩
  else none
/-- ranks: `1`–`8` -/
def rankOfByte (c : Byte) : Option Rank :=
  if h : 49 ≤ c.val ∧ c.val ≤ 56 then some ⟨c.val - 49, by omega⟩ else none
/-- the six piece letters in either case -/
def pieceTable : List (Nat × Piece) :=
  [(112, .pawn), (80, .pawn), (110, .knight), (78, .knight), (98, .bishop), (66, .bishop),
   (114, .rook), (82, .rook), (113, .queen), (81, .queen), (107, .king), (75, .king)]
def pieceOfByte (c : Byte) : Option Piece := (pieceTable.find? (fun p => p.1 == c.val)).map (·.2)
def promoTable : List (Nat × Promo) :=
  [(110, .knight), (78, .knight), (98, .bishop), (66, .bishop),
   (114, .rook), (82, .rook), (113, .queen), (81, .queen)]
def promoOfByte (c : Byte) : Option Promo := (promoTable.find? (fun p => p.1 == c.val)).map (·.2)

/-- squares: exactly the two-byte products file × rank -/
def sqOfBytes (l : List Byte) : Option Sq :=
  if l.length = 2 then
    match fileOfByte (l.getD 0 0), rankOfByte (l.getD 1 0) with
    | some f, some r => some (Sq.mk f r)
    | _, _ => none
  else none

/-- moves: exactly `e2e4` and `e2-e4`, never a promotion piece -/
def moveOfBytes (l : List Byte) : Option Move :=
  if l.length = 4 then
    match sqOfBytes (l.take 2), sqOfBytes (l.drop 2) with
    | some s, some t => some ⟨s, t, none⟩
    | _, _ => none
  else if l.length = 5 ∧ l.getD 2 0 = 45 then
    match sqOfBytes (l.take 2), sqOfBytes (l.drop 3) with
    | some s, some t => some ⟨s, t, none⟩
    | _, _ => none
  else none

end Chess.Spec.Text
