/-
Specification for C20, stated over the *history* of operations, not over a mutable state:
a thread's view is its own override if it has one, else the latest global setting;
the override of thread `t` is a function of the operations issued by `t` alone.
-/
import ChessVerif.Model.Tracing
namespace Chess.Spec.Tracing
open Chess.Tracing

/-- effect of one operation on the issuing thread's own override -/
def ownEffect (f : LocalFlag) : Op → LocalFlag
  | .enable | .localEnable => .enabled
  | .disable | .localDisable => .disabled
  | .toggle | .localToggle => toggleFlag f
  | .localTake => .global
  | .restore g => g
  | .isEnabled => f

/-- override of thread `t` after history `h`: fold over the operations of `t` only -/
def overrideOf (t : Nat) (h : List (Nat × Op)) : LocalFlag :=
  (h.filter (fun p => p.1 = t)).foldl (fun f p => ownEffect f p.2) .global

/-- effect of one operation (by any thread) on the global setting -/
def globalEffect (g : Bool) : Op → Bool
  | .enable => true
  | .disable => false
  | .toggle => !g
  | _ => g

/-- the latest global setting after history `h` (initially enabled) -/
def lastGlobal (h : List (Nat × Op)) : Bool := h.foldl (fun g p => globalEffect g p.2) true

/-- what `is_enabled()` must return on thread `t` after history `h` -/
def view (t : Nat) (h : List (Nat × Op)) : Bool :=
  match overrideOf t h with
  | .global => lastGlobal h
  | .enabled => true
  | .disabled => false

end Chess.Spec.Tracing
