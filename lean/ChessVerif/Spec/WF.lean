/-
`Board.WF`: the well-formedness invariant of model boards (decidable).  It is what the FEN parser
and the builder establish, what a legal move preserves, and the hypothesis of C01–C05, C07, C10.
-/
import ChessVerif.Model.MoveGen
import ChessVerif.Spec.Abs

namespace Chess
open Chess.Spec

namespace RawBoard

/-- the two colour sets are disjoint, the six piece sets are pairwise disjoint, and both families
cover the same squares: every occupied square has exactly one colour and one piece type -/
def partitionOk (r : RawBoard) : Bool :=
  (r.white &&& r.black) == 0#64 &&
  (r.pawn &&& r.knight) == 0#64 && (r.pawn &&& r.bishop) == 0#64 && (r.pawn &&& r.rook) == 0#64 &&
  (r.pawn &&& r.queen) == 0#64 && (r.pawn &&& r.king) == 0#64 &&
  (r.knight &&& r.bishop) == 0#64 && (r.knight &&& r.rook) == 0#64 && (r.knight &&& r.queen) == 0#64 &&
  (r.knight &&& r.king) == 0#64 &&
  (r.bishop &&& r.rook) == 0#64 && (r.bishop &&& r.queen) == 0#64 && (r.bishop &&& r.king) == 0#64 &&
  (r.rook &&& r.queen) == 0#64 && (r.rook &&& r.king) == 0#64 &&
  (r.queen &&& r.king) == 0#64 &&
  (r.pawn ||| r.knight ||| r.bishop ||| r.rook ||| r.queen ||| r.king) == (r.white ||| r.black)

/-- the hash of a placement computed from scratch: xor of the keys of all (square, piece, colour) -/
def pieceHash (r : RawBoard) : BB :=
  (List.finRange 64).foldl (fun z s =>
    match pieceOn r s with
    | some (c, p) => z ^^^ Lookup.zobristPiece s p c
    | none => z) 0#64

end RawBoard

namespace Board

/-- pinned / checkers equal their from-scratch values -/
def pinInfoOk (b : Board) : Bool :=
  b.pinned == b.updatePinInfo.pinned && b.checkers == b.updatePinInfo.checkers

/-- well-formed board -/
def WF (b : Board) : Bool :=
  b.raw.partitionOk &&
  (match b.validate with | .ok () => true | .error _ => false) &&
  decide (b.castle < 16) &&
  b.pinInfoOk &&
  b.zobrist == b.raw.pieceHash

/-- boards reachable from `b₀` by legal moves (model-level reachability) -/
inductive Reachable (b₀ : Board) : Board → Prop
  | refl : Reachable b₀ b₀
  | step {b : Board} (m : Move) : Reachable b₀ b → b.isLegal m = true → Reachable b₀ (b.moveUnchecked m)

end Board
end Chess
