/- `chessdrv`: line protocol driver.  One request per line on stdin, one answer line on stdout:
`<model answer> ## <specification answer>`. -/
import ChessVerif.Drv.Engine

open Chess Chess.Drv

def dispatch (line : String) : Ans :=
  match (line.trimAscii.toString.splitOn " ").filter (· ≠ "") with
  | "score" :: r => handleScore r
  | "api" :: r => handleApi r
  | "txt" :: r => handleTxt r
  | "show" :: r => handleShow r
  | "sq" :: r => handleSq r
  | "iter" :: r => handleIter r
  | "trace" :: r => handleTrace r
  | "bb" :: r => handleBB r
  | "lookup" :: r => handleLookup r
  | "gen" :: r => handleLookup r
  | "zob" :: r => handleZob r
  | "magicgen" :: r => handleMagicGen r
  | "pos" :: r => handlePos r
  | "fen" :: r => handleFen r
  | "mgiter" :: r => handleIter2 r
  | "build" :: r => handleBuild r
  | "expect" :: r => handleExpect r
  | "searchfp" :: r => handleSearchFp r
  | "minimax" :: r => handleMinimax r
  | "mirrorchk" :: r => handleMirrorChk r
  | "search" :: r => handleSearch r
  | "evalp" :: r => handleEvalP r
  | "searchchk" :: r => handleSearchChk r
  | "bot" :: r => handleBot r
  | "referee" :: r => handleReferee r
  | "book" :: r => handleBook r
  | "glue" :: r => handleGlue r
  | "bookgen" :: r => handleBookGen r
  | _ => bad

partial def loop (hin hout : IO.FS.Stream) : IO Unit := do
  let line ← hin.getLine
  if line.isEmpty then return ()
  let (m, s) := dispatch line
  hout.putStrLn (m ++ " ## " ++ s)
  loop hin hout

def main : IO Unit := do
  let hin ← IO.getStdin
  let hout ← IO.getStdout
  loop hin hout
  hout.flush
