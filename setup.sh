#!/bin/sh
# MANIFEST.setup_cmd: build the whole framework offline from files on disk.
set -e
cd "$(dirname "$0")"
export CARGO_NET_OFFLINE=true
python3 tools/translate.py
(cd lean && lake build ChessVerif chessdrv)
cp /repo/Cargo.lock harness/Cargo.lock 2>/dev/null || true
(cd harness && cargo build --offline --profile checked)
(cd harness && CARGO_TARGET_DIR=target-nobmi2 RUSTFLAGS="-Ctarget-cpu=native -Ctarget-feature=-bmi2" cargo build --offline --profile checked)
(cd /repo && cargo build --offline --release -p chess-bot -p chess-cli --target-dir /verif/harness/target-bot)
echo "setup done"
