#!/usr/bin/env python3
"""quick manual comparison of one stream directory (development aid)"""
import sys, collections
s = sys.argv[1]
req = open(f'{s}/req.txt').read().split('\n')
imp = open(f'{s}/impl.txt').read().split('\n')
mod = open(f'{s}/model.txt').read().split('\n')
mm = ms = 0
ex = []
byk = collections.Counter()
for r, i, m in zip(req, imp, mod):
    if not r:
        continue
    a, b = m.split(' ## ') if ' ## ' in m else (m, '-')
    if a != '-' and a != i:
        mm += 1; byk['M ' + ' '.join(r.split(' ')[:2])] += 1
        if len(ex) < int(sys.argv[2]) if len(sys.argv) > 2 else 6: ex.append(('M', r, i, a))
    if b != '-' and b != i:
        ms += 1; byk['S ' + ' '.join(r.split(' ')[:2])] += 1
        if len(ex) < (int(sys.argv[2]) if len(sys.argv) > 2 else 6): ex.append(('S', r, i, b))
print(s, len(req), 'model≠impl', mm, 'spec≠impl', ms, dict(byk))
for e in ex:
    print('  ', e[0], e[1][:260]); print('      impl:', e[2][:260]); print('      other:', e[3][:260])
