#!/bin/sh
# usage: tools/confirm_mutation.sh <id> <worktree>   — confirms a seeded change in a scratch worktree:
# compiles, the 44 baseline tests pass with it, the demonstration fails with it and passes without it.
id="$1"; wt="$2"
dir=/verif/seeded/$id
loc=$(python3 - "$dir/meta.json" <<'PY'
import json,sys,re
m=json.load(open(sys.argv[1]))
t=json.dumps(m)
r=re.search(r'(chess-[a-z-]+|tracing-enabled)/tests/[a-z_0-9]+\.rs',t)
print(r.group(0) if r else 'chess-movegen/tests/demo.rs')
PY
)
crate=$(echo $loc | cut -d/ -f1); tname=$(basename $loc .rs)
cd $wt && git checkout -q -- . && git clean -fdq -e out -e target
export CARGO_TARGET_DIR=$wt/target
git apply $dir/patch.diff || { echo "{\"id\":\"$id\",\"applies\":false}" > $dir/confirm.json; exit 1; }
base=$(cargo test --workspace --no-fail-fast --offline 2>&1 | grep -E "^test result" | awk '{p+=$4; f+=$6} END {print p" "f}')
mkdir -p $(dirname $wt/$loc); cp $dir/demo.rs $wt/$loc
cargo build -p $crate --offline >/dev/null 2>&1
with=$(cargo test -p $crate --test $tname --offline 2>&1 | grep -E "^test result" | tail -1)
git checkout -q -- .
cargo build -p $crate --offline >/dev/null 2>&1
without=$(cargo test -p $crate --test $tname --offline 2>&1 | grep -E "^test result" | tail -1)
rm -f $wt/$loc
python3 - "$id" "$base" "$with" "$without" "$loc" > $dir/confirm.json <<'PY'
import sys,json
id,base,w,wo,loc=sys.argv[1:6]
p,f=(base.split()+['0','0'])[:2]
print(json.dumps({"id":id,"baseline_passed":int(p),"baseline_failed":int(f),"demo_with_mutation":w,"demo_without_mutation":wo,"demo_location":loc,
 "confirmed": int(p)==44 and int(f)==0 and ('FAILED' in w or 'failed' in w and ' 0 failed' not in w) and ' 0 failed' in wo and 'ok' in wo}))
PY
cat $dir/confirm.json
