#!/usr/bin/env python3
"""(re)generate lean/ChessVerif/Audit/Cxx.lean: `#print axioms` for every theorem of Props/Cxx.lean
(and of the extra modules listed below, whose theorems are part of the property's obligations)"""
import re, os, sys
ROOT = os.path.join(os.path.dirname(os.path.abspath(__file__)), '..', 'lean', 'ChessVerif')
EXTRA = {
    'C09': [('Props/C09/Small.lean', 'Chess.Props.C09'), ('Props/C09/Pawn.lean', 'Chess.Props.C09')] +
           [(f'Props/C09/Between{k}.lean', 'Chess.Props.C09') for k in range(4)] + [(f'Props/C09/Line{k}.lean', 'Chess.Props.C09') for k in range(4)],
    'C08': [('Props/C08/All.lean', 'Chess.Props.C08')],
    'C04': [('Props/C04/Keys.lean', 'Chess.Props.C04')],
    'C02': [('Props/C02/Basic.lean', 'Chess.Props.C02')],
    'C10': [('Props/C10/Basic.lean', 'Chess.Props.C10')],
    'C15': [('Props/C15/Basic.lean', 'Chess.Props.C15')],
    'C12': [('Props/C12/Basic.lean', 'Chess.Props.C12')],
    'C13': [('Props/C13/Basic.lean', 'Chess.Props.C13'), ('Proofs/Minimax/Exact.lean', 'Chess.Proofs.Minimax')],
    'C06': [('Props/C06/Sound.lean', 'Chess.Props.C06')],
    'C17': [('Props/C17/Basic.lean', 'Chess.Props.C17')],
}
def names(path):
    s = open(path, encoding='utf-8').read()
    s = re.sub(r'/-.*?-/', '', s, flags=re.S)
    return re.findall(r'^(?:set_option [^\n]* in\n)?theorem\s+([A-Za-z_0-9\'.]+)', s, flags=re.M)
for f in sorted(os.listdir(os.path.join(ROOT, 'Props'))):
    m = re.fullmatch(r'(C\d+)\.lean', f)
    if not m:
        continue
    p = m.group(1)
    ns = f'Chess.Props.{p}'
    out = [f'import ChessVerif.Props.{p}'] + [f'import ChessVerif.{rel[:-5].replace("/", ".")}' for rel, _ in EXTRA.get(p, [])] + [f'open {ns}']
    for n in names(os.path.join(ROOT, 'Props', f)):
        out.append(f'#print axioms {n}')
    for rel, ens in EXTRA.get(p, []):
        for n in names(os.path.join(ROOT, rel)):
            out.append(f'#print axioms {ens}.{n}')
    open(os.path.join(ROOT, 'Audit', f'{p}.lean'), 'w').write('\n'.join(out) + '\n')
    print(p, len([x for x in out if x.startswith('#print')]))
