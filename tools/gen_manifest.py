#!/usr/bin/env python3
"""write MANIFEST.json from tools/manifest_data.py (so it stays valid and in step with props.py)"""
import json, os, sys
sys.path.insert(0, os.path.dirname(os.path.abspath(__file__)))
from manifest_data import CLAIMS, NOT_APPLICABLE
ids = [json.loads(l)['id'] for l in open('/verif/properties.jsonl')]
checks = []
for pid in ids:
    if pid not in CLAIMS:
        continue
    c = CLAIMS[pid]
    checks.append({
        "property_id": pid,
        "quick_cmd": f"./check {pid} quick",
        "thorough_cmd": f"./check {pid} thorough",
        "evidence_file": f"/verif/evidence/{pid}.json",
        "replay_cmd_template": "./check replay {path}",
        "engine": "lean-proof+correspondence",
        "level_claimed": {"category": "proof", "text": c["text"], "design_ref": c.get("design_ref", f"DESIGN.md §6 {pid}")},
        "level_note": c["note"],
        "technique": c["technique"],
    })
na = [{"property_id": p, "reason": r} for p, r in NOT_APPLICABLE.items() if p not in CLAIMS]
for pid in ids:
    if pid not in CLAIMS and pid not in NOT_APPLICABLE:
        na.append({"property_id": pid, "reason": "not yet claimed: the Lean model, theorems and correspondence stream for this property are still being built (see DESIGN.md §6); no other technique is substituted"})
m = {
    "version": 1,
    "setup_cmd": "./setup.sh",
    "hooks": {
        "guard": "rustyyato_chess_verif",
        "enable": "no source hooks are needed: every observable is reached through public API, Debug/Display output, the public Timeout trait and the harness's own build profile (debug-assertions + overflow-checks); the guard name is reserved",
        "baseline_off_cmd": "cd /repo && cargo test --workspace --no-fail-fast --offline",
        "source_commits": [],
        "add_only": True,
    },
    "engines": [
        {"name": "lean-model", "path": "lean/", "serves_properties": [c["property_id"] for c in checks], "kind_free_text": "Lean 4 model, specification and kernel-checked theorems (lake project, no Mathlib in model files); native driver chessdrv answers requests from model and specification"},
        {"name": "rust-harness", "path": "harness/", "serves_properties": [c["property_id"] for c in checks], "kind_free_text": "Rust crate with path dependencies on /repo's crates; runs the real code in-process on generated / exhaustive inputs and writes request+answer streams"},
        {"name": "translator", "path": "tools/translate.py", "serves_properties": [c["property_id"] for c in checks if CLAIMS[c["property_id"]].get("translator")], "kind_free_text": "regenerates Lean data/functions (tables, constants, match arms) from the Rust source on every run"},
    ],
    "checks": checks,
    "notes": "Technique: machine-checked proof in Lean 4 about a model tied to the source by a translator (data) and a correspondence check (code). See DESIGN.md. known_findings.jsonl lists genuine defects (open / fixed).",
    "not_applicable": na,
}
json.dump(m, open('/verif/MANIFEST.json', 'w'), indent=1)
print("MANIFEST.json:", len(checks), "claimed,", len(na), "not claimed")
