#!/usr/bin/env python3
"""usage: gen_mutation_prompt.py <Cxx> <worktree> [n]  — prints the prompt handed to a fresh sub-agent that
seeds breaking changes for one property (the agent sees only the property text and its scratch worktree)."""
import json, sys
pid, wt = sys.argv[1], sys.argv[2]
n = int(sys.argv[3]) if len(sys.argv) > 3 and sys.argv[3].isdigit() else 2
props = {json.loads(l)["id"]: json.loads(l) for l in open("/verif/properties.jsonl")}
p = props[pid]
# round >= 4: the agent is told (in one line each) which changes were already made for this property, so that it
# produces something different; nothing about how they are detected
import glob, os
earlier = []
if "--avoid" in sys.argv:
    for d in sorted(glob.glob(f"/verif/seeded/{pid}-*")):
        try:
            earlier.append("  - " + json.load(open(d + "/meta.json"))["summary"][:260].replace("\n", " "))
        except Exception:
            pass
HINT = ""
if "--hint" in sys.argv:
    HINT = "\nSTYLE REQUESTED FOR THIS ROUND: " + sys.argv[sys.argv.index("--hint") + 1] + "\n"
AVOID = ("\nChanges of the following kinds were already made by others for this property; yours must be DIFFERENT from all of them (different site or different mechanism) and preferably subtler:\n" + "\n".join(earlier) + "\n") if earlier else ""
print(f"""You are given a scratch git worktree of a Rust chess workspace (crates: chess-bitboard, chess-lookup (generated lookup tables), chess-movegen (board, legal move generator, FEN), chess-engine (alpha-beta search), chess-api / chess-bot (plugin), chess-cli, chess-wasm, tracing-enabled) at {wt}. Work ONLY inside {wt}; do not read or write anything under /verif or /repo. There is no network: always pass `--offline` to cargo, and use `CARGO_TARGET_DIR={wt}/target` so build output stays inside the worktree. Start with `cd {wt} && git checkout -q -- . && git clean -fdq -e target && rm -rf out` to make sure the tree is clean.

Here is a semantic property the code base is supposed to satisfy:

{pid} — {p['title']}
Statement: {p['statement']}
Quantifier: {p.get('quantifier',{}).get('text','') if isinstance(p.get('quantifier'),dict) else p.get('quantifier','')}

{AVOID}{HINT}
YOUR TASK: produce {n} different, independent small source changes ("mutations"), each of which BREAKS this property while
  (1) the workspace still compiles, and
  (2) the existing test suite still passes unchanged: `cd {wt} && CARGO_TARGET_DIR={wt}/target cargo test --workspace --no-fail-fast --offline` (44 tests; takes about a minute),
and each of which is REALISTIC — the kind of slip a maintainer could make while refactoring or optimising (a dropped or swapped condition, a wrong constant, mask, table entry or index, an off-by-one, a wrong colour/side, forgetting one case of several, using stale state) — and needs something SPECIFIC to manifest: a particular kind of position or input, a multi-step sequence of operations, an unusual combination, or two sites that each look fine alone. Do not make changes that ordinary use (e.g. generating moves in the start position, parsing the standard FEN) would expose at once, and do not just add `panic!`/early `return` gibberish.

For each mutation i (1..{n}):
  * put the source change alone (no test code) in `{wt}/out/{pid}-i/patch.diff` (output of `git diff` for the changed source files, applicable with `git apply` to a clean checkout);
  * write a demonstration `{wt}/out/{pid}-i/demo.rs`: a Rust integration test (to be placed at e.g. `chess-movegen/tests/demo.rs` or the appropriate crate's `tests/` directory — say where) that FAILS with the mutation applied and PASSES on the clean tree; verify both yourself (apply, run, `git checkout -- .` / `git stash`, run again);
  * write `{wt}/out/{pid}-i/meta.json` with keys: "property" ("{pid}"), "summary" (what was changed and why it breaks the property), "needs" (what specific input/sequence is needed for it to manifest), "demo_location" (where demo.rs goes, e.g. "chess-movegen/tests/demo.rs", and the exact command to run it), "verified" (the commands you ran and their outcomes: compile ok, 44 baseline tests pass with mutation, demo fails with mutation, demo passes without).
Leave the worktree's tracked files clean at the end (`git checkout -- .`; remove the demo test from the crate directory; keep only `{wt}/out/`). Report a short summary of each mutation at the end.""")
