#!/bin/sh
# usage: tools/import_seeded.sh <worktree> <Cxx>   — copies <worktree>/out/<Cxx>-i/ to /verif/seeded/<Cxx>-<next free n>/
wt="$1"; p="$2"
for d in "$wt"/out/$p-*; do
  [ -d "$d" ] || continue
  n=1; while [ -e /verif/seeded/$p-$n ]; do n=$((n+1)); done
  mkdir -p /verif/seeded/$p-$n
  cp "$d"/patch.diff "$d"/demo.rs "$d"/meta.json /verif/seeded/$p-$n/
  echo "$d -> seeded/$p-$n"
done
