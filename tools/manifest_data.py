"""Claims registered in MANIFEST.json (one entry per property whose check is built and green)."""

NOT_APPLICABLE = {}

CLAIMS = {
    "C14": {
        "text": "Kernel-checked theorems, for all scores with unbounded payloads (Nat ⊇ u16, Int ⊇ i32): the comparison regenerated from score.rs equals the specified chain order (cmp_eq_spec), is reflexive, antisymmetric, transitive and total, agrees with Eq and partial_cmp, has Min/Max as extremes and orders mates/raw as stated. A proof is the right level because the quantifier is over all pairs and triples of an infinite (in the model) domain and the functions are small and pure.",
        "note": "Trusted: Lean kernel; axioms propext, Classical.choice, Quot.sound only; tools/translate.py (turns Score::kind, ScoreKind's declaration order and the Ord::cmp arms into Lean); derived PartialEq and std max/min/lt defaults are modelled; the exhaustive-grid + random correspondence stream ties the generated Lean functions to the compiled Rust.",
        "technique": "Lean 4 theorems (grind/omega) over functions regenerated from source + differential correspondence",
        "translator": True,
    },
    "C16": {
        "text": "Kernel-checked round-trip theorems for every move, optional move and score (all squares, all promotion choices, unbounded payloads) over conversion functions regenerated from the match arms of chess-api/src/lib.rs; exhaustive differential of all 20480 moves, None and all 131072 mate scores against the compiled Rust.",
        "note": "Trusted: Lean kernel (axioms: propext at most); tools/translate.py for the match arms, sentinel and field wiring; abi_stable's layout machinery and enum discriminants are outside the model (value-level round trip).",
        "technique": "Lean 4 theorems by case analysis over translated match arms + exhaustive differential",
        "translator": True,
    },
    "C20": {
        "text": "Kernel-checked theorems for any number of threads and every interleaving (induction over the history): is_enabled on thread t equals t's own override if any else the last global write (view_eq_spec); an operation never changes another thread's override (step_isolated, loc_run); take/restore returns the saved override. Partial: thread-local storage and single atomic accesses are modelled as per-thread state and atomic steps.",
        "note": "Trusted: Lean kernel (axiom: propext); hand-written 60-line model of tracing-enabled/src/lib.rs tied to the code by exhaustive schedules of length 3 (quick) / 4 (thorough) on two real threads plus random longer ones on 2-3 threads; the hardware memory model and TLS semantics are assumed.",
        "technique": "Lean 4 invariant-by-induction over operation histories + exhaustive small-schedule correspondence on real threads",
    },
    "C18": {
        "text": "Kernel-checked theorems for all 2^64 words (and pairs): extensionality, membership characterisation of every constructor and operator (from_pos/file/rank, with, cleared, or/and/xor/not/diff), the four shifts against the no-wrap set definition, flip_ranks, count = cardinality, any/none/all/some, pop = remove-minimum, the pop loop = ascending member list with exact size hint, nth = skip n for both the portable and the PDEP implementation (including n >= 64), FromIterator = union. 36 theorems, no bound on the word.",
        "note": "Trusted: Lean kernel (axioms propext, Classical.choice, Quot.sound); the hand-written model of chess-bitboard (Model/Basic.lean) is tied to the code by structured + random differential streams on two CPU-feature builds; the intrinsics tzcnt/popcnt/bswap/pdep are modelled. Defect found and fixed: nth(n >= 64) (known_findings.jsonl).",
        "technique": "Lean 4 bit-level extensional proofs over BitVec 64 (induction on fuel for tz/pop/pdep loops) + differential correspondence",
    },
    "C19": {
        "text": "Kernel-checked theorems: square/file/rank/neighbour/flip consistency for all 64 squares; parse(print x) = x for every square, file, rank, promotion letter and non-promotion move; the accepted language of every parser characterised for every byte (256 cases each by kernel evaluation) and every byte string (case analysis on length): files a-h/A-H, ranks 1-8, twelve piece letters, Pos = file x rank, ChessMove = exactly the 4-byte and 5-byte '-' forms and never a promotion; the Range<u8>-backed iterators refine a two-ended list iterator for every operation sequence (induction).",
        "note": "Trusted: Lean kernel (axioms propext, Classical.choice, Quot.sound); hand-written model (Model/Text.lean, Sq functions in Model/Basic.lean) tied to the code by exhaustive streams over the finite domains; Range<u8> is modelled.",
        "technique": "Lean 4: decide +kernel over Fin 256 / Fin 64, list case analysis, refinement by induction over operation sequences + exhaustive differential",
    },
    "C08": {
        "text": "Kernel-checked theorems rook_eq / bishop_eq: for every square and every one of the 2^64 occupancies the computed table index is below the table length and the lookup equals ray casting by stepping up to and including the first occupied square. Proof: per-square kernel evaluation over every subset of the magic mask of the tables regenerated from the source (128 obligations, 107648 subsets), lifted to all words by checkAll_sound (subset enumeration covers occ & mask) and slide_congr + mask-coverage (ray casting ignores squares outside the mask).",
        "note": "Trusted: Lean kernel (axioms propext, Classical.choice, Quot.sound; no native_decide); tools/translate.py for the tables; the index expression is hand-modelled in BitVec 64 and tied to the code by the exhaustive accessor sweep of the same subsets plus random full occupancies.",
        "technique": "Lean 4: decide +kernel over all mask subsets per square on translated tables + inductive lifting lemmas to all 2^64 occupancies; exhaustive differential of the accessors",
        "translator": True,
    },
    "C09": {
        "text": "Kernel-checked theorems on the tables and constants regenerated from the source: knight, king, pawn-capture, pawn-push, rook-ray, bishop-ray tables equal their coordinate definitions for all 64 squares; between and line equal walking from a towards b / the whole line for all 4096 pairs and are empty for non-aligned pairs; distance, adjacent files/ranks and the 17 hand-written constants equal their definitions; pawn_quiets / pawn_attacks / pawn_moves characterised for all 2^64 occupancies. No wrap-around is built into the definitions (step leaves the board).",
        "note": "Trusted: Lean kernel (axioms propext, Classical.choice, Quot.sound); tools/translate.py; the accessor bodies are hand-modelled and tied to the code by an exhaustive sweep of every public accessor, constant and deterministic generator function.",
        "technique": "Lean 4: decide +kernel over the whole finite domain of translated tables, lifted to membership lemmas; symbolic proof for the occupancy-dependent pawn helpers; exhaustive differential",
        "translator": True,
    },
}
