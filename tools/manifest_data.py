"""Claims registered in MANIFEST.json (one entry per property whose check is built and green)."""

NOT_APPLICABLE = {}

CLAIMS = {
    "C14": {
        "text": "Kernel-checked theorems, for all scores with unbounded payloads (Nat ⊇ u16, Int ⊇ i32): the comparison regenerated from score.rs equals the specified chain order (cmp_eq_spec), is reflexive, antisymmetric, transitive and total, agrees with Eq and partial_cmp, has Min/Max as extremes and orders mates/raw as stated. A proof is the right level because the quantifier is over all pairs and triples of an infinite (in the model) domain and the functions are small and pure.",
        "note": "Trusted: Lean kernel; axioms propext, Classical.choice, Quot.sound only; tools/translate.py (turns Score::kind, ScoreKind's declaration order and the Ord::cmp arms into Lean); derived PartialEq and std max/min/lt defaults are modelled; the exhaustive-grid + random correspondence stream ties the generated Lean functions to the compiled Rust.",
        "technique": "Lean 4 theorems (grind/omega) over functions regenerated from source + differential correspondence",
        "translator": True,
    },
    "C16": {
        "text": "Kernel-checked round-trip theorems for every move, optional move and score (all squares, all promotion choices, unbounded payloads) over conversion functions regenerated from the match arms of chess-api/src/lib.rs; exhaustive differential of all 20480 moves, None and all 131072 mate scores against the compiled Rust.",
        "note": "Trusted: Lean kernel (axioms: propext at most); tools/translate.py for the match arms, sentinel and field wiring; abi_stable's layout machinery and enum discriminants are outside the model (value-level round trip).",
        "technique": "Lean 4 theorems by case analysis over translated match arms + exhaustive differential",
        "translator": True,
    },
    "C20": {
        "text": "Kernel-checked theorems for any number of threads and every interleaving (induction over the history): is_enabled on thread t equals t's own override if any else the last global write (view_eq_spec); an operation never changes another thread's override (step_isolated, loc_run); take/restore returns the saved override. Partial: thread-local storage and single atomic accesses are modelled as per-thread state and atomic steps.",
        "note": "Trusted: Lean kernel (axiom: propext); hand-written 60-line model of tracing-enabled/src/lib.rs tied to the code by exhaustive schedules of length 3 (quick) / 4 (thorough) on two real threads plus random longer ones on 2-3 threads; the hardware memory model and TLS semantics are assumed.",
        "technique": "Lean 4 invariant-by-induction over operation histories + exhaustive small-schedule correspondence on real threads",
    },
    "C18": {
        "text": "Kernel-checked theorems for all 2^64 words (and pairs): extensionality, membership characterisation of every constructor and operator (from_pos/file/rank, with, cleared, or/and/xor/not/diff), the four shifts against the no-wrap set definition, flip_ranks, count = cardinality, any/none/all/some, pop = remove-minimum, the pop loop = ascending member list with exact size hint, nth = skip n for both the portable and the PDEP implementation (including n >= 64), FromIterator = union. 36 theorems, no bound on the word.",
        "note": "Trusted: Lean kernel (axioms propext, Classical.choice, Quot.sound); the hand-written model of chess-bitboard (Model/Basic.lean) is tied to the code by structured + random differential streams on two CPU-feature builds; the intrinsics tzcnt/popcnt/bswap/pdep are modelled. Defect found and fixed: nth(n >= 64) (known_findings.jsonl).",
        "technique": "Lean 4 bit-level extensional proofs over BitVec 64 (induction on fuel for tz/pop/pdep loops) + differential correspondence",
    },
    "C19": {
        "text": "Kernel-checked theorems: square/file/rank/neighbour/flip consistency for all 64 squares; parse(print x) = x for every square, file, rank, promotion letter and non-promotion move; the accepted language of every parser characterised for every byte (256 cases each by kernel evaluation) and every byte string (case analysis on length): files a-h/A-H, ranks 1-8, twelve piece letters, Pos = file x rank, ChessMove = exactly the 4-byte and 5-byte '-' forms and never a promotion; the Range<u8>-backed iterators refine a two-ended list iterator for every operation sequence (induction).",
        "note": "Trusted: Lean kernel (axioms propext, Classical.choice, Quot.sound); hand-written model (Model/Text.lean, Sq functions in Model/Basic.lean) tied to the code by exhaustive streams over the finite domains; Range<u8> is modelled.",
        "technique": "Lean 4: decide +kernel over Fin 256 / Fin 64, list case analysis, refinement by induction over operation sequences + exhaustive differential",
    },
    "C08": {
        "text": "Kernel-checked theorems rook_eq / bishop_eq: for every square and every one of the 2^64 occupancies the computed table index is below the table length and the lookup equals ray casting by stepping up to and including the first occupied square. Proof: per-square kernel evaluation over every subset of the magic mask of the tables regenerated from the source (128 obligations, 107648 subsets), lifted to all words by checkAll_sound (subset enumeration covers occ & mask) and slide_congr + mask-coverage (ray casting ignores squares outside the mask).",
        "note": "Trusted: Lean kernel (axioms propext, Classical.choice, Quot.sound; no native_decide); tools/translate.py for the tables; the index expression is hand-modelled in BitVec 64 and tied to the code by the exhaustive accessor sweep of the same subsets plus random full occupancies.",
        "technique": "Lean 4: decide +kernel over all mask subsets per square on translated tables + inductive lifting lemmas to all 2^64 occupancies; exhaustive differential of the accessors",
        "translator": True,
    },
    "C09": {
        "text": "Kernel-checked theorems on the tables and constants regenerated from the source: knight, king, pawn-capture, pawn-push, rook-ray, bishop-ray tables equal their coordinate definitions for all 64 squares; between and line equal walking from a towards b / the whole line for all 4096 pairs and are empty for non-aligned pairs; distance, adjacent files/ranks and the 17 hand-written constants equal their definitions; pawn_quiets / pawn_attacks / pawn_moves characterised for all 2^64 occupancies. No wrap-around is built into the definitions (step leaves the board).",
        "note": "Trusted: Lean kernel (axioms propext, Classical.choice, Quot.sound); tools/translate.py; the accessor bodies are hand-modelled and tied to the code by an exhaustive sweep of every public accessor, constant and deterministic generator function.",
        "technique": "Lean 4: decide +kernel over the whole finite domain of translated tables, lifted to membership lemmas; symbolic proof for the occupancy-dependent pawn helpers; exhaustive differential",
        "translator": True,
    },
    "C01": {
        "text": 'Kernel-checked theorem for every well-formed board, and hence (well-formedness is proved invariant under legal moves and established by the parser and the standard constructor) for every position reachable by legal play from the standard start or from any parsed position: the list the generator yields contains exactly the moves the mailbox specification of the rules calls legal (legals_iff: castling, en passant, all four promotion choices, every check evasion; no move leaving the king attacked), each exactly once (legals_nodup), and is_legal answers the same question (isLegal_iff_spec). About 8700 lines of Lean (Proofs/Legal): ray/segment geometry, attacks on the mailbox, meaning of pinned/checkers, the three check regimes, the line test for pinned pieces, king steps and castling, en passant, per-piece assembly. Four genuine en-passant defects were found by the differential oracle while building this and fixed.',
        "note": 'Trusted: Lean kernel (axioms propext, Classical.choice, Quot.sound; no native_decide in this property); the ~300-line rules specification Spec/Rules.lean and the abstraction Spec/Abs.lean; the hand-written model of the generator tied to the code by exact comparison of move sets, yield order, masked sets and is_legal (all 20480 triples on a subsample) on corpus, play and motif positions; tools/translate.py for the tables (C08, C09 prove them equal to their definitions).',
        "technique": 'Lean 4 proof of generator = rules for all well-formed / reachable boards (invariant + case analysis over check regimes) + differential oracle implementation vs specification',
        "translator": True,
    },
    "C02": {
        "text": 'Kernel-checked: on every well-formed board (hence every reachable position) the checked move returns a successor exactly for the legal moves (moveNew_none_iff) and then abs(successor) = Spec.apply(abs board, move) as a whole position — placement including rook hop, en-passant victim and promoted piece, side to move, castling rights, marker, clocks below the 16-bit limit (moveNew_abs, move_abs, move_placement for every kind of move) — and the successor is again well-formed (move_WF). Field-level theorems (turn, clocks, rights masks = the a1/e1/h1/a8/e8/h8 rule, marker iff double step) hold for every board and move without hypothesis.',
        "note": 'Trusted: Lean kernel (axioms propext, Classical.choice, Quot.sound); hand-written line-by-line model of move_unchecked_into tied to the code by exact successor comparison (square by square, rights, marker, clocks, derived state) on every legal move of the generated positions and by refusal/untouched-board checks on illegal triples; clocks at the 16-bit limit saturate (fix: commit) and are outside the property.',
        "technique": 'Lean 4 refinement proof (abs commutes with make-move, all move kinds; WF invariant) + differential oracle vs Spec.apply',
        "translator": True,
    },
    "C03": {
        "text": "Kernel-checked for every well-formed / reachable board: in_check iff the side to move's king is attacked (inCheck_iff); the four-way state() is the specification's classification (state_eq, using C01 for 'no legal move'); the pin/check state maintained incrementally by make-move is the from-scratch state (move_pinInfo: direct, discovered, castling-rook, promotion and en-passant-discovered checks), so well-formedness is invariant; and writing any reachable board as text and parsing it back returns the identical board in all fields including hash, pinned and checkers (rebuilt_eq_reachable) — a played position is indistinguishable from the rebuilt one.",
        "note": "Trusted: Lean kernel (axioms propext, Classical.choice, Quot.sound); models of update_pin_info / make-move / Display / parse_fen tied to the code by the moved-vs-rebuilt differential (legal moves, check, hash, Display, Debug, ==) and by comparing the incrementally kept state with the model's from-scratch values on playouts.",
        "technique": 'Lean 4 invariant proof (incremental = from scratch) + classification theorem + moved-vs-rebuilt differential',
        "translator": True,
    },
    "C04": {
        "text": 'Kernel-checked: all 794 translated keys pairwise distinct, non-zero, 64-bit; boards that compare equal and carry the from-scratch piece hash hash equal, the hash ignores clocks and pin state; the standard literal and every parsed board carry the from-scratch hash; make-move maintains it for every move kind (move_hash), so for every reachable position the stored hash is the from-scratch hash and equal reachable boards hash equal whatever move orders produced them (reachable_hash, eq_hash_reachable).',
        "note": 'Trusted: Lean kernel (axioms propext, Classical.choice, Quot.sound); translator for the keys and the standard literal; model of the xor helper tied to the code by comparing zobrist() and the stored piece hash on every generated position and on transposing move-order pairs; HashMap/Hasher glue of ThreeFold is modelled (IntHasher passes zobrist() through).',
        "technique": 'Lean 4: decide +kernel over the translated key table, invariant proof for incremental maintenance, algebraic theorems + differential',
        "translator": True,
    },
    "C05": {
        "text": "Kernel-checked for every well-formed board with clocks <= 9999: parse_fen(display b) = b in all nine fields including hash and pin/check state (parse_display), and the canonical text re-prints byte for byte (display_parse); number, castling-letter and start-position round trips. The writer/parser models are tied to the code by exact byte comparison of Display and by both round trips on generated boards plus a forced rights x marker x clock grid.",
        "note": "Trusted: Lean kernel (axioms propext, Classical.choice, Quot.sound); hand-written models of Display and parse_fen (after the fix: commit for the e.p. rank); the builder cannot set rights from outside the crate.",
        "technique": "Lean 4 round-trip proof by induction over ranks/files with a generalised missing-counter, structural decimal lemma, permutation argument for the hash",
        "translator": True,
    },
    "C06": {
        "text": "Kernel-checked for every byte string: the parser model never reaches a panic (parse_total); every accepted board went through validate and update_pin_info, its sets form a partition, its hash is the from-scratch hash, rights < 16, clocks <= 9999, and it is well-formed (parse_WF: one king per side, <= 16 men per side, opponent not in check, rights only with king and rook at home, marker only on an empty square behind an enemy pawn — the clauses of Board.validate, after two fix: commits). The link from Board.validate's bitboard clauses to the mailbox clauses of the specification is decided per run (every accepted board re-checked with Spec.valid).",
        "note": "Trusted: Lean kernel (axioms propext, Classical.choice, Quot.sound); hand-written byte-level model of parse_fen tied to the code by valid, truncated, grammar-mutated and random byte strings (outcome and error variant compared).",
        "technique": "Lean 4 proof by induction over the input bytes with a placement invariant + differential on malformed and valid inputs",
        "translator": True,
    },
    "C07": {
        "text": "Kernel-checked preconditions of the unchecked operations on every well-formed / reachable board: move list never exceeds its translated capacity 18 for any mask (moveList_capacity: <=16 men, one entry each, plus <=2 e.p. entries), check_mask's assertion holds at every call site, both kings exist for king_sq's pop_unchecked, castle index < 16, slider-table indices in range for all squares and occupancies (C08), book reads in range and walk terminating (C17, native_decide), parser never panics on any byte string (C06), saturating clocks stay in u16. Partial by nature: machine-level UB is a property of the compiled artefact; every stream of every property runs under the checked build (debug assertions + overflow checks) and any panic/abort/hang is a failing input for this property.",
        "note": "Trusted: Lean kernel; C17's native_decide (Lean.ofReduceBool) for the book bound only; the checked build as the observer of violated preconditions at run time.",
        "technique": 'Lean 4 precondition theorems over the WF invariant + checked-build execution of all streams (partial)',
        "translator": True,
    },
    "C10": {
        "text": "Kernel-checked refinement of the iterator model (after the fix: commits) to 'the list of moves its entries denote under the mask': len = size_hint = its length, is_empty iff it is empty, next yields its head and leaves its tail, draining yields it exactly once in order, remove and remove_move filter it, set_mask re-bases it up to order — for every state with the promotion cursor at a group boundary. Masks: legals_masked(m) = legals() filtered by destination in the same order (every board), hence exactly the legal moves with destination in m, each once (every well-formed board, via C01); set_mask on an existing iterator denotes exactly the not-yet-yielded moves with destination in the mask; a round under a mask yields those and leaves the rest; successive masks that together cover the board yield every legal move exactly once. Per run: lock-step operation sequences (next, len, is_empty, size_hint, set_mask, remove, remove_move, clone) on the real MoveGen, replayed by the model and judged by a specification monitor. Two defects that need a different MoveGen representation are recorded as known findings (mid-promotion-group edits; remove_move of one promotion choice).",
        "note": "Trusted: Lean kernel (axioms propext, Classical.choice, Quot.sound); hand-written model of MoveGen tied to the code by exact replay of operation sequences; the specification monitor checks every trace against the remaining-move set.",
        "technique": "Lean 4 refinement proof (simulation to an abstract move list, induction over fuel, permutation lemmas for set_mask and successive masks) + lock-step operation-sequence correspondence",
        "translator": True,
    },
    "C11": {
        "text": "Lean model of search_with/alphabeta/eval for both policies with the timeout as a poll index (the k-th poll is the first to report expiry); total by recursion on fuel. Kernel-checked for every board, every repetition history, every expiry index k and every stale max_depth: a returned move is one the generator yields (search_legal) and therefore, on well-formed boards, legal by the rules of chess (search_legal_spec, via C01); no legal move => no move returned (search_none); the first deepening pass finished and legal moves exist => a move is returned (search_some); first pass unfinished => no move (search_unfinished); k = 0 => no move (search_immediate). Per run: exact correspondence of (move, score, depth, evaluations, polls) between the real Engine::search with a counting Timeout and the model for k = 0..6 and geometrically up to thousands of polls, the model's firstPassFinished against what the harness observes, and a specification oracle on the returned move. Wall-clock expiry is abstracted to the poll index; panics are traps under the checked build.",
        "note": "Trusted: Lean kernel (axioms propext, Classical.choice, Quot.sound); hand-written engine model (positional = false, the only shipped configuration) tied to the code exactly; DurationTimeout assumed monotone; partial only in that wall-clock time is abstracted to the poll index.",
        "technique": "Lean 4 invariant proofs over the deepening loop, root loops and alphabeta (induction on fuel) + exact correspondence on (position, expiry index) + specification oracle",
        "translator": True,
    },
    "C12": {
        "text": "Kernel-checked for every board, repetition history, expiry index and stale max_depth: mate1_truthful — a mate-in-one score for the side to move is only reported together with a move after which the opponent has no legal move and is in check (checkmate by the rules: isMateMove_spec, via C01-C03); mate1_found — on well-formed boards, if the first deepening pass finishes and some legal move mates, the search returns a mating move with the mover's mate-in-one score. mate1_found carries one side condition: the witness mating move is not a capture leaving insufficient material (K v K, K+minor v K), which alphabeta scores as a draw before looking for mate; that no such move can mate is a chess fact not proved here. Per run: oracle on mating nets with zero, one, several mating moves, on retrograde-built mates (captures of every kind of man down to minimal material, quiet mates with the half-move clock up to 99) and positions from play; exact model equality as in C11.",
        "note": "Trusted: Lean kernel (axioms propext, Classical.choice, Quot.sound); engine model tied exactly; the side condition of mate1_found (see text).",
        "technique": "Lean 4 invariant proofs over the search (score shape by depth, strict improvement keeps the first mating move) + specification oracle on generated and retrograde-built mating positions",
        "translator": True,
    },
    "C13": {
        "text": "Kernel-checked for all scores: negation is an involution reversing the order; the sentinels, is_better, Ord::max/min, update_cutoff and the cutoff test of the two policies are exact duals under negating and swapping the window. The statement for the whole search (mirror position => negated score per completed depth) is decided per run by the metamorphic oracle on the implementation, both searches being tied to the model exactly.",
        "note": "Trusted: Lean kernel (axioms propext, Classical.choice, Quot.sound); engine model; partial proof (eval/legals mirror lemmas and alphabeta = minimax open).",
        "technique": "Lean 4 duality lemmas + metamorphic differential on mirrored positions (partial proof)",
        "translator": True,
    },
    "C15": {
        "text": "Kernel-checked refinement (bot_refines): for every sequence of set_board / make_move calls (boards handed to set_board well formed) the plugin model answers exactly like the specification — a move is accepted iff it is legal by the rules of chess in the current position (C01), the reported board is the reference successor (C02) and stays well formed, and the threefold flag is raised exactly when the produced position (placement, side to move, rights, e.p. file) occurs for the third time among the positions produced since the board was last set; an illegal move leaves the state unchanged. The proposed move is legal: C11.search_legal_spec. Per run: set-board / make-move (legal and illegal) / evaluate sequences with long reversible manoeuvres through the real chess-bot cdylib loaded via abi_stable, replayed by the model and judged by the specification monitor.",
        "note": "Trusted: Lean kernel (axioms propext, Classical.choice, Quot.sound); plugin/ThreeFold models tied to the real plugin by lock-step replay; the reading of 'third occurrence' recorded in DESIGN.md §5; encodings across the ABI are C16; dynamic loading is runtime behaviour.",
        "technique": "Lean 4 refinement proof (simulation relation with a counting invariant on the repetition table, using C01/C02) + lock-step operation-sequence correspondence through the real plugin",
        "translator": True,
    },
    "C17": {
        "text": "The book table is regenerated from the source; the iterator model is proved to move to strictly smaller indices (termination from any node, fuel index+1 suffices) and to refuse reads beyond the table; the walk of all 29037 nodes with the model's checked make-move finds no illegal move, no out-of-range read (native_decide). The same walk by the real iterator with the real move_mut and by the specification's rules must give identical counts and digest.",
        "note": "Trusted: Lean kernel for the structural theorems; native_decide (axiom Lean.ofReduceBool: the Lean compiler) for the one evaluation over the whole book; translator for BOOK; legality is the model's move_new, tied to the rules by C01's oracle and by the specification-side walk.",
        "technique": "Lean 4: structural termination proof + native_decide evaluation over the translated book + exhaustive walk on implementation, model and specification",
        "translator": True,
    },
}
