"""Per-property configuration for ./check: harness streams, translator dependencies, trusted base."""

COMMON_TRUST = [
    "hand-written Lean model tied to the Rust by the correspondence stream (same requests answered by the real crates in-process and by the compiled Lean model; any difference breaks the tie)",
    "Rust harness /verif/harness (request generation, calling the public API, formatting answers)",
]

PROPS = {
    "C14": {
        "streams": [{"name": "c14"}],
        "translators": ["score"],
        "rule": "all ordered pairs of a 25-score grid (mate distances {0,1,2,3,100,65534,65535}, raw {i32::MIN,MIN+1,-1000,-1,0,1,1000,MAX-1,MAX}, both sentinels) x 8 operations, plus seeded random pairs; every request is non-trivial; distinct = distinct request lines",
        "trusted": ["tools/translate.py: `Score::kind`, the declaration order of `ScoreKind` (derived Ord) and the arms of `impl Ord for Score` are regenerated into Gen/ScoreFns.lean; the theorems are about those generated functions",
                    "modelled, not verified: the derived `PartialEq` of `Score` (structural), std's `Ord::max/min`, `PartialOrd::lt/le/gt` defaults"] + COMMON_TRUST,
        "assumptions": ["u16/i32 payloads are embedded in Nat/Int (the theorems hold for all naturals/integers)"],
    },
    "C16": {
        "streams": [{"name": "c16"}],
        "translators": ["api"],
        "rule": "exhaustive: all 64x64x5 moves through StableChessMove and through EvaluatedMove, None, all 2x65536 mate distances, raw scores at the extremes, -2000..2000 and seeded random; distinct = distinct request lines",
        "trusted": ["tools/translate.py: the match arms of the five From impls and of EvaluatedMove::new/score, the None sentinel and the struct-literal field wiring are regenerated into Gen/ApiMaps.lean",
                    "modelled, not verified: abi_stable layout checking and the #[repr] discriminants (the round trip is proved at the level of Rust values)"] + COMMON_TRUST,
        "assumptions": [],
    },
    "C20": {
        "streams": [{"name": "c20"}],
        "translators": [],
        "rule": "all 18^d schedules of length d (quick d=3, thorough d=4) of the 9 operations on two real OS threads driven in lock step, plus seeded random schedules of length <= 30 on 2-3 threads; is_enabled() sampled on every thread after every step; non-trivial = both threads act; distinct = distinct schedules",
        "trusted": ["partial: thread-local storage is taken to be per-thread and each AtomicBool access to be one atomic step (hardware memory model assumed, not verified)"] + COMMON_TRUST,
        "assumptions": ["operation-granularity interleavings are complete because every public function touches the atomic at most once"],
    },
    "C18": {
        "streams": [{"name": "c18"},
                    {"name": "c18", "tag": "nobmi2", "target_dir": "target-nobmi2", "rustflags": "-Ctarget-cpu=native -Ctarget-feature=-bmi2"}],
        "translators": [],
        "rule": "2081 structured boards (empty, full, 64 singles, 2016 pairs, 8 files, 8 ranks) and seeded random words through every unary operation; all 64 squares for contains/with/cleared on a sample; binary operations on mixed structured/random pairs (all operator impls cross-checked); nth for n in 0..=70 and huge n on both CPU-feature builds (BMI2/PDEP path and portable path); non-trivial = board neither empty nor full (unary) / any (others); distinct = distinct request lines",
        "trusted": ["modelled, not verified: u64::trailing_zeros, count_ones, swap_bytes and the BMI2 intrinsic _pdep_u64 are small recursive Lean definitions (Model/Basic.lean: tz, popcountAux, swapBytes, pdepAux) whose set meaning is proved; their agreement with the hardware/std behaviour is exercised by the stream"] + COMMON_TRUST,
        "assumptions": ["BitBoardIter::nth returning None leaves the iterator as it was on the BMI2 path (observed behaviour, not constrained by the property)"],
    },
    "C19": {
        "streams": [{"name": "c19"}],
        "translators": [],
        "rule": "exhaustive: 64 squares x 9 coordinate functions, 256 single bytes x 6 parsers, all 65536 two-byte strings for Pos, all 14^4 four-byte move strings over the boundary alphabet (every 11th of 14^5 in quick, all in thorough), all iterator operation sequences over 17 operations to depth 3 (quick) / 4 (thorough) for the five enumerating iterators; plus mutated valid moves and random byte strings; FromStr cross-checked against from_ascii_bytes on UTF-8 inputs; distinct = distinct request lines",
        "trusted": ["modelled, not verified: core::ops::Range<u8> (next, next_back, nth, nth_back, size_hint) as Model/Text.lean Range"] + COMMON_TRUST,
        "assumptions": [],
    },
    "C08": {
        "streams": [{"name": "c08"}],
        "translators": ["rook", "bishop", "tables"],
        "rule": "exhaustive accessor sweep: the real rook_moves/bishop_moves on every subset of every square's magic mask (102400 + 5248; thorough: every subset of the full rays, 2^14 per rook square) plus seeded random full occupancies (off-ray independence), compared with the model's table read and with ray casting by stepping; distinct = distinct (square, occupancy) requests",
        "trusted": ["tools/translate.py: the 2x64 Magic{factor,mask,offset,shift} records and the 2x262144 SOLUTIONS entries are regenerated into Gen/RookMagic.lean, Gen/BishopMagic.lean (entries beyond the last non-zero one are checked to be zero by the translator and read as zero)",
                    "modelled, not verified: the index expression of chess-lookup/src/lib.rs (wrapping_mul, >>, wrapping_add) as BitVec 64 arithmetic in Model/Lookup.lean; the cfg!(debug_assertions) branch choice"] + COMMON_TRUST,
        "assumptions": [],
    },
    "C09": {
        "streams": [{"name": "c09"}],
        "translators": ["tables", "consts"],
        "rule": "exhaustive: every public accessor and constant of chess_lookup over its whole domain (64 squares, 4096 pairs, 2 colours, 8 files/ranks, 17 constants), every deterministic public function of chess_lookup_generator against the checked-in tables, the pawn helpers on all 2^k patterns of their relevant squares plus off-pattern noise; distinct = distinct request lines",
        "trusted": ["tools/translate.py: the eight geometry tables and the hand-written constants (as expressions over the model's constructors) are regenerated into Gen/Tables.lean, Gen/Consts.lean",
                    "modelled, not verified: the accessor bodies of chess-lookup/src/lib.rs (pawn_quiets, pawn_attacks, distance, ADJACENT_FILES/RANKS loops) in Model/Lookup.lean; the magic generator's random search and the book builder are out of scope"] + COMMON_TRUST,
        "assumptions": [],
    },
}
