"""Per-property configuration for ./check: harness streams, translator dependencies, trusted base."""

COMMON_TRUST = [
    "hand-written Lean model tied to the Rust by the correspondence stream (same requests answered by the real crates in-process and by the compiled Lean model; any difference breaks the tie)",
    "Rust harness /verif/harness (request generation, calling the public API, formatting answers)",
]

PROPS = {
    "C14": {
        "streams": [{"name": "c14"}],
        "translators": ["score"],
        "rule": "all ordered pairs of a 25-score grid (mate distances {0,1,2,3,100,65534,65535}, raw {i32::MIN,MIN+1,-1000,-1,0,1,1000,MAX-1,MAX}, both sentinels) x 8 operations, plus seeded random pairs; every request is non-trivial; distinct = distinct request lines",
        "trusted": ["tools/translate.py: `Score::kind`, the declaration order of `ScoreKind` (derived Ord) and the arms of `impl Ord for Score` are regenerated into Gen/ScoreFns.lean; the theorems are about those generated functions",
                    "modelled, not verified: the derived `PartialEq` of `Score` (structural), std's `Ord::max/min`, `PartialOrd::lt/le/gt` defaults"] + COMMON_TRUST,
        "assumptions": ["u16/i32 payloads are embedded in Nat/Int (the theorems hold for all naturals/integers)"],
    },
    "C16": {
        "streams": [{"name": "c16"}],
        "translators": ["api"],
        "rule": "exhaustive: all 64x64x5 moves through StableChessMove and through EvaluatedMove, None, all 2x65536 mate distances, raw scores at the extremes, -2000..2000 and seeded random; distinct = distinct request lines",
        "trusted": ["tools/translate.py: the match arms of the five From impls and of EvaluatedMove::new/score, the None sentinel and the struct-literal field wiring are regenerated into Gen/ApiMaps.lean",
                    "modelled, not verified: abi_stable layout checking and the #[repr] discriminants (the round trip is proved at the level of Rust values)"] + COMMON_TRUST,
        "assumptions": [],
    },
    "C20": {
        "streams": [{"name": "c20"}],
        "translators": [],
        "rule": "all 18^d schedules of length d (quick d=3, thorough d=4) of the 9 operations on two real OS threads driven in lock step, plus seeded random schedules of length <= 30 on 2-3 threads; is_enabled() sampled on every thread after every step; non-trivial = both threads act; distinct = distinct schedules",
        "trusted": ["partial: thread-local storage is taken to be per-thread and each AtomicBool access to be one atomic step (hardware memory model assumed, not verified)"] + COMMON_TRUST,
        "assumptions": ["operation-granularity interleavings are complete because every public function touches the atomic at most once"],
    },
}
