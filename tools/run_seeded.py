#!/usr/bin/env python3
"""usage: run_seeded.py <id>...   — applies seeded/<id>/patch.diff to /repo, runs the quick check of the property it
breaks (plus the extra checks given as id:Cxx,Cyy), reverts, and writes seeded/<id>/result.json.  Never commits."""
import json, os, re, subprocess, sys
V = os.path.dirname(os.path.dirname(os.path.abspath(__file__)))
def sh(cmd, **kw):
    return subprocess.run(cmd, capture_output=True, text=True, **kw)
# the checks rewrite evidence/<Cxx>.json; what they write under a seeded change must not stay behind
import shutil, tempfile
_saved = tempfile.mkdtemp(prefix="evidence-saved-")
shutil.copytree(os.path.join(V, "evidence"), os.path.join(_saved, "evidence"))
for arg in sys.argv[1:]:
    mid, _, extra = arg.partition(":")
    d = os.path.join(V, "seeded", mid)
    prop = json.load(open(os.path.join(d, "meta.json")))["property"]
    props = [prop] + [x for x in extra.split(",") if x and x != prop]
    assert sh(["git", "-C", "/repo", "status", "--porcelain"]).stdout.strip() == "", "/repo not clean"
    r = sh(["git", "-C", "/repo", "apply", os.path.join(d, "patch.diff")])
    res = {"id": mid, "checks": {}}
    try:
        if r.returncode != 0:
            res["error"] = "patch does not apply: " + r.stderr[-300:]
        else:
            for p in props:
                c = sh([os.path.join(V, "check"), p, "quick"], cwd=V)
                out = c.stdout
                v = re.search(r"^VIOLATION property=\S+ replay=\S+(.*)$", out, flags=re.M)
                entry = {"exit": c.returncode}
                if v:
                    entry["verdict"] = "violation, no failing input found" if "no-failing-input-found" in v.group(1) else "violation with failing input"
                    m = re.search(r"^  input: (.*)$", out, flags=re.M)
                    if m:
                        entry["input"] = m.group(1)[:300]
                        mi = re.search(r"^  impl:  (.*)$", out, flags=re.M); ms = re.search(r"^  spec:  (.*)$", out, flags=re.M)
                        entry["impl"] = mi.group(1)[:200] if mi else None
                        entry["spec"] = ms.group(1)[:200] if ms else None
                    entry["broken"] = [l.strip()[8:][:200] for l in out.split("\n") if l.startswith("  broken:")][:4]
                else:
                    entry["verdict"] = "not detected" if c.returncode == 0 else "check failed without verdict"
                res["checks"][p] = entry
    finally:
        sh(["git", "-C", "/repo", "checkout", "--", "."])
    json.dump(res, open(os.path.join(d, "result.json"), "w"), indent=1)
    print(mid, {p: e["verdict"] for p, e in res["checks"].items()}, flush=True)
shutil.rmtree(os.path.join(V, "evidence"))
shutil.copytree(os.path.join(_saved, "evidence"), os.path.join(V, "evidence"))
shutil.rmtree(_saved, ignore_errors=True)
# restore generated files and builds for the clean tree
sh(["python3", os.path.join(V, "tools", "translate.py")], cwd=V)
sh(["lake", "build", "ChessVerif", "chessdrv"], cwd=os.path.join(V, "lean"))
