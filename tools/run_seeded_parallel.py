#!/usr/bin/env python3
"""usage: run_seeded_parallel.py <workers> [<id>[:Cxx,Cyy] ...]   (no ids: every directory under seeded/)

Runs the seeded changes against the quick checks in <workers> isolated copies, so that /repo and /verif
themselves are never touched: worker i gets a scratch git worktree of /repo (/tmp/vw<i>/repo) and a copy of
/verif (/tmp/vw<i>/verif, with the harness's path dependencies pointing at that worktree and VERIF_REPO set).
Each change is applied to the worker's worktree, the quick check of the property it was written against
(plus the extra ones given after the colon) is run there, and the tree is reverted.  The verdicts are
written to /verif/seeded/<id>/result.json.  The scratch copies are removed at the end."""
import json, os, re, shutil, subprocess, sys, threading, queue

V = os.path.dirname(os.path.dirname(os.path.abspath(__file__)))


def sh(cmd, **kw):
    return subprocess.run(cmd, capture_output=True, text=True, **kw)


def setup_worker(i):
    base = f"/tmp/vw{i}"
    shutil.rmtree(base, ignore_errors=True)
    os.makedirs(base)
    repo = f"{base}/repo"
    sh(["git", "-C", "/repo", "worktree", "prune"])
    r = sh(["git", "-C", "/repo", "worktree", "add", "--detach", repo, "HEAD"])
    assert r.returncode == 0, r.stderr
    ver = f"{base}/verif"
    r = sh(["rsync", "-a", "--exclude", ".git", "--exclude", "work", "--exclude", "replays", "--exclude", "target*",
            "--exclude", "seeded", V + "/", ver + "/"])
    assert r.returncode == 0, r.stderr
    ct = f"{ver}/harness/Cargo.toml"
    s = open(ct).read().replace('path = "/repo/', f'path = "{repo}/')
    open(ct, "w").write(s)
    gl = f"{ver}/harness/src/glue.rs"
    if os.path.exists(gl):
        s = open(gl).read().replace('#[path = "/repo/', f'#[path = "{repo}/')
        open(gl, "w").write(s)
    return repo, ver


def run_one(repo, ver, mid, extra):
    d = os.path.join(V, "seeded", mid)
    prop = json.load(open(os.path.join(d, "meta.json")))["property"]
    props = [prop] + [x for x in extra.split(",") if x and x != prop]
    env = dict(os.environ, VERIF_REPO=repo)
    res = {"id": mid, "checks": {}}
    r = sh(["git", "-C", repo, "apply", os.path.join(d, "patch.diff")])
    try:
        if r.returncode != 0:
            res["error"] = "patch does not apply: " + r.stderr[-300:]
        else:
            for p in props:
                c = sh([os.path.join(ver, "check"), p, "quick"], cwd=ver, env=env)
                out = c.stdout
                v = re.search(r"^VIOLATION property=\S+ replay=\S+(.*)$", out, flags=re.M)
                entry = {"exit": c.returncode}
                if v:
                    entry["verdict"] = "violation, no failing input found" if "no-failing-input-found" in v.group(1) else "violation with failing input"
                    m = re.search(r"^  input: (.*)$", out, flags=re.M)
                    if m:
                        entry["input"] = m.group(1)[:300]
                        mi = re.search(r"^  impl:  (.*)$", out, flags=re.M)
                        ms = re.search(r"^  spec:  (.*)$", out, flags=re.M)
                        entry["impl"] = mi.group(1)[:200] if mi else None
                        entry["spec"] = ms.group(1)[:200] if ms else None
                    entry["broken"] = [l.strip()[8:][:200] for l in out.split("\n") if l.startswith("  broken:")][:4]
                else:
                    entry["verdict"] = "not detected" if c.returncode == 0 else "check failed without verdict"
                    if c.returncode != 0:
                        entry["output"] = (out + c.stderr)[-400:]
                res["checks"][p] = entry
    finally:
        sh(["git", "-C", repo, "checkout", "--", "."])
    json.dump(res, open(os.path.join(d, "result.json"), "w"), indent=1)
    print(mid, {p: e["verdict"] for p, e in res["checks"].items()}, flush=True)


def main():
    n = int(sys.argv[1])
    args = sys.argv[2:] or sorted(os.listdir(os.path.join(V, "seeded")))
    q = queue.Queue()
    for a in args:
        q.put(a)

    def worker(i):
        repo, ver = setup_worker(i)
        try:
            while True:
                try:
                    a = q.get_nowait()
                except queue.Empty:
                    break
                mid, _, extra = a.partition(":")
                try:
                    run_one(repo, ver, mid, extra)
                except Exception as e:  # noqa
                    print(mid, "ERROR", e, flush=True)
        finally:
            sh(["git", "-C", "/repo", "worktree", "remove", "--force", repo])
            shutil.rmtree(f"/tmp/vw{i}", ignore_errors=True)

    ts = [threading.Thread(target=worker, args=(i,)) for i in range(n)]
    for t in ts:
        t.start()
    for t in ts:
        t.join()
    sh(["git", "-C", "/repo", "worktree", "prune"])


if __name__ == "__main__":
    main()
