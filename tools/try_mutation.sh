#!/bin/sh
# usage: tools/try_mutation.sh <patch.diff> <Cxx> [<Cxx> ...]
# applies the patch to /repo's working tree, runs the quick checks, prints their verdict lines, reverts.
patch="$1"; shift
cd /repo || exit 2
if ! git diff --quiet; then echo "/repo working tree not clean"; exit 2; fi
git apply "$patch" || { echo "patch does not apply"; exit 2; }
cd /verif
for p in "$@"; do
  echo "== $p with $(basename $(dirname $patch))"
  ./check "$p" quick 2>&1 | grep -E "^(OK|VIOLATION|KNOWN-FINDING|  input|  impl|  spec|  broken)" | cut -c1-300 | head -12
done
cd /repo && git checkout -- . && git status --short | head -3
