#!/usr/bin/env python3
"""validate MANIFEST.json and evidence/*.json against the schemas (run with python3-vt)"""
import json, sys, glob, jsonschema
ok = True
m = json.load(open('/verif/MANIFEST.json'))
try:
    jsonschema.validate(m, json.load(open('/root/.vp/MANIFEST.schema.json'))); print('MANIFEST valid')
except Exception as e:
    ok = False; print('MANIFEST INVALID', str(e)[:300])
s = json.load(open('/root/.vp/EVIDENCE.schema.json'))
for f in sorted(glob.glob('/verif/evidence/*.json')):
    try:
        jsonschema.validate(json.load(open(f)), s); print(f, 'valid')
    except Exception as e:
        ok = False; print(f, 'INVALID', str(e)[:300])
ps = json.load(open('/root/.vp/PROPERTIES.schema.json'))
ids = [json.loads(l)['id'] for l in open('/verif/properties.jsonl')]
claimed = [c['property_id'] for c in m['checks']]
na = [c['property_id'] for c in m.get('not_applicable', [])]
for i in ids:
    if i not in claimed and i not in na:
        ok = False; print('property neither claimed nor not_applicable:', i)
sys.exit(0 if ok else 1)
